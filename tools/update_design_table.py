#!/usr/bin/env python3
"""Replace the table of kept seeded changes at the end of DESIGN.md (it is the last thing in the file) with a fresh one."""
import os, subprocess
V = os.path.dirname(os.path.dirname(os.path.abspath(__file__)))
p = os.path.join(V, "DESIGN.md")
s = open(p).read()
hdr = "| change | what it does (first line of the author's note) | first verdict | now |"
assert s.count(hdr) == 1, s.count(hdr)
i = s.index(hdr)
tab = subprocess.check_output(["python3", os.path.join(V, "tools", "seed_table.py")], text=True)
open(p, "w").write(s[:i] + tab.rstrip("\n") + "\n")
print("table rows:", tab.count("\n") - 2)
