#!/usr/bin/env python3
"""Re-run every quick check against every kept seeded change (regression of
the detection matrix).  Each patch is applied to /repo with `git apply`,
checked, and undone straight afterwards (`git checkout -- .`).

usage: recheck_seeded.py [--update]      (--update rewrites meta.json 'checks')
"""
import glob
import json
import os
import subprocess
import sys

sys.path.insert(0, os.path.dirname(os.path.abspath(__file__)))
from collect_seed import restore_repo, run_checks, sh  # noqa: E402

VERIF = os.path.dirname(os.path.dirname(os.path.abspath(__file__)))


def main():
    update = "--update" in sys.argv
    rc, st = sh("git -C /repo status --porcelain --untracked-files=no")
    if st.strip():
        print("refusing: /repo has local modifications")
        return 2
    rows = []
    for d in sorted(glob.glob(os.path.join(VERIF, "seeded", "*"))):
        meta_p = os.path.join(d, "meta.json")
        if not os.path.exists(meta_p):
            continue
        meta = json.load(open(meta_p))
        prop = meta["property"]
        patch = os.path.join(d, "patch.diff")
        rc, out = sh("git -C /repo apply %s" % patch)
        if rc != 0:
            rows.append((os.path.basename(d), prop, "patch no longer applies", "", ""))
            continue
        try:
            res = run_checks(prop)
        finally:
            restore_repo()
        tgt = res[prop]
        others = sorted("%s:%s" % (c, "/".join(r["rules"])) for c, r in res.items() if r["exit"] == 1 and c != prop)
        errs = sorted(c for c, r in res.items() if r["exit"] == 2)
        verdict = {0: "missed", 1: "VIOLATION", 2: "fail-closed (exit 2)"}[tgt["exit"]]
        rows.append((os.path.basename(d), prop, verdict, "/".join(tgt["rules"]), ", ".join(others) + (" | exit2: " + ",".join(errs) if errs else "")))
        meta["current"] = verdict + (" " + "/".join(tgt["rules"]) if tgt["rules"] else "")
        if update:
            meta["checks"] = {c: {"exit": r["exit"], "rules": r["rules"], "first_report": r["first"]} for c, r in res.items() if r["exit"] != 0}
            meta["detected_by_target_check"] = tgt["exit"] == 1
            meta["detected_by_any_check"] = any(r["exit"] == 1 for r in res.values())
            json.dump(meta, open(meta_p, "w"), indent=1)
    w = max(len(r[0]) for r in rows) if rows else 10
    for r in rows:
        print("%-*s %-4s %-22s %-18s %s" % (w, *r))
    n = len(rows)
    print("%d seeded changes: %d reported by the target check, %d fail-closed, %d missed by the target (of which %d caught by another check)" % (
        n, sum(1 for r in rows if r[2] == "VIOLATION"), sum(1 for r in rows if r[2].startswith("fail-closed")),
        sum(1 for r in rows if r[2] == "missed"), sum(1 for r in rows if r[2] == "missed" and r[4] and not r[4].startswith(" |"))))
    return 0


if __name__ == "__main__":
    sys.exit(main())
