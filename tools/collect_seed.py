#!/usr/bin/env python3
"""Collect seeded breakages produced by a sub-agent in a scratch worktree.

usage: collect_seed.py <property id> <worktree> [tag]

For each variant X in <worktree>/_seed/X.diff:
  1. confirm in the scratch worktree: diff applies, suite still passes with it,
     demo FAILs with it and PASSes without it;
  2. apply it to /repo, run every quick check, undo it straight away;
  3. keep it as /verif/seeded/<id>-<tag><X>/ {patch.diff, demo.py, notes.md, meta.json}.
"""
import glob
import json
import os
import re
import shutil
import subprocess
import sys

VERIF = os.path.dirname(os.path.dirname(os.path.abspath(__file__)))
PY = "/venv/bin/python"
CLAIMED = ["C01", "C02", "C03", "C04", "C05", "C06", "C07", "C08", "C09", "C10", "C11", "C12", "C13", "C14", "C15", "C16", "C17", "C18", "C19", "C20"]


def sh(cmd, cwd=None, env=None, timeout=900):
    p = subprocess.run(cmd, shell=True, cwd=cwd, env=env, capture_output=True, text=True, timeout=timeout)
    return p.returncode, (p.stdout + p.stderr)


def restore_repo():
    """Undo an applied patch; retried, because a concurrent git command may hold the index lock."""
    import time
    for _ in range(20):
        sh("git -C /repo checkout -- .")
        rc, st = sh("git -C /repo status --porcelain --untracked-files=no")
        if rc == 0 and not st.strip():
            return
        time.sleep(0.5)
    raise SystemExit("could not restore /repo: %s" % st)


def suite(wt):
    rc, out = sh("%s -m pytest -q -p no:cacheprovider --color=no -x tests 2>&1 | tail -3" % PY, cwd=wt)
    m = re.search(r"(\d+) passed", out)
    bad = re.search(r"\b\d+ (failed|error|errors)\b", out) is not None
    return (int(m.group(1)) if m else 0), bad, out.strip().splitlines()[-1] if out.strip() else ""


def demo(wt, path):
    env = dict(os.environ, PYTHONPATH=wt)
    rc, out = sh("%s %s" % (PY, path), cwd=wt, env=env, timeout=300)
    return rc, out.strip()[-400:]


def run_checks(prop_first):
    # the 16 checks only read /repo: run them side by side (each writes its own evidence file)
    from concurrent.futures import ThreadPoolExecutor
    res = {}
    order = [prop_first] + [c for c in CLAIMED if c != prop_first]

    def one(c):
        rc, out = sh("%s %s/bin/check.py %s" % (PY, VERIF, c), cwd=VERIF)
        rules = sorted(set(re.findall(r"^\s+(R\d+\.\w+'?) ", out, re.M)))
        return c, {"exit": rc, "rules": rules,
                   "first": next((l.strip()[:300] for l in out.splitlines() if l.strip().startswith("R") and " in " in l), "")
                   if rc == 1 else (out.strip().splitlines()[-1][:300] if rc == 2 and out.strip() else "")}
    with ThreadPoolExecutor(max_workers=16) as ex:
        for c, r in ex.map(one, order):
            res[c] = r
    return res


def main():
    prop, wt = sys.argv[1], sys.argv[2].rstrip("/")
    tag = sys.argv[3] if len(sys.argv) > 3 else "a"
    rc, st = sh("git -C /repo status --porcelain --untracked-files=no")
    if st.strip():
        print("refusing: /repo has local modifications"); return 2
    for diff in sorted(glob.glob(os.path.join(wt, "_seed", "*.diff"))):
        X = os.path.basename(diff)[:-5]
        name = "%s-%s%s" % (prop, tag, X)
        print("== %s" % name)
        demo_py = os.path.join(wt, "_seed", "%s_demo.py" % X)
        notes = os.path.join(wt, "_seed", "%s.md" % X)
        sh("git -C %s checkout -- param numbergen" % wt)
        rc0, out0 = demo(wt, demo_py)
        rc, out = sh("git -C %s apply %s" % (wt, diff))
        if rc != 0:
            print("   diff does not apply: %s" % out[:200]); continue
        passed, failed, last = suite(wt)
        rc1, out1 = demo(wt, demo_py)
        sh("git -C %s checkout -- param numbergen" % wt)
        confirmed = (rc0 == 0 and rc1 != 0 and passed == 1185 and not failed)
        print("   suite with change: %s | demo clean rc=%d, with change rc=%d | confirmed=%s" % (last, rc0, rc1, confirmed))
        if not confirmed:
            print("   NOT KEPT"); continue
        rc, out = sh("git -C /repo apply %s" % diff)
        if rc != 0:
            print("   does not apply to /repo: %s" % out[:200]); continue
        try:
            res = run_checks(prop)
        finally:
            restore_repo()
        fired = {c: r for c, r in res.items() if r["exit"] == 1}
        errored = {c: r for c, r in res.items() if r["exit"] == 2}
        print("   target %s: exit %d %s" % (prop, res[prop]["exit"], res[prop]["rules"]))
        for c, r in fired.items():
            if c != prop:
                print("   also fired: %s %s" % (c, r["rules"]))
        for c, r in errored.items():
            print("   analysis-error: %s %s" % (c, r["first"]))
        d = os.path.join(VERIF, "seeded", name)
        os.makedirs(d, exist_ok=True)
        shutil.copy(diff, os.path.join(d, "patch.diff"))
        shutil.copy(demo_py, os.path.join(d, "demo.py"))
        if os.path.exists(notes):
            shutil.copy(notes, os.path.join(d, "notes.md"))
        meta = {
            "property": prop,
            "source": "independent sub-agent given only the property text and its own scratch worktree (%s)" % os.path.basename(wt),
            "needs_to_manifest": open(notes).read().strip() if os.path.exists(notes) else "",
            "confirmed": {
                "suite_with_change": last, "demo_clean_exit": rc0, "demo_with_change_exit": rc1,
                "ran": ["git apply patch.diff (scratch worktree)", "cd <wt> && /venv/bin/python -m pytest -q -p no:cacheprovider tests",
                        "PYTHONPATH=<wt> /venv/bin/python demo.py (with and without the change)",
                        "git -C /repo apply patch.diff; /venv/bin/python /verif/bin/check.py <each claimed id>; git -C /repo checkout -- ."],
            },
            "checks": {c: {"exit": r["exit"], "rules": r["rules"], "first_report": r["first"]} for c, r in res.items() if r["exit"] != 0},
            "detected_by_target_check": res[prop]["exit"] == 1,
            "detected_by_any_check": bool(fired),
        }
        # the verdict of the checks as they were when the change was first collected is kept for good
        old_meta = os.path.join(d, "meta.json")
        if os.path.exists(old_meta):
            meta["first_try"] = json.load(open(old_meta)).get("first_try")
        if not meta.get("first_try"):
            t = res[prop]
            meta["first_try"] = ("VIOLATION " + "/".join(t["rules"])) if t["exit"] == 1 else (
                "fail-closed (exit 2)" if t["exit"] == 2 else ("missed by %s" % prop + (
                    " (%s fired)" % ", ".join("%s %s" % (c, "/".join(r["rules"])) for c, r in fired.items()) if fired else "")))
        json.dump(meta, open(os.path.join(d, "meta.json"), "w"), indent=1)
    return 0


if __name__ == "__main__":
    sys.exit(main())
