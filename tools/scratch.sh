#!/bin/bash
# usage: scratch.sh <name> [patch.diff]   -> /tmp/sc_<name>: committed HEAD of /repo (+ patch); run checks with VERIF_REPO=/tmp/sc_<name>
set -e
d=/tmp/sc_$1
rm -rf "$d"; mkdir -p "$d"
git -C /repo archive HEAD param numbergen | tar -x -C "$d"
if [ -n "$2" ]; then p=$(realpath "$2"); (cd "$d" && patch -p1 -s < "$p"); fi
echo "$d"
