#!/usr/bin/env python3
"""Re-run every quick check against the named seeded changes only and update their meta.json (`current`, `checks`).

usage: refresh_seed.py <seed-id> [<seed-id> ...]      e.g.  refresh_seed.py C03-eB C10-mA
(the full regression over all seeded changes is tools/recheck_seeded.py --update; the self-test runner re-decides every
seeded change on a scratch copy with the baseline's own reports subtracted)"""
import json
import os
import sys

sys.path.insert(0, os.path.dirname(os.path.abspath(__file__)))
from collect_seed import restore_repo, run_checks, sh  # noqa: E402

VERIF = os.path.dirname(os.path.dirname(os.path.abspath(__file__)))


def main():
    rc, st = sh("git -C /repo status --porcelain --untracked-files=no")
    if st.strip():
        print("refusing: /repo has local modifications")
        return 2
    for sid in sys.argv[1:]:
        d = os.path.join(VERIF, "seeded", sid)
        meta = json.load(open(os.path.join(d, "meta.json")))
        prop = meta["property"]
        rc, out = sh("git -C /repo apply %s/patch.diff" % d)
        if rc != 0:
            print(sid, "patch no longer applies")
            continue
        try:
            res = run_checks(prop)
        finally:
            restore_repo()
        tgt = res[prop]
        verdict = {0: "missed", 1: "VIOLATION", 2: "fail-closed (exit 2)"}[tgt["exit"]]
        meta["current"] = verdict + (" " + "/".join(tgt["rules"]) if tgt["rules"] else "")
        meta["checks"] = {c: {"exit": r["exit"], "rules": r["rules"], "first_report": r["first"]} for c, r in res.items() if r["exit"] != 0}
        meta["detected_by_target_check"] = tgt["exit"] == 1
        meta["detected_by_any_check"] = any(r["exit"] == 1 for r in res.values())
        json.dump(meta, open(os.path.join(d, "meta.json"), "w"), indent=1)
        print(sid, meta["current"])
    return 0


if __name__ == "__main__":
    sys.exit(main())
