#!/bin/bash
# Run every claimed quick check against /repo as it is (rewrites evidence/*.json); prints the summary line of each
# and, loudly, anything that would count as an alarm on the unchanged tree.
cd "$(dirname "$0")/.."
bad=0
for id in C01 C02 C03 C04 C05 C06 C07 C08 C09 C10 C11 C12 C13 C14 C15 C16 C17 C18 C19 C20; do
  out=$(/venv/bin/python bin/check.py $id --tier quick 2>&1); rc=$?
  echo "$out" | grep "^$id:" | tail -1
  if [ $rc -ne 0 ] || echo "$out" | grep -q "^VIOLATION\|ANALYSIS-ERROR"; then
    bad=1; echo "!!! ALARM on the unchanged tree: $id (exit $rc)"; echo "$out" | grep -v "^KNOWN-FINDING" | tail -4 | cut -c1-300
  fi
done
[ $bad -eq 0 ] && echo "run_all: no alarm on the unchanged tree"
exit $bad
