#!/bin/sh
# Run every claimed quick check on /repo's current tree; non-zero exit if any check does not exit 0.
cd /verif || exit 2
rc=0
for id in C01 C02 C03 C04 C05 C06 C07 C08 C09 C10 C11 C12 C13 C14 C15 C16 C17 C18 C19; do
  out=$(/venv/bin/python bin/check.py $id ${1:+--tier $1} 2>&1); e=$?
  echo "$out" | grep -E "^(C[0-9]+:|VIOLATION|ANALYSIS-ERROR)" | cut -c1-220
  [ $e -ne 0 ] && rc=1
done
exit $rc
