#!/usr/bin/env python3
"""Write the prompt files for a new seeding round from the previous round's
prompt files: same text, new worktree path, and the list of ideas already used
extended by the first line of each kept change's note (the notes were written
by the seeding agents themselves; nothing about the checkers is passed on).

usage: make_seed_prompts.py <previous round letter> <new round letter> [ids...]
"""
import glob, json, os, re, sys

V = os.path.dirname(os.path.dirname(os.path.abspath(__file__)))
prev, new = sys.argv[1], sys.argv[2]
ids = sys.argv[3:] or sorted({os.path.basename(d).split("-")[0] for d in glob.glob(os.path.join(V, "seeded", "*"))})
EXTRA = {
    "C16": "Additional note: the `jsonschema` package is NOT available",
    "C17": "Additional note: on the unmodified tree",
    "C18": "Additional note: on the unmodified tree",
}
for pid in ids:
    src = "/tmp/prompt_%s_%s.txt" % (pid, prev.split(",")[0])
    text = open(src).read().replace("/tmp/wt_%s_%s" % (pid, prev.split(",")[0]), "/tmp/wt_%s_%s" % (pid, new))
    used = []
    for d in sorted(x for pv in prev.split(",") for x in glob.glob(os.path.join(V, "seeded", "%s-%s*" % (pid, pv)))):
        m = json.load(open(os.path.join(d, "meta.json")))
        note = (m.get("needs_to_manifest") or "").strip().splitlines()
        if note:
            used.append("  - " + note[0].strip(" #*-")[:220])
    marker = "\nAlso avoid the two most obvious kinds of edit"
    assert marker in text, pid
    text = text.replace(marker, "\n" + "\n".join(used) + "\n" + marker, 1) if used else text
    open("/tmp/prompt_%s_%s.txt" % (pid, new), "w").write(text)
    print(pid, len(text), "chars,", len(used), "ideas added")
