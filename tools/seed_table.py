#!/usr/bin/env python3
"""Print the markdown table of the kept seeded changes (for DESIGN.md §11.2)."""
import glob, json, os
V = os.path.dirname(os.path.dirname(os.path.abspath(__file__)))
print("| change | what it does (first line of the author's note) | first verdict | now |")
print("|---|---|---|---|")
for d in sorted(glob.glob(os.path.join(V, "seeded", "*"))):
    m = json.load(open(os.path.join(d, "meta.json")))
    note = (m.get("needs_to_manifest") or "").strip().splitlines()
    note = note[0] if note else ""
    for pre in ("Variant A", "Variant B", "#", "**"):
        note = note.replace(pre, "")
    note = note.strip(" -—:*.").replace("|", "/")[:150]
    now = m.get("current") or ("VIOLATION " + "/".join(m["checks"].get(m["property"], {}).get("rules", [])) if m.get("detected_by_target_check") else "see meta")
    print("| %s | %s | %s | %s |" % (os.path.basename(d), note, m.get("first_try", "?"), now))
