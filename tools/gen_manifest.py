#!/usr/bin/env python3
"""Regenerate /verif/MANIFEST.json from the claim table below."""
import json
import os

VERIF = os.path.dirname(os.path.dirname(os.path.abspath(__file__)))

NA = {
}

# property -> (claim text, level note, technique)
CLAIMS = {}


def claim(pid, text, note, technique):
    CLAIMS[pid] = (text, note, technique)


claim("C06",
      "Bounded decision of C06's registration structure: the metaclass code that builds the class-level table of watched methods is interpreted abstractly on 16 class shapes (B below A, optionally below A0; the method not defined / overridden with watch=True / with watch=False / undecorated; a new watched method): exactly one entry per watched method name, the subclass's own entry replacing the inherited one, none for an override that does not watch; Parameters._update_deps is interpreted at construction: one watcher per (object, class, what) group covering all of the group's dependencies, on_init methods called exactly once; Parameterized.__init__ reaches that installation and the decorator records what the metaclass reads.",
      "Partial: 'exactly once per change' additionally rests on C05 (one call per watcher per batch) and C03 (changes-only filter), which are decided by their own checks for every watcher. Not decided: the resolution of dependency specs to parameters (_spec_to_obj, method-name recursion), the function form in param/depends.py beyond the _dinfo record, class shapes beyond the bounded ones (multiple-inheritance merges run the same loop). Assumes ancestors' tables were built by the same code.",
      "static analysis: finite-domain abstract interpretation of the metaclass table code and of Parameters._update_deps against a specification written from the property; syntactic reachability of the installation from Parameterized.__init__")
claim("C07",
      "Bounded decision of C07's rebinding step and change filter: Parameters._watch_group, _resolve_dynamic_deps, _m_caller, _sync_caller and _skip_event are interpreted together for every ordered list of 1..3 dependencies out of sub.x / sub.y / sub.x:bounds / sub.subsub.z / sub.param, every watcher installed for them and every event it can receive (the sub-object replaced by one equal in all values, or differing in exactly one value, bounds or the attached grandchild; the grandchild replaced; a leaf assigned): the method runs iff a value reached through one of the dependencies sharing that watcher changed, and an intermediate replacement tells the parent to re-resolve; Parameters._update_deps(attribute) removes every recorded dynamic watcher from the object it was installed on exactly once and installs and records new ones on the attached object; Parameter.__set__ re-resolves after the store and before dispatch.",
      "Bounded: paths of depth <= 2 below the root, lists of <= 3 dependencies, one replacement per level (longer histories follow by induction because each rebinding starts from the recorded watchers, which are shown to be exactly the installed ones). Not decided: the resolution of a path to objects (_spec_to_obj, taken as every intermediate parameter followed by the leaves), paths that stop resolving, async dependent methods, that a watcher fires once per batch (C05).",
      "static analysis: finite-domain abstract interpretation of the watcher-construction and event-filter functions against a specification written from the property; syntactic ordering facts in Parameter.__set__")
claim("C20",
      "Partial decision of C20, limited to what lives in the shape of the value printers: container_script_repr is interpreted for lists and tuples of 0..3 elements and the emitted text is parsed with Python's own grammar (ast.parse: the printed program is analysed, not run) -- it must be a display of the same kind with the same elements in order (a one-element tuple needs its trailing comma), each element printed through pprint with the caller's imports list; a printer is registered for float and, interpreted on a finite float, inf, -inf and nan, emits a constant expression denoting the same float; Parameters._pprint is interpreted for an object of a class with constructor (self, a, b=<default>, **params): the text parses to one call of the class with the positional parameters first and in order, every changed parameter exactly once with its own printed value, generated names and unchanged parameters left out.",
      "Partial. Not decided: that repr() of strings and other leaf values evaluates back to an equal value (Python's repr); constructor signatures other than (self, positional, keyword=default, **params), i.e. *args, keyword-only and non-parameter arguments; values(onlychanged=True); containers without a registered printer (dict, set), which are printed with repr. The first design declared C20 not applicable; the two rules exist because reading found the 1-tuple defect, and a printer's output can be checked against the grammar without running anything.",
      "static analysis: finite-domain abstract interpretation of the value printers; the emitted text is checked by parsing it (ast.parse) and evaluating constant expressions symbolically")
claim("C11",
      "Bounded decision of C11: ParameterizedMetaclass.__param_inheritance is interpreted abstractly on a new class below a parent (that re-declares the Parameter or skips it) and a grandparent, for every subset of default / bounds / doc / label declared anew x Parameter type changed or not x an ancestor with instantiate=True x the validator's verdict x a default that is a value / None / falsy: per slot the nearest declaring ancestor wins (else the type's default, callable defaults called with the Parameter), inherited containers are copied, instantiate is inherited, the merged default is validated whenever the type changed or a validated slot was declared anew with a non-None merged default, and creation fails iff it is rejected; both routes the property names (class creation, add_parameter, and a Parameter assigned at class level) reach that function.",
      "Bounded: hierarchies of depth three with a skipped level; deeper chains and multiple-inheritance merges run the same loop but are not enumerated. That allow_None is recomputed from the class's own declaration (Parameter.__init__ of each type) and the correctness of the validators themselves (C01) are not decided here. Assumes ancestors were created earlier, so their Parameter objects have every slot filled.",
      "static analysis: finite-domain abstract interpretation of __param_inheritance against a specification written from the property; call-graph reachability of the merge from the three installation routes")
claim("C05",
      "Structural decision of C05 on the current source: every temporary write of the dispatcher state (batching flag, trigger flag, event/watcher queues, syncing set, constant flags in edit_constant, Event mode in update) is restored -- to the saved value where one was saved -- on every exit including every exceptional one, and the outermost flush is passed on every exit of a flushing scope (R05.a-d); restore loops restore in every iteration (R05.e); context managers write saved state back on every exit after the yield (R05.f); an Event is reset even when its watcher raises (R05.g); a failing flush must leave no events behind (R05.h -- violated on the pinned tree, recorded as a known finding).",
      "Decides the restore/flush structure for every fault position at once (exceptional edges from every may-raise node); does not decide behavioural equivalence with a fresh object. Trusted: CPython ast, the may-raise model and alias table of DESIGN.md §2.3/2.4; finally blocks are summarised as atomic (loop-carried partial restores inside a finally are not decided).",
      "static analysis: CFG with exceptional edges, write-role (save/ORIG/TEMP) classification, reachability and dominance over the CFG")
claim("C01",
      "Structural decision of seven necessary conditions of C01: validate dominates every value store on the same binding (R01.a); the value store has exactly three writers (R01.b); every validating type's constructor chain validates the default after the slots its validators read are set (R01.c); no constructor drops a constraint argument (R01.d); every constraint slot is read by a validator reachable from _validate (R01.e); the bounds validators of Number/Integer/Magnitude/Date/CalendarDate/Range/DateRange/CalendarDateRange/List/HookList equal an oracle written from the property on the complete ordering domain incl. NaN, exhaustively (R01.f, ~4800 abstract cases); tuple-family type-check agreement (R01.g); None accepted iff allow_None, other values iff well typed, callables only where the type is dynamic/callable, for 15 types with type predicates as abstract inputs (R01.h, 120 cases).",
      "Does not decide the accept-iff-spec equivalence for value *types*, regexes or membership (re.match/isinstance/in are trusted and only checked to be consulted). R01.f assumes well-typed bounds with LO<HI, order-preserving _to_datetime, and treats non-bounds validators as passing.",
      "static analysis: dominance/def-use on the setter CFG, who-may-write table, linearised constructor event sequences over the static MRO, self-call closure reads, finite-domain abstract interpretation vs. an independent oracle")
claim("C02",
      "Structural decision of C02's ordering clause: in Parameter.__set__ no observable effect (value store, link install/drop, async-task cancel, dependency rebinding, watcher dispatch; directly or through a callee summary) can precede a point where the setter may still reject (explicit raise, _validate, set_hook); __set__ overrides act only after super().__set__; update checks the key before its setattr; no validator reachable from any type's _validate notifies watchers (R02.c).",
      "Does not decide that callees are effect-free before their own raises, nor equality of the complete observable state (needs execution). Effects are recognised by the access-path/callee tables of engine/effects.py.",
      "static analysis: effect recognisers + transitive callee effect summaries, CFG reachability from effect nodes to rejection points")
claim("C08",
      "Structural decision of two clauses of C08: refs and ref_watchers are co-updated by every writer (every removal/replacement of a refs entry is paired with a rebuild of the source watchers; a rebuild first unwatches and resets) and every link-dependency/value computation in class Parameters honours <parameter>.nested_refs; the sync's own writes run inside the syncing scope, and that scope removes its marker on every exit; every assigned reference is (re)installed and every constructor reference recorded (R08.d); _sync_refs, interpreted abstractly, re-resolves exactly the links with a dependency matching a delivered event (R08.e).",
      "Does not decide that the parameter mirrors the reference after arbitrary source histories (needs execution).",
      "static analysis: parallel-store pairing via dominance/post-dominance on the CFG, callee summaries, def-use of the `recursive` argument, lexical scope check")
claim("C09",
      "Decides the clause 'every operator form Python can dispatch to the expression, including all reflected operators, is supported' (the operator table of class rx is complete for the data model's binary operators, every referenced operator/math function exists, reflected forms apply the forward function with reverse=True, each special method maps to the stdlib function the data model assigns to it, _eval_operation swaps operands iff reverse) and two necessary conditions of cache coherence: every internal parameter of an expression gets the invalidation watcher, unfiltered (R09.e), every invalidation marks the node dirty and clears the stored error on every path, and the raw cache slot is read only by the resolver (R09.f); _apply_operator records the caller's reverse flag unchanged (R09.d).",
      "Cache coherence of .rx.value under read/update histories as a whole, the .rx helper namespace (where, pipe, ...) and the values delivered by rx.watch are NOT decided (R09.h decides only that the watch callback hands every value on and keeps no state shared between registrations; R09.g that container change detection is exact); R09.e/f are necessary, not sufficient. The stdlib attribute sets of `operator`/`math` are read from the interpreter running the check.",
      "static analysis: table-agreement check of sibling special methods against the language-reference operator table")
claim("C10",
      "Structural decision of four obligations from which latest-wins follows for every completion order: no suspension point inside a `with _syncing(...)` body (R10.a); every cancel of an async_refs entry deregisters or re-registers before the next suspension (R10.b); in _async_ref every path to a suspension point owns async_refs[pname] (R10.d); in reactive.py writes of the cached value and of the ownership token after a suspension are guarded by `self._current_task is task` with the task registered before the first suspension (R10.c); taking over an entry cancels the previous owner unconditionally (R10.e); a synchronous rx result resets the token (R10.g); scheduling implies ownership (R10.f -- violated on the pinned tree, recorded as a known finding: a task is only registered when it starts running); an asynchronous reference is scheduled unconditionally (R10.h) and every constructor reference is recorded (R10.i).",
      "Trusted: asyncio's cancellation semantics (Task.cancel() raises at the await). The final value under each schedule is not executed; each violated obligation yields a concrete bad schedule.",
      "static analysis: suspension-point tagging on the CFG, reachability between cancel/registration/suspension nodes, must-conditions from dominating branches")
claim("C13",
      "Structural decision of C13: every installation of a Parameter into a class namespace (3 type.__setattr__ sites) is followed on every path, incl. exceptional ones and before anything that may raise, by an invalidation of the `.param` cache of the class and all its subclasses; the cache has a single reader; every namespace consumer goes through it; the memo is computed by walking the class's own MRO over __dict__s, never from other classes' memos (R13.d); on the copy-on-write branch the copy is installed before its __set__ dispatches (R13.e); the memo is never mutated in place (R13.f).",
      "Identity/equality of .param[name] with the governing descriptor after arbitrary histories follows from these obligations but is not executed.",
      "static analysis: must-pass-through (post-dominance incl. exceptional edges) from each write to an invalidation with an all-subclasses summary; who-may-read table")
claim("C18",
      "Structural decision of C18 per mutator: write-through pairing of the proxy list and _objects with identical arguments in every listed mutator; pop returns the removed object on every path; prune-polarity agreement between pop and remove; every store mutation inside exactly one notification scope with trigger=False on delegated calls; readers (get_range, membership, objects getter/setter) use the current stores; _objects grows outside the proxy only in _ensure_value_is_in_objects (R18.f; its missing names pairing on dict-declared Selectors is a recorded known finding); iterable arguments that feed both stores are materialised first (R18.g); names are pruned by identity with the stored element (R18.c); non-removing mutators never remove from names, so keys keep their position (R18.h).",
      "Consistency after arbitrary mutation sequences follows from the per-mutator obligations but is not executed; list mutators that ListProxy does not override are reported as informational.",
      "static analysis: sibling/parallel-store cross-check per basic block, return discipline on the CFG, lexical scope rules")
claim("C03",
      "Structural decision of necessary conditions of C03: the value store precedes every dispatch on every path and the event's old/new are the overwritten/installed bindings (R03.a); both value-dispatch loops iterate sorted(..., key=precedence) (R03.b); the Comparator tables map numbers/str/None/dates to operator.eq, recurse into containers and return literal False on every fall-through (R03.c); the event-type table (R03.d, 4 cases) and the dispatch decision of _call_watcher (R03.f, 32 cases) equal the specification exhaustively; register/lookup/unwatch use the same table paths (R03.e); the flush drains until empty (R03.g) and, interpreted abstractly on 218 small queue configurations, runs every queued watcher once in (precedence, queue position) order with the last event per watched parameter (R03.h).",
      "Exactly-once delivery counts, depth-first cascades and queued semantics over all programs are NOT decided (they need an executable reference semantics).",
      "static analysis: dominance/def-use on the setter CFG, table checks on class literals, finite-domain abstract interpretation of _update_event_type and _call_watcher vs. an independent specification")
claim("C04",
      "Structural decision of necessary conditions of C04: nothing executes on the batching arm of _call_watcher (16 abstract cases incl. queued watchers); every flush call outside the flush is controlled by `not <saved/live batching flag>` (5 sites); queued watchers are de-duplicated by an identity test (an equality/membership test on the queue is reported), the flush maps (name, what) to the last event, empties both queues before running and loops until empty; discard_events restores copies taken before the body; update() captures the values of every given key and the links before applying and the restorer re-applies them; trigger re-submits current values; the flush is sorted on every path (R04.g), satisfies the abstract flush model (R04.h), and every writer that extends the watcher queue keeps it duplicate-free by identity (R04.i).",
      "Delivery counts and event contents under arbitrary nestings of batch/update/discard/trigger are not decided (need execution).",
      "static analysis: abstract interpretation of the dispatcher, control-dependence (dominating branch conditions), reaching definitions, dominance on CFGs")
claim("C12",
      "Structural decision of the ownership rules behind C12: the instance route never writes class storage (every self.default / _set_instantiate / setattr(self.owner, ...) write is under `obj is None`); per-instance Parameter objects have one producer which stores a fresh copy (copy.copy, new watchers, re-copied mutable slots); the re-copy of mutable slots is not narrowed by any extra condition; every __set__ override is an @instance_descriptor and the wrapper delegates and returns; instantiate=True => per-instance deepcopy, every constant => reference (selection not narrowed); class-level assignment on a subclass copies the inherited Parameter first.",
      "Order-dependent histories are not executed; the rules are the conditions that make the history irrelevant.",
      "static analysis: must-conditions from dominating branches, who-may-write tables, shape checks of the copy routine, decorator agreement across sibling overrides")
claim("C14",
      "Structural decision of C14: in Parameter.__set__ every value store is control-dependent on the constant/readonly test, none lies on a readonly path or on the constant arm for an initialized instance, the readonly raise is unconditional and the constant raise is skipped only for identity with the current value; edit_constant restores every cleared flag in a finally at class and instance level; `name` is declared constant; readonly forces constant; every constant parameter is referenced on the instance at construction (R14.d); who-may-unlock table for edit_constant (R14.e); every normal return of the setter has passed the constant/readonly test (R14.f); the memo edit_constant holds is never mutated in place (R14.g); only edit_constant clears a constant flag (R14.h) and it restores the unlocked objects by identity (R14.i).",
      "Histories involving per-instance Parameter copies created earlier are not executed; as_uninitialized is deliberately not armed (DESIGN.md C05 exclusions).",
      "static analysis: control dependence on the setter CFG, exceptional-edge coverage of edit_constant (shared with C05), declaration checks")
claim("C15",
      "Decides writer/reader agreement of every codec pair: presence of both directions in the same class, equal strftime/strptime format multisets, list-out/tuple-back, None both ways, the DateRange width discriminator equals the width of the format it selects and the serialize side selects date-only exactly for plain dates, the object-level loops (same subset filter, every entry produced by p.serialize / param[name].deserialize with no bypass, plain json.dumps/json.loads), that no reader of the value store conflates an explicit None with 'not set' (R15.g), and that the base Parameter codec is the identity (R15.h).",
      "Value-level equality of the round trip (years < 1000, non-finite floats, int vs float) is not decided. Decorator agreement is deliberately not armed (DateRange.deserialize lacks @classmethod yet round-trips).",
      "static analysis: sibling cross-check of serialize/deserialize ASTs (format literals, container constructors, guards), width computation from format directives")
claim("C16",
      "Decides: schema dispatch is exhaustive for the 15 listed types and class-name-derived types are primitives; every emitted key is JSON-Schema vocabulary and every literal type a primitive; declare_numeric_bounds emits exactly the specified keywords on all 20 bound x inclusivity configurations and those keywords accept a value class iff the Number validator's specification does (100 cases, exhaustive); nullable wrapper iff allow_None; tuple length pins minItems = maxItems; schema and serialized state are computed from the same Parameter objects (R16.e); selector enums are the live objects (R16.f); whatever the Number validator accepts the emitted keywords accept, also for non-bool inclusivity flags (R16.g, 320 cases).",
      "That arbitrary serialized values validate against the schema needs a validator run and is not decided; Selector enum contents are run-time objects.",
      "static analysis: dispatch-table exhaustiveness, vocabulary check over dict literals and resolved subscript keys, finite-domain abstract interpretation of the schema builders vs. the C01 bounds oracle")
claim("C17",
      "Decides: the watcher-owner assumption of Parameterized.__setstate__ against every installer of method callers (R17.a), that no closure reaches an internally installed watcher (R17.b), slots/init/getstate/setstate agreement of the private namespaces and of Parameter (R17.c), the restore ordering of __setstate__ (R17.d), rebinding of bound-method callbacks only by identity of the owner and unregistering by value (R17.e), that a copy does not inherit the original's open batch/trigger state (R17.f), that Parameter.__getstate__ returns the slot state unmodified (R17.c) and that get_all_slots covers the class and every base (R17.g, abstract interpretation). Two genuine defects of the pinned tree are recorded as known findings (KNOWN_FINDINGS.txt): _watch_group registers a parent's method caller on a sub-object; the `callback` closure of _resolve_dynamic_deps is stored in watchers.",
      "Value equality and independence of the copy (heap shape at run time) are not decided. User callables registered through the public watch API are out of scope.",
      "static analysis: reader/writer assumption cross-check via def-use, escape analysis of nested functions into the watcher set-up, all-paths assignment of slots on the CFG")
claim("C19",
      "Decides: every random generator reseeds (super().__call__()) before drawing, the reseed runs under time_dependent, the reseed happens on every path of _hash_and_seed (no memo), the seed's inputs are (name hash, time, global seed) only and the hash works on a copy of the digest (R19.a); inspection reaches no producer (R19.b); Dynamic._produce_value produces iff untimed or forced or the time changed and then writes value and time together, else returns the cache and writes nothing (72 abstract cases incl. backward time jumps and a raising generator, exhaustive; R19.c); Time enter/exit and _state_push/_state_pop move the same fields in the same order and visit every parameter's generator, class-held ones included (R19.d).",
      "Numeric equality of generated values (stdlib PRNG) is not decided.",
      "static analysis: dominance (reseed-before-draw), call-graph reachability, finite-domain abstract interpretation of the cache function, push/pop table agreement")


def main():
    checks = []
    for pid in sorted(CLAIMS):
        text, note, tech = CLAIMS[pid]
        # the authoritative list of what the check decides: the rule table of the checker itself
        # (taken from the evidence file the check wrote on its last run against /repo)
        try:
            ev = json.load(open(os.path.join(VERIF, "evidence", "%s.json" % pid)))
            rules = ev["coverage"]["rules"]
            text += " -- Rule table of the current checker (%d rules): " % len(rules) + " | ".join(
                "%s: %s" % (r, d["text"]) for r, d in sorted(rules.items()))
            if any(r.endswith((".m", ".u")) or "abstract" in d["text"] or "interpreted" in d["text"] for r, d in rules.items()) and "abstract interpretation" not in tech:
                tech += "; finite-domain abstract interpretation of the functions named in the model-level rules against a specification written from the property"
        except (OSError, KeyError, ValueError):
            pass
        checks.append({
            "property_id": pid,
            "quick_cmd": "/venv/bin/python /verif/bin/check.py %s --tier quick" % pid,
            "thorough_cmd": "/venv/bin/python /verif/bin/check.py %s --tier thorough" % pid,
            "evidence_file": "/verif/evidence/%s.json" % pid,
            "replay_cmd_template": "/venv/bin/python /verif/bin/check.py %s --replay {path}" % pid,
            "engine": "param-static",
            "level_claimed": {"category": "other", "text": text, "design_ref": "DESIGN.md §3/%s" % pid},
            "level_note": note,
            "technique": tech,
        })
    na = [{"property_id": k, "reason": v} for k, v in sorted(NA.items())]
    for i in range(1, 21):
        pid = "C%02d" % i
        if pid not in CLAIMS and pid not in NA:
            na.append({"property_id": pid, "reason": "check under construction in this commit; will be claimed once its static checker is built (DESIGN.md §3/%s)" % pid})
    m = {
        "version": 1,
        "setup_cmd": "true",
        "hooks": {
            "guard": "HOLOVIZ_PARAM_VERIF",
            "enable": "none needed: the checks are static analyses that read /repo's source; no hook is compiled into holoviz/param",
            "baseline_off_cmd": "cd /repo && /venv/bin/python -m pytest -q -p no:cacheprovider --timeout=900 tests",
            "source_commits": [],
            "add_only": True,
        },
        "engines": [{
            "name": "param-static",
            "path": "/verif/engine",
            "serves_properties": sorted(CLAIMS),
            "kind_free_text": "repo-specific static analyser on stdlib ast: static class hierarchy/MRO, statement CFG with exceptional edges, dominators/post-dominators, call resolution with the repo's alias table, may-raise summaries, finite-domain abstract interpreter",
        }],
        "checks": checks,
        "not_applicable": sorted(na, key=lambda d: d["property_id"]),
        "notes": "Technique family: static analysis only (DESIGN.md). exit 0 = all obligations discharged; exit 1 + VIOLATION line = unlisted violation; exit 2 + ANALYSIS-ERROR = the checker cannot decide (fail closed). Known findings: /verif/KNOWN_FINDINGS.txt.",
    }
    with open(os.path.join(VERIF, "MANIFEST.json"), "w") as fh:
        json.dump(m, fh, indent=1)
    print("claimed:", sorted(CLAIMS), "n/a:", [d["property_id"] for d in m["not_applicable"]])


if __name__ == "__main__":
    main()
