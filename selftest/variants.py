"""Variants for the self-validation of the checkers (see runner.py).

Each entry: prop, name, kind ('fire' | 'benign'), rule (for 'fire'), edits =
[(relative file, exact old text, new text)].  The old text must occur exactly
once in the current tree, otherwise the variant is reported as stale.
"""
Z = "param/parameterized.py"
P = "param/parameters.py"
R = "param/reactive.py"
S = "param/serializer.py"
N = "numbergen/__init__.py"

VARIANTS = []


def V(prop, name, kind, rule, *edits):
    VARIANTS.append(dict(prop=prop, name=name, kind=kind, rule=rule, edits=[tuple(e) for e in edits]))


# ======================================================================= C05
V("C05", "batch_cm_no_finally", "fire", "R05.a", (Z, """    BATCH_WATCH = parameterized.param._BATCH_WATCH
    parameterized.param._BATCH_WATCH = True
    try:
        yield
    finally:
        parameterized.param._BATCH_WATCH = BATCH_WATCH
        if not BATCH_WATCH:
            parameterized.param._batch_call_watchers()
""", """    BATCH_WATCH = parameterized.param._BATCH_WATCH
    parameterized.param._BATCH_WATCH = True
    yield
    parameterized.param._BATCH_WATCH = BATCH_WATCH
    if not BATCH_WATCH:
        parameterized.param._batch_call_watchers()
"""))
V("C05", "batch_cm_restore_constant", "fire", "R05.b", (Z, """        parameterized.param._BATCH_WATCH = BATCH_WATCH
        if not BATCH_WATCH:
            parameterized.param._batch_call_watchers()
""", """        parameterized.param._BATCH_WATCH = False
        if not BATCH_WATCH:
            parameterized.param._batch_call_watchers()
"""))
V("C05", "batch_cm_flush_before_restore", "fire", "R05.d", (Z, """        parameterized.param._BATCH_WATCH = BATCH_WATCH
        if not BATCH_WATCH:
            parameterized.param._batch_call_watchers()
""", """        if not BATCH_WATCH:
            parameterized.param._batch_call_watchers()
        parameterized.param._BATCH_WATCH = BATCH_WATCH
"""))
V("C05", "syncing_no_finally", "fire", "R05.a", (Z, """    parameterized._param__private.syncing = set(old) | set(parameters)
    try:
        yield
    finally:
        parameterized._param__private.syncing = old
""", """    parameterized._param__private.syncing = set(old) | set(parameters)
    yield
    parameterized._param__private.syncing = old
"""))
V("C05", "update_flag_raised_before_dict", "fire", "R05.a", (Z, """        BATCH_WATCH = self_._BATCH_WATCH
        self_or_cls = self_.self_or_cls
        if arg is not Undefined:
            kwargs = dict(arg, **kwargs)
""", """        BATCH_WATCH = self_._BATCH_WATCH
        self_._BATCH_WATCH = True
        self_or_cls = self_.self_or_cls
        if arg is not Undefined:
            kwargs = dict(arg, **kwargs)
"""))
V("C05", "update_flush_only_on_success", "fire", "R05.c", (Z, """            self_._BATCH_WATCH = BATCH_WATCH
            try:
                if not BATCH_WATCH:
                    self_._batch_call_watchers()
            finally:
                for tp in trigger_params:
                    p = self_[tp]
                    p._mode = 'reset'
                    try:
                        setattr(self_or_cls, tp, p._autotrigger_reset_value)
                    finally:
                        p._mode = 'set-reset'
                for p in switched:
                    p._mode = 'set-reset'
        return restore
""", """            self_._BATCH_WATCH = BATCH_WATCH
            for tp in trigger_params:
                p = self_[tp]
                p._mode = 'reset'
                try:
                    setattr(self_or_cls, tp, p._autotrigger_reset_value)
                finally:
                    p._mode = 'set-reset'
            for p in switched:
                p._mode = 'set-reset'
        if not BATCH_WATCH:
            self_._batch_call_watchers()
        return restore
"""))
V("C05", "update_never_flushes", "fire", "R05.c", (Z, """            self_._BATCH_WATCH = BATCH_WATCH
            try:
                if not BATCH_WATCH:
                    self_._batch_call_watchers()
            finally:
""", """            self_._BATCH_WATCH = BATCH_WATCH
            try:
                pass
            finally:
"""))
V("C05", "benign_update_handler_then_finally_restores", "benign", None, (Z, """                if k not in self_:
                    raise ValueError(f"{k!r} is not a parameter of {self_.cls.__name__}")
                setattr(self_or_cls, k, v)
        finally:
""", """                if k not in self_:
                    raise ValueError(f"{k!r} is not a parameter of {self_.cls.__name__}")
                setattr(self_or_cls, k, v)
        except Exception:
            self_._BATCH_WATCH = False
            raise
        finally:
"""))
V("C05", "update_mode_not_reset_on_error", "fire", "R05.a", (Z, """                    p._mode = 'reset'
                    try:
                        setattr(self_or_cls, tp, p._autotrigger_reset_value)
                    finally:
                        p._mode = 'set-reset'
""", """                    p._mode = 'reset'
                    setattr(self_or_cls, tp, p._autotrigger_reset_value)
                    p._mode = 'set-reset'
"""))
V("C05", "trigger_no_finally", "fire", "R05.a", (Z, """                with _syncing(self_.self, param_names):
                    self_.update(dict(params, **triggers))
        finally:
            self_._TRIGGER = False
            self_._events += events
""", """                with _syncing(self_.self, param_names):
                    self_.update(dict(params, **triggers))
        except ZeroDivisionError:
            pass
        if True:
            self_._TRIGGER = False
            self_._events += events
"""))
V("C05", "trigger_parks_queues_too_early", "fire", "R05.a", (Z, """        param_values = self_.values()
        params = {name: param_values[name] for name in param_names}
        events = self_._events
        watchers = self_._state_watchers
        self_._events  = []
        self_._state_watchers = []
""", """        events = self_._events
        watchers = self_._state_watchers
        self_._events  = []
        self_._state_watchers = []
        param_values = self_.values()
        params = {name: param_values[name] for name in param_names}
"""))
V("C05", "discard_no_finally", "fire", "R05.a", (Z, """    try:
        yield
    finally:
        parameterized.param._BATCH_WATCH = batch_watch
        parameterized.param._state_watchers = watchers
        parameterized.param._events = events
""", """    yield
    parameterized.param._BATCH_WATCH = batch_watch
    parameterized.param._state_watchers = watchers
    parameterized.param._events = events
"""))
V("C05", "edit_constant_no_finally", "fire", "R05.a", (Z, """    try:
        yield
    finally:
        for pname, pobj in updated:
            # The Parameter object that was unlocked (it may no longer be
            # the one a lookup by name finds, e.g. after a class-level set
            # on a subclass copied an inherited Parameter).
            pobj.constant = True
            # Some operations trigger a parameter instantiation (copy),
            # we ensure both the class and instance parameters are reset.
            if pname in kls_params:
                type(parameterized).param[pname].constant=True
            if pname in inst_params:
                parameterized.param[pname].constant = True
""", """    yield
    for pname, pobj in updated:
        pobj.constant = True
        if pname in kls_params:
            type(parameterized).param[pname].constant=True
        if pname in inst_params:
            parameterized.param[pname].constant = True
"""))
V("C05", "benign_rename_saved_flag", "benign", None, (Z, """    BATCH_WATCH = parameterized.param._BATCH_WATCH
    parameterized.param._BATCH_WATCH = True
    try:
        yield
    finally:
        parameterized.param._BATCH_WATCH = BATCH_WATCH
        if not BATCH_WATCH:
            parameterized.param._batch_call_watchers()
""", """    outer = parameterized.param._BATCH_WATCH
    parameterized.param._BATCH_WATCH = True
    try:
        yield
    finally:
        parameterized.param._BATCH_WATCH = outer
        if not outer:
            parameterized.param._batch_call_watchers()
"""))
V("C05", "benign_logging_after_temp_write", "benign", None, (Z, """    batch_watch = parameterized.param._BATCH_WATCH
    parameterized.param._BATCH_WATCH = True
    watchers, events = (list(parameterized.param._state_watchers),
""", """    batch_watch = parameterized.param._BATCH_WATCH
    parameterized.param._BATCH_WATCH = True
    get_logger().debug('discarding events')
    watchers, events = (list(parameterized.param._state_watchers),
"""))
V("C05", "benign_reorder_discard_restores", "benign", None, (Z, """        parameterized.param._BATCH_WATCH = batch_watch
        parameterized.param._state_watchers = watchers
        parameterized.param._events = events
""", """        parameterized.param._events = events
        parameterized.param._state_watchers = watchers
        parameterized.param._BATCH_WATCH = batch_watch
"""))
V("C05", "benign_trigger_restore_order", "benign", None, (Z, """            self_._TRIGGER = False
            self_._events += events
            # A watcher queued both before""", """            self_._events += events
            self_._TRIGGER = False
            # A watcher queued both before"""))

# ======================================================================= C02
V("C02", "relink_before_validate", "fire", "R02.a", (Z, """        self._validate(val)

        _old = NotImplemented
""", """        if relink:
            self._relink(obj, name, ref)
        self._validate(val)

        _old = NotImplemented
"""))
V("C02", "post_setter_before_validate", "fire", "R02.a", (Z, """        self._validate(val)

        _old = NotImplemented
""", """        self._post_setter(obj, val)
        self._validate(val)

        _old = NotImplemented
"""))
V("C02", "update_ref_inline_before_validate", "fire", "R02.a", (Z, """            relink = ref is not None or (name in obj._param__private.refs and not syncing)
            if is_async or val is Undefined:
                # There is no value""", """            relink = ref is not None or (name in obj._param__private.refs and not syncing)
            if ref is not None:
                obj.param._update_ref(name, ref)
            if is_async or val is Undefined:
                # There is no value"""))
V("C02", "dynamic_init_generator_before_super", "fire", "R02.a'", (P, """        super().__set__(obj,val)

        dynamic = callable(val)
        if dynamic and obj is not None and self.name in obj._param__private.refs:
            # val was taken as a reference: the value in force is what
            # it resolves to (nothing new while it is still pending)
            val = obj._param__private.values.get(self.name)
            dynamic = callable(val) and not hasattr(val, '_Dynamic_last')
        if dynamic: self._initialize_generator(val,obj)
""", """        dynamic = callable(val)
        if dynamic: self._initialize_generator(val,obj)
        super().__set__(obj,val)
"""))
V("C02", "update_setattr_before_key_check", "fire", "R02.b", (Z, """                if k not in self_:
                    raise ValueError(f"{k!r} is not a parameter of {self_.cls.__name__}")
                setattr(self_or_cls, k, v)
""", """                setattr(self_or_cls, k, v)
                if k not in self_:
                    raise ValueError(f"{k!r} is not a parameter of {self_.cls.__name__}")
"""))
V("C02", "benign_rename_relink_flag", "benign", None, (Z, """            relink = ref is not None or (name in obj._param__private.refs and not syncing)
            if is_async or val is Undefined:
                # There is no value""", """            relink = ref is not None or (not syncing and name in obj._param__private.refs)
            if is_async or val is Undefined:
                # There is no value"""))
V("C02", "benign_relink_after_post_setter", "benign", None, (Z, """        if relink:
            self._relink(obj, name, ref)
        self._post_setter(obj, val)
""", """        self._post_setter(obj, val)
        if relink:
            self._relink(obj, name, ref)
"""))

# ======================================================================= C01
V("C01", "store_before_validate", "fire", "R01.a", (Z, """        self._validate(val)

        _old = NotImplemented
""", """        _old = NotImplemented
"""), (Z, """        if relink:
            self._relink(obj, name, ref)
        self._post_setter(obj, val)
""", """        self._validate(val)
        if relink:
            self._relink(obj, name, ref)
        self._post_setter(obj, val)
"""))
V("C01", "value_rewritten_after_validate", "fire", "R01.a", (Z, """        self._validate(val)

        _old = NotImplemented
""", """        self._validate(val)
        val = getattr(val, 'value', val)

        _old = NotImplemented
"""))
V("C01", "extra_value_store_writer", "fire", "R01.b", (Z, """            if not is_async and not (resolved is Undefined or resolved is Skip):
                setattr(self, name, resolved)
""", """            if not is_async and not (resolved is Undefined or resolved is Skip):
                self._param__private.values[name] = resolved
"""))
V("C01", "string_validate_before_regex_set", "fire", "R01.c", (Z, """        super().__init__(default=default, **kwargs)
        self.regex = regex
        self._validate(self.default)

    def _validate_regex(self, val, regex):
        if (val is None and self.allow_None):
            return
        if regex is not None and re.match(regex, val) is None:
            raise ValueError(
                f'{_validate_error_prefix(self)} value {val!r} does not '
""", """        super().__init__(default=default, **kwargs)
        self._validate(self.default)
        self.regex = regex

    def _validate_regex(self, val, regex):
        if (val is None and self.allow_None):
            return
        if regex is not None and re.match(regex, val) is None:
            raise ValueError(
                f'{_validate_error_prefix(self)} value {val!r} does not '
"""))
V("C01", "color_no_default_validation", "fire", "R01.c", (P, """        super().__init__(default=default, **kwargs)
        self.allow_named = allow_named
        self._validate(self.default)
""", """        super().__init__(default=default, **kwargs)
        self.allow_named = allow_named
"""))
V("C01", "bytes_drops_allow_none", "fire", "R01.d", (P, "super().__init__(default=default, allow_None=allow_None, **kwargs)", "super().__init__(default=default, **kwargs)"))
V("C01", "number_drops_inclusive_bounds_arg", "fire", "R01.d", (P, """        self.bounds = bounds
        self.inclusive_bounds = inclusive_bounds
        self.softbounds = softbounds
        self.step = step
        self._validate(self.default)

    def __get__(self, obj, objtype):""", """        self.bounds = bounds
        self.softbounds = softbounds
        self.step = step
        self._validate(self.default)

    def __get__(self, obj, objtype):"""))
V("C01", "string_regex_never_checked", "fire", "R01.e", (Z, """        self._validate_value(val, self.allow_None)
        self._validate_regex(val, self.regex)


class shared_parameters:""", """        self._validate_value(val, self.allow_None)


class shared_parameters:"""))
V("C01", "tuple_length_never_checked", "fire", "R01.e", (P, """        self._validate_value(val, self.allow_None)
        self._validate_length(val, self.length)
""", """        self._validate_value(val, self.allow_None)
"""))
V("C01", "list_item_type_never_checked", "fire", "R01.e", (P, """        self._validate_bounds(val, self.bounds)
        self._validate_item_type(val, self.item_type, self.is_instance)
""", """        self._validate_bounds(val, self.bounds)
"""))
V("C01", "number_upper_bound_nan", "fire", "R01.f", (P, """                if not val <= vmax:
                    raise ValueError(
                        f"{_validate_error_prefix(self)} must be at most "
""", """                if val > vmax:
                    raise ValueError(
                        f"{_validate_error_prefix(self)} must be at most "
"""))
V("C01", "number_inclusive_lower_off_by_one", "fire", "R01.f", (P, """                if not val >= vmin:
                    raise ValueError(
                        f"{_validate_error_prefix(self)} must be at least "
""", """                if not val > vmin:
                    raise ValueError(
                        f"{_validate_error_prefix(self)} must be at least "
"""))
V("C01", "number_inclusivity_flags_swapped", "fire", "R01.f", (P, """        vmin, vmax = bounds
        incmin, incmax = inclusive_bounds
        if vmax is not None:
            if incmax is True:""", """        vmin, vmax = bounds
        incmax, incmin = inclusive_bounds
        if vmax is not None:
            if incmax is True:"""))
V("C01", "range_exclusive_upper_accepts_boundary", "fire", "R01.f", (P, "            too_high = (vmax is not None) and not (v <= vmax if incmax else v < vmax)",
  "            too_high = (vmax is not None) and not (v <= vmax)"))
V("C01", "list_min_length_strict", "fire", "R01.f", (P, """            if not min_length <= l:
                raise ValueError(""", """            if not min_length < l:
                raise ValueError("""))
V("C01", "validate_passes_swapped_bounds_args", "fire", "R01.f", (P, "        self._validate_bounds(val, self.bounds, self.inclusive_bounds)\n\n    def get_soft_bounds(self):\n        return get_soft_bounds(self.bounds, self.softbounds)\n\n    def __setstate__",
  "        self._validate_bounds(val, self.softbounds, self.inclusive_bounds)\n\n    def get_soft_bounds(self):\n        return get_soft_bounds(self.bounds, self.softbounds)\n\n    def __setstate__"))
V("C01", "calendardaterange_no_tuple_check", "fire", "R01.g", (P, """        if not isinstance(val, tuple):
            raise ValueError(
                f"{_validate_error_prefix(self)} only takes a tuple value, "
                f"not {type(val)}."
            )
        for n in val:
            if not isinstance(n, dt.date):""", """        for n in val:
            if not isinstance(n, dt.date):"""))
V("C01", "benign_number_bounds_parenthesised", "benign", None, (P, """                if not val <= vmax:
                    raise ValueError(
                        f"{_validate_error_prefix(self)} must be at most "
""", """                if not (vmax >= val):
                    raise ValueError(
                        f"{_validate_error_prefix(self)} must be at most "
"""))
V("C01", "benign_range_bounds_rewritten", "benign", None, (P, "            too_low = (vmin is not None) and not (v >= vmin if incmin else v > vmin)",
  "            too_low = (vmin is not None) and (not v >= vmin if incmin else not v > vmin)"))
V("C01", "benign_string_regex_before_super", "benign", None, (Z, """        super().__init__(default=default, **kwargs)
        self.regex = regex
        self._validate(self.default)

    def _validate_regex(self, val, regex):
        if (val is None and self.allow_None):
            return
        if regex is not None and re.match(regex, val) is None:
            raise ValueError(
                f'{_validate_error_prefix(self)} value {val!r} does not '
""", """        self.regex = regex
        super().__init__(default=default, **kwargs)
        self._validate(self.default)

    def _validate_regex(self, val, regex):
        if (val is None and self.allow_None):
            return
        if regex is not None and re.match(regex, val) is None:
            raise ValueError(
                f'{_validate_error_prefix(self)} value {val!r} does not '
"""))
V("C01", "benign_calendardaterange_super_check", "benign", None, (P, """        if not isinstance(val, tuple):
            raise ValueError(
                f"{_validate_error_prefix(self)} only takes a tuple value, "
                f"not {type(val)}."
            )
        for n in val:
            if not isinstance(n, dt.date):""", """        Tuple._validate_value(self, val, allow_None)
        if isinstance(val, tuple) is False:
            raise ValueError('tuple expected')
        for n in val:
            if not isinstance(n, dt.date):"""))

# ======================================================================= C13
V("C13", "add_parameter_own_cache_only", "fire", "R13.a", (Z, """        # delete cached params() of the class and of its subclasses
        cls._clear_params_cache()
""", """        cls._param__private.params.clear()
"""))
V("C13", "copy_on_write_without_invalidation", "fire", "R13.a", (Z, """                type.__setattr__(mcs,attribute_name,parameter)
                mcs._clear_params_cache()
""", """                type.__setattr__(mcs,attribute_name,parameter)
"""))
V("C13", "invalidate_after_inheritance", "fire", "R13.a", (Z, """                mcs._clear_params_cache()
                mcs._initialize_parameter(attribute_name,value)
""", """                mcs._initialize_parameter(attribute_name,value)
                mcs._clear_params_cache()
"""))
V("C13", "clear_skips_subclasses", "fire", "R13.a", (Z, "        for cls in descendents(mcs):\n            private = cls.__dict__.get('_param__private')", "        for cls in [mcs]:\n            private = cls.__dict__.get('_param__private')"))
V("C13", "second_reader_of_cache", "fire", "R13.b", (Z, "        return param in self_._cls_parameters\n", "        return param in self_.cls._param__private.params\n"))
V("C13", "benign_rename_private_local", "benign", None, (Z, """            private = cls.__dict__.get('_param__private')
            if private is not None:
                private.params = {}
""", """            ns = cls.__dict__.get('_param__private')
            if ns is not None:
                ns.params = {}
"""))
V("C13", "benign_clear_inline_loop", "benign", None, (Z, """        # delete cached params() of the class and of its subclasses
        cls._clear_params_cache()
""", """        for sub in descendents(cls):
            sub._param__private.params = {}
"""))

# ======================================================================= C18
V("C18", "append_forgets_objects", "fire", "R18.a", (P, """            super().append(object)
            self._parameter._objects.append(object)

    def copy(self):""", """            super().append(object)

    def copy(self):"""))
V("C18", "insert_index_differs", "fire", "R18.a", (P, "            self._parameter._objects.insert(index, object)", "            self._parameter._objects.insert(0, object)"))
V("C18", "pop_returns_none", "fire", "R18.b", (P, """                        if v is not object
                    }
            return object
""", """                        if v is not object
                    }
            return
"""))
V("C18", "pop_inverted_filter", "fire", "R18.c", (P, """                        if v is not object
                    }
            return object
""", """                        if v is object
                    }
            return object
"""))
V("C18", "extend_outside_trigger_scope", "fire", "R18.d", (P, """        with self._trigger():
            super().extend(objects)
            self._parameter._objects.extend(objects)
""", """        with self._trigger():
            super().extend(objects)
        self._parameter._objects.extend(objects)
"""))
V("C18", "update_double_notification", "fire", "R18.d", (P, "                self.__setitem__(k, v, trigger=False)\n            for k, v in items.items():", "                self.__setitem__(k, v)\n            for k, v in items.items():"))
V("C18", "get_range_ignores_names", "fire", "R18.e", (P, "        return _named_objs(self._objects, self.names)", "        return _named_objs(self._objects)"))
V("C18", "benign_swap_paired_statements", "benign", None, (P, """            super().append(object)
            self._parameter._objects.append(object)

    def copy(self):""", """            self._parameter._objects.append(object)
            super().append(object)

    def copy(self):"""))

# ======================================================================= C10
V("C10", "await_inside_syncing", "fire", "R10.a", (Z, """                try:
                    new_obj = await awaitable
                except Skip:
                    pass
                else:
                    with _syncing(self_.self, (pname,)):
                        try:
                            self_.update({pname: new_obj})
                        except Skip:
                            pass
""", """                with _syncing(self_.self, (pname,)):
                    try:
                        self_.update({pname: await awaitable})
                    except Skip:
                        pass
"""))
V("C10", "supersede_without_registering", "fire", "R10.b", (Z, """            self_.self._param__private.async_refs.pop(pname).cancel()
            self_.self._param__private.async_refs[pname] = current_task
""", """            self_.self._param__private.async_refs[pname].cancel()
"""))
V("C10", "supersede_pop_without_registering", "fire", "R10.d", (Z, """            self_.self._param__private.async_refs.pop(pname).cancel()
            self_.self._param__private.async_refs[pname] = current_task
""", """            self_.self._param__private.async_refs.pop(pname).cancel()
"""))
V("C10", "rx_unguarded_write_after_await", "fire", "R10.c", (R, """            value = await obj
            if self._current_task is task:
                self._current_ = value
                self._trigger.param.trigger('value')
""", """            value = await obj
            self._current_ = value
            self._trigger.param.trigger('value')
"""))
V("C10", "rx_asyncgen_without_break", "fire", "R10.c", (R, """                if self._current_task is not task:
                    break
                self._current_ = val
""", """                self._current_ = val
"""))
V("C10", "benign_rename_awaited_value", "benign", None, (Z, """                    new_obj = await awaitable
                except Skip:
                    pass
                else:
                    with _syncing(self_.self, (pname,)):
                        try:
                            self_.update({pname: new_obj})
""", """                    result = await awaitable
                except Skip:
                    pass
                else:
                    with _syncing(self_.self, (pname,)):
                        try:
                            self_.update({pname: result})
"""))

# ======================================================================= C09
V("C09", "rsub_not_reversed", "fire", "R09.c", (R, "        return self._apply_operator(operator.sub, other, reverse=True)", "        return self._apply_operator(operator.sub, other)"))
V("C09", "radd_wrong_function", "fire", "R09.c", (R, "        return self._apply_operator(operator.add, other, reverse=True)", "        return self._apply_operator(operator.sub, other, reverse=True)"))
V("C09", "rxor_missing", "fire", "R09.a", (R, "    def __rxor__(self, other):\n        return self._apply_operator(operator.xor, other, reverse=True)\n", ""))
V("C09", "le_uses_lt", "fire", "R09.d", (R, "        return self._apply_operator(operator.le, other)", "        return self._apply_operator(operator.lt, other)"))
V("C09", "nonexistent_operator_function", "fire", "R09.b", (R, "        return self._apply_operator(operator.floordiv, other, reverse=True)", "        return self._apply_operator(operator.rfloordiv, other, reverse=True)"))
V("C09", "eval_operation_ignores_reverse", "fire", "R09.d", (R, "            obj = fn(resolved_args[0], obj, *resolved_args[1:], **resolved_kwargs)", "            obj = fn(obj, *resolved_args, **resolved_kwargs)"))

# ======================================================================= C08
V("C08", "update_ref_non_recursive", "fire", "R08.b", (Z, "            pname: resolve_ref(pref, recursive=self_[pname].nested_refs)", "            pname: resolve_ref(pref)"))
V("C08", "update_ref_no_unwatch", "fire", "R08.a", (Z, """        for _, watcher in param_private.ref_watchers:
            dep_obj = watcher.cls if watcher.inst is None else watcher.inst
            dep_obj.param.unwatch(watcher)
        self_.self._param__private.ref_watchers = []
""", """        self_.self._param__private.ref_watchers = []
"""))
V("C08", "relink_drops_entry_only", "fire", "R08.a", (Z, """        obj.param._update_ref(name, ref)

    def _validate_value(self, value, allow_None):""", """        if ref is None:
            del obj._param__private.refs[name]
        else:
            obj.param._update_ref(name, ref)

    def _validate_value(self, value, allow_None):"""))
V("C08", "sync_refs_outside_syncing", "fire", "R08.c", (Z, """        with edit_constant(self_.self):
            with _syncing(self_.self, updates):
                self_.update(updates)
""", """        with edit_constant(self_.self):
            self_.update(updates)
"""))
V("C08", "sync_refs_value_non_recursive", "fire", "R08.b", (Z, "                new_val = resolve_value(ref, recursive)", "                new_val = resolve_value(ref, False)"))

# ======================================================================= C14
V("C14", "constant_raise_removed", "fire", "R14.a", (Z, """                _old = obj._param__private.values.get(self.name, self.default)
                if val is not _old:
                    raise TypeError("Constant parameter '%s' cannot be modified" % name)
""", """                _old = obj._param__private.values.get(self.name, self.default)
                obj._param__private.values[self.name] = val
"""))
V("C14", "constant_raise_skipped_for_equal", "fire", "R14.a", (Z, """                if val is not _old:
                    raise TypeError("Constant parameter '%s' cannot be modified" % name)
""", """                if val is not _old and val != _old:
                    raise TypeError("Constant parameter '%s' cannot be modified" % name)
"""))
V("C14", "readonly_only_on_instances", "fire", "R14.a", (Z, """            if self.readonly:
                raise TypeError("Read-only parameter '%s' cannot be modified" % name)
""", """            if self.readonly and obj is not None:
                raise TypeError("Read-only parameter '%s' cannot be modified" % name)
"""))
V("C14", "edit_constant_instance_only", "fire", "R14.b", (Z, """            if pname in kls_params:
                type(parameterized).param[pname].constant=True
            if pname in inst_params:
""", """            if pname in inst_params:
"""))
V("C14", "name_not_constant", "fire", "R14.c", (Z, "    name = String(default=None, constant=True, doc=", "    name = String(default=None, constant=False, doc="))
V("C14", "readonly_does_not_force_constant", "fire", "R14.c", (Z, "        if constant is True or readonly is True:  # readonly => constant", "        if constant is True:  # readonly => constant"))

# ======================================================================= C12
V("C12", "reset_event_writes_class_default", "fire", "R12.a", (P, """        val = False
        if obj is None:
            self.default = val
        else:
            obj._param__private.values[self.name] = val
""", """        val = False
        self.default = val
        if obj is not None:
            obj._param__private.values[self.name] = val
"""))
V("C12", "dynamic_set_without_descriptor", "fire", "R12.d", (P, """    @instance_descriptor
    def __set__(self,obj,val):
        \"\"\"
        Call the superclass's set and keep this parameter's""", """    def __set__(self,obj,val):
        \"\"\"
        Call the superclass's set and keep this parameter's"""))
V("C12", "instance_param_not_copied", "fire", "R12.c", (Z, "    p = copy.copy(paramobj)\n    p.owner = owner", "    p = paramobj\n    p.owner = owner"))
V("C12", "instance_param_shares_mutable_slots", "fire", "R12.c", (Z, """        if _is_mutable_container(v) and s != "default":
            setattr(p, s, copy.copy(v))
    return p""", """        if _is_mutable_container(v) and s != "default":
            pass
    return p"""))
V("C12", "instantiate_params_not_deepcopied", "fire", "R12.k", (Z, """        for p in params_to_deepcopy.values():
            self_._instantiate_param(p)
""", """        for p in params_to_deepcopy.values():
            self_._instantiate_param(p, deepcopy=False)
"""))
V("C12", "class_set_without_copy_on_write", "fire", "R12.g", (Z, """            if owning_class != mcs:
                parameter = copy.copy(parameter)
                parameter.owner = mcs
                type.__setattr__(mcs,attribute_name,parameter)
                mcs._clear_params_cache()
            mcs.__dict__[attribute_name].__set__(None,value)
""", """            parameter.__set__(None,value)
"""))
V("C12", "descriptor_wrapper_falls_through", "fire", "R12.d", (Z, """                instance_param.__set__(obj, val)
                return
        return f(self, obj, val)""", """                instance_param.__set__(obj, val)
        return f(self, obj, val)"""))

# ======================================================================= C03
V("C03", "setter_dispatch_unsorted", "fire", "R03.b", (Z, "        for watcher in sorted(watchers, key=lambda w: w.precedence):\n            obj.param._call_watcher(watcher, event)", "        for watcher in list(watchers):\n            obj.param._call_watcher(watcher, event)"))
V("C03", "flush_dispatch_reverse_sorted", "fire", "R03.b", (Z, "            for watcher in sorted(watchers, key=lambda w: w.precedence):\n                events = [", "            for watcher in sorted(watchers, key=lambda w: w.precedence, reverse=True):\n                events = ["))
V("C03", "is_equal_fallthrough_eq", "fire", "R03.c", (Z, """            return cls.compare_mapping(obj1, obj2)
        return False
""", """            return cls.compare_mapping(obj1, obj2)
        return obj1 is obj2
"""))
V("C03", "compare_iterator_len_mismatch_ignored", "fire", "R03.c", (Z, """        if type(obj1) is not type(obj2) or len(obj1) != len(obj2):
            return False
        for o1, o2 in zip(obj1, obj2):""", """        if type(obj1) is not type(obj2):
            return True if len(obj1) == 0 else False
        for o1, o2 in zip(obj1, obj2):"""))
V("C03", "str_compared_by_identity", "fire", "R03.c", (Z, "        str: operator.eq,\n", "        str: operator.is_,\n"))
V("C03", "event_type_changed_set_swapped", "fire", "R03.d", (Z, "            event_type = 'changed' if watcher.onlychanged else 'set'", "            event_type = 'set' if watcher.onlychanged else 'changed'"))
V("C03", "onlychanged_filter_inverted", "fire", "R03.f", (Z, "        elif watcher.onlychanged and (not self_._changed(event)):\n            return", "        elif watcher.onlychanged and self_._changed(event):\n            return"))
V("C03", "trigger_does_not_bypass_filter", "fire", "R03.f", (Z, """        if self_._TRIGGER:
            pass
        elif watcher.onlychanged and (not self_._changed(event)):
            return
""", """        if watcher.onlychanged and (not self_._changed(event)):
            return
"""))
V("C03", "event_new_is_old", "fire", "R03.a", (Z, "                      old=_old, new=val, type=None)\n\n        # Copy watchers here", "                      old=_old, new=_old, type=None)\n\n        # Copy watchers here"))
V("C03", "old_read_after_store", "fire", "R03.a", (Z, """                _old = obj._param__private.values.get(name, self.default)
                obj._param__private.values[name] = val
        if relink:""", """                obj._param__private.values[name] = val
                _old = obj._param__private.values.get(name, self.default)
        if relink:"""))
V("C03", "slot_trigger_before_store", "fire", "R03.a", (Z, """        super().__setattr__(attribute, value)
        if has_watcher and old is not NotImplemented:
            self._trigger_event(attribute, old, value)
""", """        if has_watcher and old is not NotImplemented:
            self._trigger_event(attribute, old, value)
        super().__setattr__(attribute, value)
"""))
V("C03", "benign_sorted_attrgetter", "benign", None, (Z, "        for watcher in sorted(watchers, key=lambda w: w.precedence):\n            obj.param._call_watcher(watcher, event)", "        for watcher in sorted(watchers, key=attrgetter('precedence')):\n            obj.param._call_watcher(watcher, event)"))
V("C03", "benign_call_watcher_restructured", "benign", None, (Z, """        if self_._TRIGGER:
            pass
        elif watcher.onlychanged and (not self_._changed(event)):
            return
""", """        if not self_._TRIGGER and watcher.onlychanged and (not self_._changed(event)):
            return
"""))

# ======================================================================= C04
V("C04", "setter_flush_unguarded", "fire", "R04.b", (Z, "        if not obj.param._BATCH_WATCH:\n            obj.param._batch_call_watchers()\n\n    def _relink", "        if True:\n            obj.param._batch_call_watchers()\n\n    def _relink"))
V("C04", "call_watcher_executes_while_batching", "fire", "R04.a", (Z, """        if self_._BATCH_WATCH:
            self_._events.append(event)
            if not any(watcher is w for w in self_._state_watchers):
                self_._state_watchers.append(watcher)
        else:""", """        if self_._BATCH_WATCH and not watcher.queued:
            self_._events.append(event)
            if not any(watcher is w for w in self_._state_watchers):
                self_._state_watchers.append(watcher)
        else:"""))
V("C04", "queued_watcher_not_deduplicated", "fire", "R04.c", (Z, """            if not any(watcher is w for w in self_._state_watchers):
                self_._state_watchers.append(watcher)
""", """            self_._state_watchers.append(watcher)
"""))
V("C04", "flush_keeps_event_queue", "fire", "R04.c", (Z, """            watchers = self_._state_watchers[:]
            self_._events = []
            self_._state_watchers = []
""", """            watchers = self_._state_watchers[:]
            self_._state_watchers = []
"""))
V("C04", "flush_event_map_keyed_by_name_only", "fire", "R04.h", (Z, "            event_dict = OrderedDict([((event.name, event.what), event)\n                                      for event in self_._events])", "            event_dict = OrderedDict([((event.name, 'value'), event)\n                                      for event in self_._events])"))
V("C04", "discard_restores_alias", "fire", "R04.d", (Z, """    watchers, events = (list(parameterized.param._state_watchers),
                        list(parameterized.param._events))
""", """    watchers, events = (parameterized.param._state_watchers,
                        parameterized.param._events)
"""))
V("C04", "restorer_forgets_links", "fire", "R04.e", (Z, "            self._parameters._update(dict(self._restore, **self._refs))", "            self._parameters._update(dict(self._restore))"))
V("C04", "update_captures_links_after_apply", "fire", "R04.e", (Z, """        refs = {}
        if self_.self is not None:
            private = self_.self._param__private
            params = list(kwargs if arg is Undefined else dict(arg, **kwargs))
            for pname in params:
                if pname in refs:
                    continue
                elif pname in private.refs:
                    refs[pname] = private.refs[pname]
                elif pname in private.async_refs:
                    refs[pname] = private.async_refs[pname]
        restore = dict(self_._update(arg, **kwargs))
""", """        refs = {}
        restore = dict(self_._update(arg, **kwargs))
        if self_.self is not None:
            private = self_.self._param__private
            params = list(kwargs if arg is Undefined else dict(arg, **kwargs))
            for pname in params:
                if pname in refs:
                    continue
                elif pname in private.refs:
                    refs[pname] = private.refs[pname]
                elif pname in private.async_refs:
                    refs[pname] = private.async_refs[pname]
"""))
V("C04", "trigger_submits_defaults", "fire", "R04.f", (Z, "        params = {name: param_values[name] for name in param_names}", "        params = {name: self_[name].default for name in param_names}"))
V("C04", "benign_trigger_locals_renamed", "benign", None, (Z, """        param_values = self_.values()
        params = {name: param_values[name] for name in param_names}
""", """        current = self_.values()
        params = {n: current[n] for n in param_names}
"""))
V("C04", "benign_discard_copy_slices", "benign", None, (Z, """    watchers, events = (list(parameterized.param._state_watchers),
                        list(parameterized.param._events))
""", """    watchers = parameterized.param._state_watchers[:]
    events = parameterized.param._events.copy()
"""))

# ======================================================================= C15
V("C15", "date_format_loses_microseconds", "fire", "R15.b", (P, """        return dt.datetime.strptime(value, "%Y-%m-%dT%H:%M:%S.%f")


class CalendarDate(Number):""", """        return dt.datetime.strptime(value, "%Y-%m-%dT%H:%M:%S")


class CalendarDate(Number):"""))
V("C15", "tuple_deserialize_returns_list", "fire", "R15.c", (P, "        return tuple(value) # As JSON has no tuple representation", "        return list(value) # As JSON has no tuple representation"))
V("C15", "daterange_width_constant_wrong", "fire", "R15.e", (P, "            if len(v) == 10:", "            if len(v) == 11:"))
V("C15", "daterange_isinstance_date", "fire", "R15.e", (P, "            if type(v) is dt.date:", "            if isinstance(v, dt.date):"))
V("C15", "calendardate_serialize_no_none_guard", "fire", "R15.d", (P, """    def serialize(cls, value):
        if value is None:
            return None
        return value.strftime("%Y-%m-%d")
""", """    def serialize(cls, value):
        return value.strftime("%Y-%m-%d")
"""))
V("C15", "deserialize_subset_filter_inverted", "fire", "R15.f", (S, """            if subset is not None and name not in subset:
                continue
            deserialized = pobj.param[name].deserialize(value)""", """            if subset is not None and name in subset:
                continue
            deserialized = pobj.param[name].deserialize(value)"""))
V("C15", "dumps_with_default_str", "fire", "R15.f", (S, "        return json.dumps(obj)", "        return json.dumps(obj, default=str)"))
V("C15", "calendardaterange_only_serialize", "fire", "R15.a", (P, """    @classmethod
    def deserialize(cls, value):
        if value == 'null' or value is None:
            return None
        # As JSON has no tuple representation
        return tuple([dt.datetime.strptime(v, "%Y-%m-%d").date() for v in value])
""", ""))

# ======================================================================= C16
V("C16", "calendardate_schema_renamed", "fire", "R16.a", (S, "    def calendardate_schema(cls, p, safe=False):", "    def caldate_schema(cls, p, safe=False):"))
V("C16", "misspelled_keyword", "fire", "R16.b", (S, "            schema['minItems'] =  p.length\n            schema['maxItems'] =  p.length", "            schema['minitems'] =  p.length\n            schema['maxItems'] =  p.length"))
V("C16", "non_primitive_type", "fire", "R16.b", (S, "        return {'type': 'string', 'format': 'date'}", "        return {'type': 'date', 'format': 'date'}"))
V("C16", "inclusive_index_swapped", "fire", "R16.c", (S, "                key = 'minimum' if inclusive_bounds[0] else 'exclusiveMinimum'", "                key = 'minimum' if inclusive_bounds[1] else 'exclusiveMinimum'"))
V("C16", "exclusive_keywords_swapped", "fire", "R16.c", (S, "                key = 'maximum' if inclusive_bounds[1] else 'exclusiveMaximum'", "                key = 'exclusiveMaximum' if inclusive_bounds[1] else 'maximum'"))
V("C16", "nullable_inverted", "fire", "R16.d", (S, "        return JSONNullable(schema) if p.allow_None else schema", "        return schema if p.allow_None else JSONNullable(schema)"))
V("C16", "range_schema_drops_inclusivity", "fire", "R16.c", (S, "            {'type': 'number'}, p.bounds, p.inclusive_bounds)", "            {'type': 'number'}, p.bounds, (True, True))"))

# ======================================================================= C17
V("C17", "instance_private_slot_unassigned", "fire", "R17.c", (Z, "        self.syncing = set()\n        if parameters_state is None:", "        if parameters_state is None:"))
V("C17", "lambda_in_ref_watcher", "fire", "R17.b", (Z, "                owner.param._watch(self_._sync_refs, list(set(pnames)), precedence=-1)", "                owner.param._watch(lambda *e: self_._sync_refs(*e), list(set(pnames)), precedence=-1)"))
V("C17", "setstate_initialized_too_early", "fire", "R17.d", (Z, """        state.pop('param', None)

        for name,value in state.items():
            setattr(self,name,value)
        # The restored object starts""", """        state.pop('param', None)

        self._param__private.initialized = True
        for name,value in state.items():
            setattr(self,name,value)
        # The restored object starts"""))
V("C17", "setstate_keeps_transient_state", "fire", "R17.f", (Z, """        self._param__private.parameters_state = {
            "BATCH_WATCH": False,
            "TRIGGER": False,
            "events": [],
            "watchers": []
        }
        self._param__private.initialized = True
""", """        self._param__private.initialized = True
"""))
V("C17", "setstate_rebinds_by_class", "fire", "R17.e", (Z, "                        elif get_method_owner(fn) is watcher.inst:", "                        elif isinstance(get_method_owner(fn), type(self)):"))
V("C17", "parameter_getstate_own_slots_only", "fire", "R17.c", (Z, "        return {slot: getattr(self, slot) for slot in self.__class__._all_slots_}", "        return {slot: getattr(self, slot) for slot in self.__slots__}"))

# ======================================================================= C19
V("C19", "uniform_draw_without_reseed", "fire", "R19.a", (N, """    def __call__(self):
        super().__call__()
        return self.random_generator.uniform(self.lbound,self.ubound)
""", """    def __call__(self):
        return self.random_generator.uniform(self.lbound,self.ubound)
"""))
V("C19", "reseed_skipped_when_time_dependent", "fire", "R19.a", (N, """    def __call__(self):
        if self.time_dependent:
            self._hash_and_seed()
""", """    def __call__(self):
        if not self.time_dependent:
            self._hash_and_seed()
"""))
V("C19", "hash_digest_not_copied", "fire", "R19.a", (N, "        digest = self._digest.copy()", "        digest = self._digest"))
V("C19", "inspect_produces", "fire", "R19.b", (P, """        if hasattr(gen,'_Dynamic_last'):
            return gen._Dynamic_last
        else:
            return gen


    def _force""", """        if hasattr(gen,'_Dynamic_last'):
            return self._produce_value(gen)
        else:
            return gen


    def _force"""))
V("C19", "cache_time_not_recorded", "fire", "R19.c", (P, """                value = _produce_value(gen)
                gen._Dynamic_last = value
                gen._Dynamic_time = time
""", """                value = _produce_value(gen)
                gen._Dynamic_last = value
"""))
V("C19", "cache_only_refreshed_forward", "fire", "R19.c", (P, "            if force or time!=gen._Dynamic_time:", "            if force or time>gen._Dynamic_time:"))
V("C19", "time_exit_fields_reordered", "fire", "R19.d", (P, "        (self._time, self.timestep, self.until) = self._pushed_state.pop()", "        (self._time, self.until, self.timestep) = self._pushed_state.pop()"))
V("C19", "state_pop_forgets_time", "fire", "R19.d", (Z, """                g._Dynamic_last = g._saved_Dynamic_last.pop()
                g._Dynamic_time = g._saved_Dynamic_time.pop()
""", """                g._Dynamic_last = g._saved_Dynamic_last.pop()
"""))
V("C19", "benign_produce_value_rewritten", "benign", None, (P, "            if force or time!=gen._Dynamic_time:", "            if force or not (time == gen._Dynamic_time):"))

# ----------------------------------------------------------------- C01 / R01.h
V("C01", "boolean_none_without_allow_none", "fire", "R01.h", (P, """        elif not isinstance(val, bool):
            raise ValueError(
                f"{_validate_error_prefix(self)} must be True or False, "
""", """        elif not isinstance(val, bool) and val is not None:
            raise ValueError(
                f"{_validate_error_prefix(self)} must be True or False, "
"""))
V("C01", "string_none_always_accepted", "fire", "R01.h", (Z, """    def _validate_value(self, val, allow_None):
        if allow_None and val is None:
            return
        if not isinstance(val, str):
            raise ValueError(
                f'{_validate_error_prefix(self)} only takes a string value, '
""", """    def _validate_value(self, val, allow_None):
        if val is None:
            return
        if not isinstance(val, str):
            raise ValueError(
                f'{_validate_error_prefix(self)} only takes a string value, '
"""), (Z, """    def _validate_regex(self, val, regex):
        if (val is None and self.allow_None):
            return
        if regex is not None and re.match(regex, val) is None:
            raise ValueError(
                f'{_validate_error_prefix(self)} value {val!r} does not '
""", """    def _validate_regex(self, val, regex):
        if val is None:
            return
        if regex is not None and re.match(regex, val) is None:
            raise ValueError(
                f'{_validate_error_prefix(self)} value {val!r} does not '
"""))
V("C01", "integer_type_check_dropped", "fire", "R01.h", (P, """        if not isinstance(val, _int_types):
            raise ValueError(
                f"{_validate_error_prefix(self)} must be an integer, "
                f"not {type(val)}."
            )
""", """        return
"""))
V("C01", "list_rejects_none_despite_allow_none", "fire", "R01.h", (P, """    def _validate_value(self, val, allow_None):
        if allow_None and val is None:
            return
        if not isinstance(val, list):""", """    def _validate_value(self, val, allow_None):
        if not isinstance(val, list):"""))
V("C01", "benign_callable_condition_reordered", "benign", None, (P, "        if (allow_None and val is None) or callable(val):\n            return\n        raise ValueError(\n            f\"{_validate_error_prefix(self)} only takes a callable object, \"",
  "        if callable(val) or (val is None and allow_None):\n            return\n        raise ValueError(\n            f\"{_validate_error_prefix(self)} only takes a callable object, \""))

V("C10", "rx_sync_result_keeps_token", "fire", "R10.g", (R, """            self._current_task = None
            self._current_ = current = obj
""", """            self._current_ = current = obj
"""))
V("C10", "supersede_cancel_only_if_done", "fire", "R10.e", (Z, """            self_.self._param__private.async_refs.pop(pname).cancel()
            self_.self._param__private.async_refs[pname] = current_task
""", """            if running_task.done():
                running_task.cancel()
            self_.self._param__private.async_refs[pname] = current_task
"""))
V("C09", "invalidation_skips_root_params", "fire", "R09.e", (R, "            params[0].owner.param._watch(self._invalidate_current, [p.name for p in params], precedence=-2)",
  "            params[0].owner.param._watch(self._invalidate_current, [p.name for p in params if p not in self._root._fn_params], precedence=-2)"))
V("C09", "invalidate_current_early_return_when_dirty", "fire", "R09.f", (R, "        if all(event.obj is self._trigger for event in events):\n            return\n        self._dirty = True",
  "        if self._dirty or all(event.obj is self._trigger for event in events):\n            return\n        self._dirty = True"))
V("C13", "memo_from_base_memos", "fire", "R13.h", (Z, """        for class_ in classlist(cls):
            for name, val in class_.__dict__.items():
                if isinstance(val, Parameter):
                    paramdict[name] = val

        # We only want the cache""", """        for base in cls.__bases__[::-1]:
            if isinstance(base, ParameterizedMetaclass):
                paramdict.update(base.param._cls_parameters)
        for name, val in cls.__dict__.items():
            if isinstance(val, Parameter):
                paramdict[name] = val

        # We only want the cache"""))
V("C13", "benign_memo_walks_mro_attribute", "benign", None, (Z, "        for class_ in classlist(cls):\n            for name, val in class_.__dict__.items():\n                if isinstance(val, Parameter):\n                    paramdict[name] = val\n\n        # We only want the cache",
  "        for class_ in reversed(cls.__mro__):\n            for name, val in class_.__dict__.items():\n                if isinstance(val, Parameter):\n                    paramdict[name] = val\n\n        # We only want the cache"))
V("C15", "bulk_null_shortcut", "fire", "R15.f", (S, """            deserialized = pobj.param[name].deserialize(value)
            components[name] = deserialized""", """            if value is None or value == 'null':
                components[name] = None
                continue
            components[name] = pobj.param[name].deserialize(value)"""))
V("C16", "schema_from_class_parameters", "fire", "R16.e", (Z, "        return serializer.schema(self_or_cls, safe=safe, subset=subset)", "        return serializer.schema(self_.cls, safe=safe, subset=subset)"))
V("C18", "listselector_snapshot_extend", "fire", "R18.f", (P, """            for v in val:
                self._ensure_value_is_in_objects(v)

    def _validate_type(self, val):""", """            objects = self.objects
            self._objects.extend(v for v in val if v not in objects)

    def _validate_type(self, val):"""))
V("C19", "hash_and_seed_memoised", "fire", "R19.a", (N, """        hashval = self._hashfn(self.time_fn(), param.random_seed)
        self.random_generator.seed(hashval)
""", """        key = (self.time_fn(), param.random_seed)
        if key == getattr(self, '_seeded_for', None):
            return
        hashval = self._hashfn(*key)
        self.random_generator.seed(hashval)
        self._seeded_for = key
"""))
V("C12", "empty_containers_not_recopied", "fire", "R12.c", (Z, '        if _is_mutable_container(v) and s != "default":\n            setattr(p, s, copy.copy(v))', '        if v and _is_mutable_container(v) and s != "default":\n            setattr(p, s, copy.copy(v))'))
V("C14", "constants_with_none_default_not_referenced", "fire", "R14.k", (Z, "            elif p.constant and pname != 'name':", "            elif p.constant and pname != 'name' and p.default is not None:"))
V("C14", "outer_guard_ignores_readonly", "fire", "R14.a", (Z, "        if self.constant or self.readonly:\n            if self.readonly:", "        if self.constant:\n            if self.readonly:"))
V("C04", "dedup_by_equality", "fire", "R04.c", (Z, "            if not any(watcher is w for w in self_._state_watchers):", "            if watcher not in self_._state_watchers:"))
V("C08", "syncing_scope_no_finally", "fire", "R08.c", (Z, """    parameterized._param__private.syncing = set(old) | set(parameters)
    try:
        yield
    finally:
        parameterized._param__private.syncing = old
""", """    parameterized._param__private.syncing = set(old) | set(parameters)
    yield
    parameterized._param__private.syncing = old
"""))

V("C18", "extend_iterable_consumed_twice", "fire", "R18.g", (P, "        # The iterable is consumed twice below\n        objects = list(objects)\n        with self._trigger():", "        with self._trigger():"))
V("C18", "remove_prunes_by_argument_identity", "fire", "R18.c", (P, "            object = super().__getitem__(super().index(object))\n", ""))

# name-independence twins
V("C03", "benign_register_watcher_locals_renamed", "benign", None, (Z, """        for parameter_name in parameter_names:
            if parameter_name not in self_.cls.param:
                raise ValueError("{} parameter was not found in list of "
                                 "parameters of class {}".format(parameter_name, self_.cls.__name__))

            if self_.self is not None and what == "value":
                watchers = self_.self._param__private.watchers
                if parameter_name not in watchers:
                    watchers[parameter_name] = {}
                if what not in watchers[parameter_name]:
                    watchers[parameter_name][what] = []
                getattr(watchers[parameter_name][what], action)(watcher)
            else:
                watchers = self_[parameter_name].watchers
""", """        for pname in parameter_names:
            if pname not in self_.cls.param:
                raise ValueError("{} parameter was not found in list of "
                                 "parameters of class {}".format(pname, self_.cls.__name__))

            if self_.self is not None and what == "value":
                table = self_.self._param__private.watchers
                if pname not in table:
                    table[pname] = {}
                if what not in table[pname]:
                    table[pname][what] = []
                getattr(table[pname][what], action)(watcher)
            else:
                watchers = self_[pname].watchers
"""))
V("C10", "benign_running_task_renamed", "benign", None, (Z, """        running_task = self_.self._param__private.async_refs.get(pname)
        if running_task is None:
            self_.self._param__private.async_refs[pname] = current_task
        elif current_task is not running_task:""", """        owner = self_.self._param__private.async_refs.get(pname)
        if owner is None:
            self_.self._param__private.async_refs[pname] = current_task
        elif current_task is not owner:"""))
V("C12", "benign_instantiator_renamed", "benign", None, (Z, "        instantiator = copy.deepcopy if deepcopy else lambda o: o", "        make = copy.deepcopy if deepcopy else lambda o: o"),
  (Z, "                new_object = instantiator(param_obj.default)\n                shared_parameters._shared_cache[param_key] = new_object", "                new_object = make(param_obj.default)\n                shared_parameters._shared_cache[param_key] = new_object"),
  (Z, "        else:\n            new_object = instantiator(param_obj.default)\n\n        dict_[key] = new_object", "        else:\n            new_object = make(param_obj.default)\n\n        dict_[key] = new_object"))

V("C04", "flush_sort_only_for_several_parameters", "fire", "R04.h", (Z, "            for watcher in sorted(watchers, key=lambda w: w.precedence):\n                events = [", "            if len(event_dict) > 1:\n                watchers.sort(key=lambda w: w.precedence)\n            for watcher in watchers:\n                events = ["))
V("C04", "flush_first_event_wins", "fire", "R04.*", (Z, "            event_dict = OrderedDict([((event.name, event.what), event)\n                                      for event in self_._events])", "            event_dict = OrderedDict([((event.name, event.what), event)\n                                      for event in reversed(self_._events)])"))
V("C03", "flush_single_pass", "fire", "R03.g", (Z, "        while self_._events:\n            event_dict = OrderedDict(", "        if self_._events:\n            event_dict = OrderedDict("))
V("C08", "sync_refs_event_index_by_object", "fire", "R08.e", (Z, "            if not any((dep.owner is e.obj and dep.name == e.name) for dep in deps for e in events) and not is_async:", "            changed = {id(e.obj): e.name for e in events}\n            if not any(changed.get(id(dep.owner)) == dep.name for dep in deps) and not is_async:"))
V("C08", "benign_sync_refs_any_reordered", "benign", None, (Z, "            if not any((dep.owner is e.obj and dep.name == e.name) for dep in deps for e in events) and not is_async:", "            if not is_async and not any((e.name == dep.name and e.obj is dep.owner) for e in events for dep in deps):"))

V("C05", "event_reset_skipped_on_failure", "fire", "R05.g", (P, """        try:
            if self._mode in ['set-reset', 'set']:
                super().__set__(obj, val)
        finally:
            # Also reset when a watcher raised, otherwise the Event stays
            # True and can never be triggered again.
            if self._mode in ['set-reset', 'reset']:
                self._reset_event(obj, val)
""", """        if self._mode in ['set-reset', 'set']:
            super().__set__(obj, val)
        if self._mode in ['set-reset', 'reset']:
            self._reset_event(obj, val)
"""))
V("C04", "trigger_merge_duplicates", "fire", "R04.i", (Z, """            self_._state_watchers += [
                w for w in watchers
                if not any(w is queued for queued in self_._state_watchers)
            ]
""", """            self_._state_watchers += watchers
"""))

V("C14", "edit_constant_restore_by_name_only", "fire", "R14.i", (Z, "            pobj.constant = True\n            # Some operations trigger", "            # Some operations trigger"))
V("C14", "time_call_toggles_flag_by_hand", "fire", "R14.h", (P, """            with edit_constant(self):
                self.time_type = time_type
""", """            type_param = self.param.objects('existing').get('time_type')
            type_param.constant = False
            self.time_type = time_type
            type_param.constant = True
"""))
V("C14", "async_ref_bypasses_constant_guard", "fire", "R14.f", (Z, """            if (self.constant or self.readonly) and (
                iscoroutinefunction(val) or inspect.isgeneratorfunction(val)
            ):
                # An asynchronous reference has no current value that could be
                # identical to the one held: reject it before it is scheduled.
                raise TypeError("%s parameter '%s' cannot be modified" % (
                    'Read-only' if self.readonly else 'Constant', name))
""", ""), (Z, """                if self.readonly:
                    raise TypeError("Read-only parameter '%s' cannot be modified" % name)
                elif self.constant:
                    raise TypeError("Constant parameter '%s' cannot be modified" % name)
                if relink:""", """                if relink:"""))
V("C14", "async_ref_applied_under_edit_constant", "fire", "R14.e", (Z, "                    with _syncing(self_.self, (pname,)):\n                        try:\n                            self_.update({pname: new_obj})", "                    with edit_constant(self_.self), _syncing(self_.self, (pname,)):\n                        try:\n                            self_.update({pname: new_obj})"))
V("C13", "memo_cleared_in_place", "fire", "R13.f", (Z, "                private.params = {}", "                private.params.clear()"))
V("C17", "parameter_getstate_drops_watchers", "fire", "R17.c", (Z, "        return {slot: getattr(self, slot) for slot in self.__class__._all_slots_}", "        state = {slot: getattr(self, slot) for slot in self.__class__._all_slots_}\n        state['watchers'] = {}\n        return state"))
V("C17", "get_all_slots_skips_own_class", "fire", "R17.g", (Z, "    parent_param_classes = [c for c in classlist(class_)[1::]]", "    parent_param_classes = [c for c in classlist(class_)[1:-1]]"))
V("C17", "benign_get_all_slots_mro_form", "benign", None, (Z, "    parent_param_classes = [c for c in classlist(class_)[1::]]", "    parent_param_classes = [c for c in inspect.getmro(class_)[-2::-1]]"))

# setter model
V("C01", "constant_params_skip_validation", "fire", "R01.m", (Z, "        self._validate(val)\n\n        _old = NotImplemented", "        if obj is None or not self.constant:\n            self._validate(val)\n\n        _old = NotImplemented"))
V("C02", "relink_between_validate_and_guard", "fire", "R02.m", (Z, "        self._validate(val)\n\n        _old = NotImplemented", "        self._validate(val)\n        if relink:\n            self._relink(obj, name, ref)\n            relink = False\n\n        _old = NotImplemented"))
V("C08", "relink_skipped_for_same_reference", "fire", "R08.m", (Z, "            relink = ref is not None or (name in obj._param__private.refs and not syncing)", "            relink = (ref is not None and ref is not obj._param__private.refs.get(name)) or (ref is None and name in obj._param__private.refs and not syncing)"))
V("C12", "class_route_also_writes_instance_like_store", "fire", "R12.m", (Z, """            if obj is None:
                _old = self.default
                self.default = val
            else:
                # When setting a Parameter before calling super.""", """            if obj is None or not obj._param__private.initialized:
                _old = self.default
                self.default = val
            else:
                # When setting a Parameter before calling super."""))
V("C14", "constant_identity_replaced_by_equality_in_model", "fire", "R14.*", (Z, "                if val is not _old:\n                    raise TypeError(\"Constant parameter", "                if val is not _old and not obj._param__private.initialized:\n                    raise TypeError(\"Constant parameter"))
V("C03", "no_dispatch_for_class_level_set", "fire", "R03.m", (Z, "        if obj is None:\n            watchers = self.watchers.get(\"value\")\n        elif name in", "        if obj is None:\n            watchers = None\n        elif name in"))
V("C14", "benign_readonly_checked_before_validation", "benign", None, (Z, "        self._validate(val)\n\n        _old = NotImplemented", "        if self.readonly:\n            raise TypeError(\"Read-only parameter '%s' cannot be modified\" % name)\n        self._validate(val)\n\n        _old = NotImplemented"))
V("C12", "benign_setter_private_alias", "benign", None, (Z, """                _old = obj._param__private.values.get(name, self.default)
                obj._param__private.values[name] = val
        if relink:""", """                private = obj._param__private
                _old = private.values.get(name, self.default)
                private.values[name] = val
        if relink:"""))

# update model
V("C05", "update_event_mode_skipped_for_unassigned", "fire", "R05.*", (Z, """                for tp in trigger_params:
                    p = self_[tp]
                    p._mode = 'reset'""", """                for tp in trigger_params:
                    if tp not in kwargs or list(kwargs).index(tp) > 0:
                        continue
                    p = self_[tp]
                    p._mode = 'reset'"""))
V("C04", "update_restore_skips_identical_values", "fire", "R04.*", (Z, "            restore = {k: values[k] for k, v in kwargs.items() if k in values}", "            restore = {k: values[k] for k, v in kwargs.items() if k in values and values[k] is not v}"))
V("C02", "rejected_update_flushes_in_batch", "fire", "R02.u", (Z, """        try:
            values = self_.values()
            restore = {k: values[k] for k, v in kwargs.items() if k in values}

            for (k, v) in kwargs.items():
                if k not in self_:
                    raise ValueError(f"{k!r} is not a parameter of {self_.cls.__name__}")
                setattr(self_or_cls, k, v)
        finally:
            # Whether or not a value was rejected, leave the batching
            # state as we found it and announce what has been applied.
            self_._BATCH_WATCH = BATCH_WATCH
            try:
                if not BATCH_WATCH:""", """        rejected = True
        try:
            values = self_.values()
            restore = {k: values[k] for k, v in kwargs.items() if k in values}

            for (k, v) in kwargs.items():
                if k not in self_:
                    raise ValueError(f"{k!r} is not a parameter of {self_.cls.__name__}")
                setattr(self_or_cls, k, v)
            rejected = False
        finally:
            # Whether or not a value was rejected, leave the batching
            # state as we found it and announce what has been applied.
            self_._BATCH_WATCH = BATCH_WATCH
            try:
                if rejected or not BATCH_WATCH:"""))

# ======================================================================= round-c rules
V("C01", "bytes_regex_skipped_for_empty", "fire", "R01.j", (P, """    def _validate_regex(self, val, regex):
        if (val is None and self.allow_None):
            return
        if regex is not None and re.match(regex, val) is None:
            raise ValueError(
                f"{_validate_error_prefix(self)} value {val!r} "
                f"does not match regex {regex!r}.\"""", """    def _validate_regex(self, val, regex):
        if (not val and self.allow_None):
            return
        if regex is not None and re.match(regex, val) is None:
            raise ValueError(
                f"{_validate_error_prefix(self)} value {val!r} "
                f"does not match regex {regex!r}.\""""))
V("C01", "benign_string_regex_split_tests", "benign", None, (Z, """        if (val is None and self.allow_None):
            return
        if regex is not None and re.match(regex, val) is None:
            raise ValueError(
                f'{_validate_error_prefix(self)} value {val!r} does not '""", """        if val is None and self.allow_None:
            return
        if regex is None:
            return
        if re.match(regex, val) is None:
            raise ValueError(
                f'{_validate_error_prefix(self)} value {val!r} does not '"""))
V("C02", "resolve_ref_marks_private_state_before_validation", "fire", "R02.a", (Z, """        ref = value
        try:
            value = resolve_value(value, recursive=pobj.nested_refs)
        except Skip:
            value = Undefined
        if is_async:""", """        ref = value
        if self_.self is not None:
            self_.self._param__private.explicit_no_refs.append(pobj.name)
        try:
            value = resolve_value(value, recursive=pobj.nested_refs)
        except Skip:
            value = Undefined
        if is_async:"""))
V("C03", "queue_dedup_by_equality", "fire", "R03.f", (Z, "            if not any(watcher is w for w in self_._state_watchers):", "            if not any(watcher == w for w in self_._state_watchers):"))
V("C03", "benign_compare_mapping_all_form", "benign", None, (Z, """        for k in obj1:
            if k in obj2:
                if not cls.is_equal(obj1[k], obj2[k]):
                    return False
            else:
                return False
        return True""", """        return all(k in obj2 and cls.is_equal(obj1[k], obj2[k]) for k in obj1)"""))
V("C09", "benign_compare_mapping_all_form", "benign", None, (Z, """        for k in obj1:
            if k in obj2:
                if not cls.is_equal(obj1[k], obj2[k]):
                    return False
            else:
                return False
        return True""", """        return all(k in obj2 and cls.is_equal(obj1[k], obj2[k]) for k in obj1)"""))
V("C09", "compare_iterator_ignores_length", "fire", "R09.g", (Z, """    def compare_iterator(cls, obj1, obj2):
        if type(obj1) is not type(obj2) or len(obj1) != len(obj2):
            return False""", """    def compare_iterator(cls, obj1, obj2):
        if type(obj1) is not type(obj2):
            return False"""))
V("C03", "compare_iterator_ignores_length", "fire", "R03.c", (Z, """    def compare_iterator(cls, obj1, obj2):
        if type(obj1) is not type(obj2) or len(obj1) != len(obj2):
            return False""", """    def compare_iterator(cls, obj1, obj2):
        if type(obj1) is not type(obj2):
            return False"""))
V("C04", "flush_refilters_changes_only_watchers", "fire", "R04.h", (Z, """                          for name in watcher.parameter_names
                          if (name, watcher.what) in event_dict]
                with _batch_call_watchers(self_.self_or_cls, enable=watcher.queued, run=False):""", """                          for name in watcher.parameter_names
                          if (name, watcher.what) in event_dict]
                if watcher.onlychanged and not self_._TRIGGER:
                    events = [e for e in events if self_._changed(e)] or events
                with _batch_call_watchers(self_.self_or_cls, enable=watcher.queued, run=False):"""))
V("C05", "flush_requeues_on_failure", "fire", "R05.h", (Z, """                with _batch_call_watchers(self_.self_or_cls, enable=watcher.queued, run=False):
                    self_._execute_watcher(watcher, events)
    # Please update""", """                try:
                    with _batch_call_watchers(self_.self_or_cls, enable=watcher.queued, run=False):
                        self_._execute_watcher(watcher, events)
                except Exception:
                    self_._state_watchers = [w for w in watchers if w is not watcher] + self_._state_watchers
                    raise
    # Please update"""))
V("C05", "discard_events_restores_queues_on_normal_exit_only", "fire", "R05.i", (Z, """    try:
        yield
    finally:
        parameterized.param._BATCH_WATCH = batch_watch
        parameterized.param._state_watchers = watchers
        parameterized.param._events = events
""", """    try:
        yield
        parameterized.param._state_watchers = watchers
        parameterized.param._events = events
    finally:
        parameterized.param._BATCH_WATCH = batch_watch
"""))
V("C05", "benign_syncing_except_and_fallthrough", "benign", None, (Z, """    try:
        yield
    finally:
        parameterized._param__private.syncing = old
""", """    try:
        yield
    except BaseException:
        parameterized._param__private.syncing = old
        raise
    parameterized._param__private.syncing = old
"""))
V("C08", "ctor_skips_refs_without_value", "fire", "R08.d", (Z, """            if ref is not None:
                refs[name] = ref
                deps[name] = ref_deps
            if not is_async and not (resolved is Undefined or resolved is Skip):""", """            if ref is not None and resolved is not Undefined:
                refs[name] = ref
                deps[name] = ref_deps
            if not is_async and not (resolved is Undefined or resolved is Skip):"""))
V("C08", "update_context_scans_keywords_only", "fire", "R08.f", (Z, "            params = list(kwargs if arg is Undefined else dict(arg, **kwargs))", "            params = list(kwargs)"))
V("C08", "benign_update_context_scan_two_lists", "benign", None, (Z, "            params = list(kwargs if arg is Undefined else dict(arg, **kwargs))", "            params = list(kwargs) if arg is Undefined else list(dict(arg)) + list(kwargs)"))
V("C08", "syncing_set_updated_in_place", "fire", "R08.c", (Z, "    parameterized._param__private.syncing = set(old) | set(parameters)", "    parameterized._param__private.syncing.update(parameters)"))
V("C10", "syncing_set_updated_in_place", "fire", "R10.j", (Z, "    parameterized._param__private.syncing = set(old) | set(parameters)", "    parameterized._param__private.syncing.update(parameters)"))
V("C10", "benign_syncing_fresh_set_built_in_steps", "benign", None, (Z, "    parameterized._param__private.syncing = set(old) | set(parameters)", "    fresh = set(old)\n    fresh |= set(parameters)\n    parameterized._param__private.syncing = fresh"))
V("C10", "no_unlink_when_value_identical", "fire", "R10.m", (Z, """        if relink:
            self._relink(obj, name, ref)""", """        if relink and not (ref is None and val is _old):
            self._relink(obj, name, ref)"""))
V("C09", "watch_callback_ignored_when_queued", "fire", "R09.h", (R, """            elif fn is not None:
                fn(value)
        bind(cb, self._reactive, watch=True)""", """            elif fn is not None and not queued:
                fn(value)
        bind(cb, self._reactive, watch=True)"""))
V("C09", "benign_watch_callback_early_return_without_fn", "benign", None, (R, """            from .parameterized import async_executor
            if iscoroutinefunction(fn):
                async_executor(partial(fn, value))
            elif fn is not None:
                fn(value)
        bind(cb, self._reactive, watch=True)""", """            from .parameterized import async_executor
            if fn is None:
                return
            if iscoroutinefunction(fn):
                async_executor(partial(fn, value))
            else:
                fn(value)
        bind(cb, self._reactive, watch=True)"""))
V("C03", "update_flushes_before_lowering_flag", "fire", "R03.u", (Z, """            self_._BATCH_WATCH = BATCH_WATCH
            try:
                if not BATCH_WATCH:
                    self_._batch_call_watchers()
            finally:""", """            try:
                if not BATCH_WATCH:
                    self_._batch_call_watchers()
            finally:
                self_._BATCH_WATCH = BATCH_WATCH"""))

# ----------------------------------------------------------------- round c, second half
V("C13", "value_generator_reads_instance_copy_default", "fire", "R13.g", (Z, "                value = self_.cls.param[name].default", "                value = param_obj.default"))
V("C13", "inspect_value_through_instance_copy", "fire", "R13.g", (Z, "                value = self_.cls.param[name]._inspect(cls_or_slf,None)", "                value = param_obj._inspect(cls_or_slf,None)"))
V("C13", "benign_value_generator_named_class_param", "benign", None, (Z, "                value = self_.cls.param[name].default", "                cls_param = self_.cls.param[name]\n                value = cls_param.default"))
V("C15", "serialize_value_returns_text_kept_on_value", "fire", "R15.i", (S, """        value = pobj.param.get_value_generator(pname)
        return cls.dumps(pobj.param[pname].serialize(value))""", """        value = pobj.param.get_value_generator(pname)
        text = getattr(value, '_param_json_text', None)
        if text is not None:
            return text
        return cls.dumps(pobj.param[pname].serialize(value))"""))
V("C15", "benign_serialize_value_two_steps", "benign", None, (S, """        value = pobj.param.get_value_generator(pname)
        return cls.dumps(pobj.param[pname].serialize(value))""", """        value = pobj.param.get_value_generator(pname)
        encoded = pobj.param[pname].serialize(value)
        return cls.dumps(encoded)"""))
V("C16", "nullable_keeps_sibling_keywords", "fire", "R16.d", (S, "    return {'anyOf': [ json_type, {'type': 'null'}] }", "    return dict(json_type, anyOf=[json_type, {'type': 'null'}])"))
V("C16", "benign_nullable_type_list", "benign", None, (S, "    return {'anyOf': [ json_type, {'type': 'null'}] }", "    return {'anyOf': [json_type, {'type': ['null']}]}"))
V("C16", "revalidation_skips_falsy_defaults", "fire", "R16.h", (Z, "        if type_change or slot_overridden and param.default is not None:", "        if type_change or slot_overridden and bool(param.default):"))
V("C01", "revalidation_skips_falsy_defaults", "fire", "R01.k", (Z, "        if type_change or slot_overridden and param.default is not None:", "        if type_change or slot_overridden and bool(param.default):"))
V("C01", "benign_revalidation_guard_distributed", "benign", None, (Z, "        if type_change or slot_overridden and param.default is not None:", "        if (type_change or slot_overridden) and (type_change or param.default is not None):"))
V("C17", "method_owner_unwraps_one_partial_first", "fire", "R17.h", (Z, """    if not inspect.ismethod(method):
        return None
    if isinstance(method, partial):
        method = method.func
    return method.__self__""", """    if isinstance(method, partial):
        method = method.func
    if not inspect.ismethod(method):
        return None
    return method.__self__"""))
V("C17", "benign_method_owner_unwraps_and_site_tests_ismethod", "benign", None, (Z, """    if not inspect.ismethod(method):
        return None
    if isinstance(method, partial):
        method = method.func
    return method.__self__""", """    while isinstance(method, partial):
        method = method.func
    if not inspect.ismethod(method):
        return None
    return method.__self__"""), (Z, "                        elif get_method_owner(fn) is watcher.inst:", "                        elif inspect.ismethod(fn) and get_method_owner(fn) is watcher.inst:"))
V("C18", "trigger_reads_names_before_mutation", "fire", "R18.i", (P, """        old = dict(self._parameter.names) or list(self._parameter._objects)
        yield
        if trigger:
            value = self._parameter.names or self._parameter._objects""", """        names = self._parameter.names
        old = dict(names) or list(self._parameter._objects)
        yield
        if trigger:
            value = names or self._parameter._objects"""))
V("C18", "benign_trigger_aliases_parameter_only", "benign", None, (P, """        trigger = 'objects' in self._parameter.watchers and trigger
        old = dict(self._parameter.names) or list(self._parameter._objects)
        yield
        if trigger:
            value = self._parameter.names or self._parameter._objects
            self._parameter._trigger_event('objects', old, value)""", """        parameter = self._parameter
        trigger = 'objects' in parameter.watchers and trigger
        old = dict(parameter.names) or list(parameter._objects)
        yield
        if trigger:
            value = parameter.names or parameter._objects
            parameter._trigger_event('objects', old, value)"""))
V("C19", "benign_time_sampled_restores_read_time", "benign", None, (N, """        current_time = self.time_fn()
        current_time += self.offset
        difference = current_time % self.period
        with self.time_fn as t:
            t(current_time - difference - self.offset)
            value = self.fn()
        return value""", """        now = self.time_fn()
        current_time = now + self.offset
        difference = current_time % self.period
        t = self.time_fn
        t(current_time - difference - self.offset)
        try:
            value = self.fn()
        finally:
            t(now)
        return value"""))
V("C19", "time_sampled_restores_shifted_time", "fire", "R19.e", (N, """        with self.time_fn as t:
            t(current_time - difference - self.offset)
            value = self.fn()
        return value""", """        t = self.time_fn
        t(current_time - difference - self.offset)
        value = self.fn()
        t(current_time - self.offset)
        return value"""))
V("C08", "trigger_writes_back_outside_syncing", "fire", "R08.g", (Z, """                with _syncing(self_.self, param_names):
                    self_.update(dict(params, **triggers))""", """                if True:
                    self_.update(dict(params, **triggers))"""))
V("C17", "setstate_recreates_watcher_per_list", "fire", "R17.i", (Z, """                        if id(watcher) in recreated:
                            new_watchers.append(recreated[id(watcher)])
                            continue
""", ""))
V("C17", "benign_setstate_memo_keyed_by_get", "benign", None, (Z, """                        if id(watcher) in recreated:
                            new_watchers.append(recreated[id(watcher)])
                            continue
""", """                        again = recreated.get(id(watcher))
                        if again is not None:
                            new_watchers.append(again)
                            continue
"""))

# ListProxy model
V("C18", "pop_by_key_removes_last_object", "fire", "R18.j", (P, """            object = self._parameter.names.pop(*args)
            super().remove(object)
            self._parameter._objects.remove(object)""", """            object = self._parameter.names.pop(*args)
            super().pop()
            self._parameter._objects.pop()"""))
V("C18", "rekey_existing_name_appends", "fire", "R18.j", (P, """                old = self._parameter.names[index]
                idx = self.index(old)
                super().__setitem__(idx, object)
                self._parameter._objects[idx] = object""", """                old = self._parameter.names[index]
                super().remove(old)
                self._parameter._objects.remove(old)
                super().append(object)
                self._parameter._objects.append(object)"""))
V("C18", "benign_pop_index_positional_rebuild", "benign", None, (P, """                if self._parameter.names:
                    self._parameter.names = {
                        k: v for k, v in self._parameter.names.items()
                        if v is not object
                    }
            return object""", """                if self._parameter.names:
                    items = list(self._parameter.names.items())
                    i = index if index >= 0 else len(items) + index
                    self._parameter.names = dict(items[:i] + items[i + 1:])
            return object"""))

# trigger model
V("C05", "trigger_drops_parked_events", "fire", "R05.t", (Z, """            self_._TRIGGER = False
            self_._events += events
""", """            self_._TRIGGER = False
"""))
V("C04", "trigger_merges_watchers_without_dedup", "fire", "R04.t", (Z, """            self_._state_watchers += [
                w for w in watchers
                if not any(w is queued for queued in self_._state_watchers)
            ]""", """            self_._state_watchers += watchers"""))
V("C03", "trigger_lowers_flag_before_update", "fire", "R03.t", (Z, """        self_._TRIGGER = True
        try:
            if self_.self is None:""", """        self_._TRIGGER = False
        try:
            if self_.self is None:"""))
V("C08", "trigger_syncs_no_names", "fire", "R08.t", (Z, "                with _syncing(self_.self, param_names):", "                with _syncing(self_.self, ()):"))
V("C04", "benign_trigger_merge_loop_form", "benign", None, (Z, """            self_._state_watchers += [
                w for w in watchers
                if not any(w is queued for queued in self_._state_watchers)
            ]""", """            for w in watchers:
                if not any(w is queued for queued in self_._state_watchers):
                    self_._state_watchers.append(w)"""))

# rx cache model
V("C09", "invalidate_current_keeps_clean_flag", "fire", "R09.i", (R, """            return
        self._dirty = True
        self._error_state = None

    def _invalidate_obj""", """            return
        self._error_state = None

    def _invalidate_obj"""))
V("C09", "resolve_returns_cache_while_root_dirty", "fire", "R09.i", (R, """        elif self._dirty or self._root._dirty_obj:
            try:
                obj = self._obj if self._prev is None else self._prev._resolve()""", """        elif self._dirty and not self._root._dirty_obj:
            try:
                obj = self._obj if self._prev is None else self._prev._resolve()"""))
V("C09", "benign_invalidate_current_positive_form", "benign", None, (R, """        if all(event.obj is self._trigger for event in events):
            return
        self._dirty = True
        self._error_state = None""", """        if not all(event.obj is self._trigger for event in events):
            self._dirty = True
            self._error_state = None"""))

# constructor model
V("C12", "ctor_copies_only_parameters_without_keyword", "fire", "R12.k", (Z, """            if p.instantiate and pname != "name":
                params_to_deepcopy[pname] = p""", """            if p.instantiate and pname != "name" and pname not in params:
                params_to_deepcopy[pname] = p"""))
V("C14", "ctor_pins_only_truthy_constants", "fire", "R14.k", (Z, """            elif p.constant and pname != 'name':
                params_to_ref[pname] = p""", """            elif p.constant and pname != 'name' and p.default:
                params_to_ref[pname] = p"""))
V("C08", "ctor_records_refs_only_when_assigned", "fire", "R08.k", (Z, """            if ref is not None:
                refs[name] = ref
                deps[name] = ref_deps
            if not is_async and not (resolved is Undefined or resolved is Skip):
                setattr(self, name, resolved)""", """            if not is_async and not (resolved is Undefined or resolved is Skip):
                setattr(self, name, resolved)
                if ref is not None:
                    refs[name] = ref
                    deps[name] = ref_deps"""))
V("C12", "benign_ctor_single_loop_two_lists", "benign", None, (Z, """        for p in params_to_deepcopy.values():
            self_._instantiate_param(p)
        for p in params_to_ref.values():
            self_._instantiate_param(p, deepcopy=False)""", """        for p in list(params_to_deepcopy.values()):
            self_._instantiate_param(p, deepcopy=True)
        for p in list(params_to_ref.values()):
            self_._instantiate_param(p, deepcopy=False)"""))

# link model
V("C08", "update_ref_keeps_entry_for_none", "fire", "R08.l", (Z, """        if ref is None:
            refs.pop(name, None)
        else:
            refs[name] = ref""", """        refs[name] = ref"""))
V("C08", "setup_refs_watcher_not_recorded_for_single_dependency", "fire", "R08.l", (Z, """            refnames, pnames = zip(*pnames)
            self_.self._param__private.ref_watchers.append((
                refnames,
                owner.param._watch(self_._sync_refs, list(set(pnames)), precedence=-1)
            ))""", """            refnames, pnames = zip(*pnames)
            watcher = owner.param._watch(self_._sync_refs, list(set(pnames)), precedence=-1)
            if len(refnames) > 1:
                self_.self._param__private.ref_watchers.append((refnames, watcher))"""))
V("C10", "update_ref_cancels_without_deregistering", "fire", "R10.l", (Z, """        if name in param_private.async_refs:
            param_private.async_refs.pop(name).cancel()
        for _, watcher in param_private.ref_watchers:""", """        if name in param_private.async_refs:
            param_private.async_refs[name].cancel()
        for _, watcher in param_private.ref_watchers:"""))
V("C08", "benign_update_ref_unwatch_via_helper_variable", "benign", None, (Z, """        for _, watcher in param_private.ref_watchers:
            dep_obj = watcher.cls if watcher.inst is None else watcher.inst
            dep_obj.param.unwatch(watcher)""", """        for entry in list(param_private.ref_watchers):
            watcher = entry[1]
            dep_obj = watcher.inst if watcher.inst is not None else watcher.cls
            dep_obj.param.unwatch(watcher)"""))

# namespace model
V("C13", "cache_patched_in_place_for_subclasses_without_own_entry", "fire", "R13.h", (Z, """        for cls in descendents(mcs):
            private = cls.__dict__.get('_param__private')
            if private is not None:
                private.params = {}""", """        for cls in descendents(mcs):
            private = cls.__dict__.get('_param__private')
            if private is not None and (cls is mcs or not private.params):
                private.params = {}"""))
V("C13", "benign_cls_parameters_dict_comprehension", "benign", None, (Z, """        paramdict = {}
        for class_ in classlist(cls):
            for name, val in class_.__dict__.items():
                if isinstance(val, Parameter):
                    paramdict[name] = val
""", """        paramdict = {}
        for class_ in classlist(cls):
            paramdict.update({name: val for name, val in class_.__dict__.items() if isinstance(val, Parameter)})
"""))

# ----------------------------------------------------------------- round d rules
V("C13", "benign_edit_constant_merges_into_a_copy", "benign", None, (Z, "    for pname, pobj in (kls_params | inst_params).items():", "    merged = dict(parameterized.param.objects(instance=False))\n    merged.update(inst_params)\n    for pname, pobj in merged.items():"))
V("C13", "edit_constant_merges_into_the_memo", "fire", "R13.f", (Z, "    for pname, pobj in (kls_params | inst_params).items():", "    merged = parameterized.param.objects(instance=False)\n    merged.update(inst_params)\n    for pname, pobj in merged.items():"))
V("C14", "benign_as_uninitialized_try_finally", "benign", None, (Z, """        ret = fn(self_, *args, **kw)
        parameterized_instance._param__private.initialized = original_initialized
        return ret""", """        try:
            return fn(self_, *args, **kw)
        finally:
            parameterized_instance._param__private.initialized = original_initialized"""))
V("C14", "as_uninitialized_always_marks_initialized", "fire", "R14.l", (Z, """        parameterized_instance._param__private.initialized = original_initialized
        return ret""", """        parameterized_instance._param__private.initialized = True
        return ret"""))
V("C17", "benign_parameter_deepcopy_hook_copies_everything", "benign", None, (Z, """    def __setstate__(self,state):
        # set values of __slots__ (instead of in non-existent __dict__)
        for k, v in state.items():
            setattr(self, k, v)
""", """    def __setstate__(self,state):
        # set values of __slots__ (instead of in non-existent __dict__)
        for k, v in state.items():
            setattr(self, k, v)

    def __deepcopy__(self, memo):
        new = self.__class__.__new__(self.__class__)
        memo[id(self)] = new
        state = copy.deepcopy(self.__getstate__(), memo)
        new.__setstate__(state)
        return new
"""))
V("C19", "benign_hash_setstate_reads_restored_name", "benign", None, (N, """        name, input_count = d['name'], d['input_count']
        self._digest.update(name.encode())""", """        input_count = d['input_count']
        self._digest.update(d['name'].encode())"""))
V("C19", "hash_setstate_forgets_name", "fire", "R19.g", (N, """        name, input_count = d['name'], d['input_count']
        self._digest.update(name.encode())""", """        name, input_count = d['name'], d['input_count']"""))
V("C19", "generator_stacks_from_shared_default_argument", "fire", "R19.f", (P, """        gen._saved_Dynamic_last = []
        gen._saved_Dynamic_time = []""", """        gen._saved_Dynamic_last = gen._saved_Dynamic_time = []"""))
V("C16", "benign_integer_schema_passes_safe", "benign", None, (S, """    def integer_schema(cls, p, safe=False):
        return cls.number_schema(p)""", """    def integer_schema(cls, p, safe=False):
        schema = cls.number_schema(p, safe=safe)
        return schema"""))
V("C16", "number_schema_drops_upper_bound_for_exclusive", "fire", "R16.i", (S, """    def integer_schema(cls, p, safe=False):
        return cls.number_schema(p)""", """    def integer_schema(cls, p, safe=False):
        schema = cls.number_schema(p)
        schema.pop('exclusiveMaximum', None)
        return schema"""))
V("C15", "benign_tuple_deserialize_explicit_loop", "benign", None, (P, """        return tuple(value) # As JSON has no tuple representation
""", """        return tuple(v for v in value)
"""))
V("C12", "benign_instantiate_inheritance_reordered", "benign", None, (Z, """            if super_param.instantiate is True:
                param.instantiate = True
            super_type = type(super_param)
            if not issubclass(super_type, p_type):
                type_change = True""", """            super_type = type(super_param)
            if not issubclass(super_type, p_type):
                type_change = True
            if super_param.instantiate is True:
                param.instantiate = True"""))
V("C03", "benign_changed_predicate_named_values", "benign", None, (Z, "        return not Comparator.is_equal(event.old, event.new)", "        old, new = event.old, event.new\n        return not Comparator.is_equal(old, new)"))
V("C09", "where_y_branch_checks_identity_with_false", "fire", "R09.j", (R, """                if not self.value:
                    trigger.param.trigger('value')""", """                if self.value is False:
                    trigger.param.trigger('value')"""))

# context-manager model
V("C05", "benign_discard_events_restores_in_place", "benign", None, (Z, """        parameterized.param._state_watchers = watchers
        parameterized.param._events = events
""", """        parameterized.param._state_watchers[:] = watchers
        parameterized.param._events[:] = events
"""))
V("C05", "discard_events_restores_flag_only", "fire", "R05.x", (Z, """        parameterized.param._BATCH_WATCH = batch_watch
        parameterized.param._state_watchers = watchers
        parameterized.param._events = events
""", """        parameterized.param._BATCH_WATCH = batch_watch
"""))
V("C14", "edit_constant_relocks_by_name_only", "fire", "R14.x", (Z, """            pobj.constant = True
            # Some operations trigger a parameter instantiation (copy),""", """            # Some operations trigger a parameter instantiation (copy),"""))
V("C04", "batch_cm_flushes_even_when_nested", "fire", "R04.x", (Z, """        parameterized.param._BATCH_WATCH = BATCH_WATCH
        if run and not BATCH_WATCH:
            parameterized.param._batch_call_watchers()""", """        parameterized.param._BATCH_WATCH = BATCH_WATCH
        if run:
            parameterized.param._batch_call_watchers()"""))
V("C08", "syncing_restores_to_empty_set", "fire", "R08.x", (Z, """    finally:
        parameterized._param__private.syncing = old
""", """    finally:
        parameterized._param__private.syncing = set()
"""))
V("C05", "benign_discard_events_tuple_restore", "benign", None, (Z, """        parameterized.param._state_watchers = watchers
        parameterized.param._events = events
""", """        parameterized.param._state_watchers, parameterized.param._events = watchers, events
"""))

# async model
V("C10", "async_ref_cleanup_removes_any_registration", "fire", "R10.y", (Z, """            if self_.self._param__private.async_refs.get(pname) is current_task:
                del self_.self._param__private.async_refs[pname]""", """            if pname in self_.self._param__private.async_refs:
                del self_.self._param__private.async_refs[pname]"""))
V("C10", "async_ref_applies_result_in_finally", "fire", "R10.y", (Z, """                try:
                    new_obj = await awaitable
                except Skip:
                    pass
                else:
                    with _syncing(self_.self, (pname,)):
                        try:
                            self_.update({pname: new_obj})
                        except Skip:
                            pass""", """                new_obj = Undefined
                try:
                    new_obj = await awaitable
                except Skip:
                    pass
                except BaseException:
                    new_obj = self_.self._param__private.values.get(pname, Undefined)
                    raise
                finally:
                    if new_obj is not Undefined:
                        with _syncing(self_.self, (pname,)):
                            self_.update({pname: new_obj})"""))
V("C10", "benign_async_ref_skip_flag", "benign", None, (Z, """                try:
                    new_obj = await awaitable
                except Skip:
                    pass
                else:
                    with _syncing(self_.self, (pname,)):
                        try:
                            self_.update({pname: new_obj})
                        except Skip:
                            pass""", """                skipped = False
                try:
                    new_obj = await awaitable
                except Skip:
                    skipped = True
                if not skipped:
                    with _syncing(self_.self, (pname,)):
                        try:
                            self_.update({pname: new_obj})
                        except Skip:
                            pass"""))

# ======================================================================= C11
V("C11", "merge_takes_farthest_ancestor", "fire", "R11.a", (Z, "        supers = classlist(mcs)[::-1]", "        supers = classlist(mcs)[:-1] + [mcs]"))
V("C11", "revalidation_only_on_type_change", "fire", "R11.a", (Z, "        if type_change or slot_overridden and param.default is not None:", "        if type_change and param.default is not None:"))
V("C11", "inherited_container_not_copied", "fire", "R11.a", (Z, """                if _is_mutable_container(v):
                    setattr(param, slot, copy.copy(v))

        # Once all the static slots""", """                if _is_mutable_container(v) and False:
                    setattr(param, slot, copy.copy(v))

        # Once all the static slots"""))
V("C11", "add_parameter_skips_merge", "fire", "R11.b", (Z, "        ParameterizedMetaclass._initialize_parameter(cls, param_name, param_obj)", "        param_obj._set_names(param_name)"))
V("C11", "revalidation_skips_falsy_defaults", "fire", "R11.*", (Z, "        if type_change or slot_overridden and param.default is not None:", "        if type_change or slot_overridden and bool(param.default):"))
V("C11", "benign_revalidation_guard_distributed", "benign", None, (Z, "        if type_change or slot_overridden and param.default is not None:", "        if (type_change or slot_overridden) and (type_change or param.default is not None):"))
V("C11", "benign_slot_search_named_missing", "benign", None, (Z, """                new_param = scls.__dict__.get(param_name)
                if new_param is None or not hasattr(new_param, slot):
                    continue""", """                new_param = scls.__dict__.get(param_name)
                missing = new_param is None or not hasattr(new_param, slot)
                if missing:
                    continue"""))

V("C09", "resolve_accessor_clears_method_on_operand", "fire", "R09.k", (R, """        new = self._clone(copy=True)
        new._method = None
        return new._clone(operation)""", """        self._method = None
        return self._clone(operation)"""))

# ======================================================================= C06
_TAB = """                if (not any(dep[0] == w[0] for w in _watch+_inherited)
                    and dinfo.get('watch')):
                    _inherited.append(dep)
"""
V("C06", "inherited_entries_not_deduplicated", "fire", "R06.a", (Z, _TAB, """                if dinfo.get('watch'):
                    _inherited.append(dep)
"""))
V("C06", "dedup_only_against_own_methods", "fire", "R06.a", (Z, _TAB, """                if (not any(dep[0] == w[0] for w in _watch)
                    and dinfo.get('watch')):
                    _inherited.append(dep)
"""))
V("C06", "undecorated_override_keeps_registration", "fire", "R06.a", (Z, _TAB, """                if not any(dep[0] == w[0] for w in _watch+_inherited):
                    _inherited.append(dep)
"""))
V("C06", "farthest_ancestor_entry_wins", "fire", "R06.a", (Z, "        for cls in classlist(mcs)[:-1][::-1]:\n            if not hasattr(cls, '_param__parameters'):", "        for cls in classlist(mcs)[:-1]:\n            if not hasattr(cls, '_param__parameters'):"))
V("C06", "own_nonwatching_methods_registered", "fire", "R06.a", (Z, """            if watch:
                _watch.append((name, watch == 'queued', on_init, deps, dynamic_deps))""", """            if dinfo is not None:
                _watch.append((name, watch == 'queued', on_init, deps, dynamic_deps))"""))
V("C06", "constant_groups_ignore_what", "fire", "R06.b", (Z, "                    constant_grouped[(id(dep.inst), id(dep.cls), dep.what)].append((None, dep))", "                    constant_grouped[(id(dep.inst), id(dep.cls))].append((None, dep))"))
V("C06", "one_watcher_per_dependency", "fire", "R06.b", (Z, """                for group in constant_grouped.values():
                    self_._watch_group(obj, method, queued, group)""", """                for group in constant_grouped.values():
                    for member in group:
                        self_._watch_group(obj, method, queued, [member])"""))
V("C06", "on_init_called_per_entry", "fire", "R06.b", (Z, """                if on_init and m not in init_methods:
                    init_methods.append(m)""", """                if on_init and m not in init_methods:
                    init_methods.append(m)
                    m()"""))
V("C06", "construction_does_not_install", "fire", "R06.c", (Z, "        self.param._update_deps(init=True)", "        self.param._update_deps()"))
V("C06", "benign_dedup_order_swapped", "benign", None, (Z, _TAB, """                if (dinfo.get('watch')
                        and not any(dep[0] == w[0] for w in _inherited+_watch)):
                    _inherited.append(dep)
"""))
V("C06", "benign_dedup_by_name_list", "benign", None, (Z, _TAB, """                taken = [w[0] for w in _watch] + [w[0] for w in _inherited]
                if dep[0] not in taken and dinfo.get('watch'):
                    _inherited.append(dep)
"""))
V("C06", "benign_on_init_collected_after_loop", "benign", None, (Z, """                m = getattr(self_.self, method)
                if on_init and m not in init_methods:
                    init_methods.append(m)""", """                if on_init:
                    m = getattr(self_.self, method)
                    if m not in init_methods:
                        init_methods.append(m)"""))

# ======================================================================= C07
_WG = """        subparams, callback, what = {}, None, param_dep.what
        for dynamic_dep, g in group:
            if dynamic_dep is None:
                subps, cb, dep_what = None, None, g.what
            else:
                subps, cb, dep_what = self_._resolve_dynamic_deps(
                    obj, dynamic_dep, g, attribute)
            callback = callback or cb
            if subps is None:
                subparams[g.name] = None
            elif subparams.get(g.name, []) is not None:
                subparams.setdefault(g.name, []).extend((sp, dep_what) for sp in subps)
        if all(subps is None for subps in subparams.values()):
            subparams = None
"""
V("C07", "filter_from_first_dependency_only", "fire", "R07.a", (Z, _WG, """        dynamic_dep = group[0][0]
        if dynamic_dep is None:
            subparams, callback, what = None, None, param_dep.what
        else:
            subparams, callback, what = self_._resolve_dynamic_deps(
                obj, dynamic_dep, param_dep, attribute)
"""))
V("C07", "callback_of_last_dependency", "fire", "R07.a", (Z, "            callback = callback or cb\n", "            callback = cb\n"))
V("C07", "leaf_dependency_does_not_veto_skip", "fire", "R07.a", (Z, """            if subps is None:
                subparams[g.name] = None
            elif subparams.get(g.name, []) is not None:""", """            if subps is None:
                subparams.setdefault(g.name, [])
            elif subparams.get(g.name, []) is not None:"""))
V("C07", "skip_event_ignores_unfiltered_events", "fire", "R07.a", (Z, """            subparams = changed.get(e.name)
            if subparams is None:
                return False""", """            subparams = changed.get(e.name)
            if subparams is None:
                continue"""))
V("C07", "skip_event_compares_values_for_slots", "fire", "R07.a", (Z, """        for p, what in subparams:
            if what == 'value':""", """        for p, what in subparams:
            if what in ('value', 'bounds'):"""))
V("C07", "no_callback_below_first_level", "fire", "R07.a", (Z, "        if depth > 0:\n            def callback(*events):", "        if depth > 1:\n            def callback(*events):"))
V("C07", "param_spec_compares_nothing", "fire", "R07.a", (Z, "            subparams = ['.'.join(path[:-1] + [sp]) for sp in list(subobjs[-1].param)]", "            subparams = []"))
V("C07", "old_watchers_unwatched_on_parent", "fire", "R07.b", (Z, "                    (w.cls if w.inst is None else w.inst).param.unwatch(w)", "                    obj.param.unwatch(w)"))
V("C07", "old_watchers_stay_recorded", "fire", "R07.b", (Z, "                replaced = obj._param__private.dynamic_watchers.pop(method, [])", "                replaced = list(obj._param__private.dynamic_watchers.get(method, []))"))
V("C07", "new_watchers_not_recorded", "fire", "R07.b", (Z, """                watcher = self_._watch_group(obj, method, queued, group, attribute)
                obj._param__private.dynamic_watchers[method].append(watcher)""", """                watcher = self_._watch_group(obj, method, queued, group, attribute)
                if init:
                    obj._param__private.dynamic_watchers[method].append(watcher)"""))
V("C07", "setter_does_not_rebind", "fire", "R07.c", (Z, """                return
            obj.param._update_deps(name)
""", """                return
"""))
V("C07", "benign_params_collected_in_same_loop", "benign", None, (Z, """        params = []
        for _, g in group:
            if g.name not in params:
                params.append(g.name)

        # Every dependency of the group contributes the sub-parameters
        # to compare when the parameter it watches is replaced
        subparams, callback, what = {}, None, param_dep.what
        for dynamic_dep, g in group:
""", """        params = []
        subparams, callback, what = {}, None, param_dep.what
        for dynamic_dep, g in group:
            if g.name not in params:
                params.append(g.name)
"""))
V("C07", "benign_skip_event_membership_test", "benign", None, (Z, """            subparams = changed.get(e.name)
            if subparams is None:
                return False""", """            subparams = changed[e.name] if e.name in changed else None
            if subparams is None:
                return False"""))
V("C07", "benign_path_split_strips_slot_first", "benign", None, (Z, "        for subpath in dynamic_dep.spec.split('.')[:-1]:", "        for subpath in dynamic_dep.spec.split(':')[0].split('.')[:-1]:"))
V("C07", "benign_callback_first_not_none", "benign", None, (Z, "            callback = callback or cb\n", "            if callback is None:\n                callback = cb\n"))
V("C06", "diamond_takes_entry_an_ancestor_inherited", "fire", "R06.a", (Z, """                if dep[0] not in cls.__dict__:
                    continue
""", ""))
V("C07", "rebind_reinstalls_only_the_changed_root", "fire", "R07.b", (Z, """            for ddep in dynamic:
                for dep in _resolve_mcs_deps(obj, [], [ddep]):""", """            for ddep in affected:
                for dep in _resolve_mcs_deps(obj, [], [ddep]):"""))
V("C07", "param_spec_below_first_level_compares_namespaces", "fire", "R07.a", (Z, "            subparams = ['.'.join(path[:-1] + [sp]) for sp in list(subobjs[-1].param)]", "            subparams = ['.'.join(path)] if len(path) > 1 else [sp for sp in list(subobjs[-1].param)]"))
V("C07", "benign_rebind_pops_only_when_affected_nonempty", "benign", None, (Z, """            elif affected:
                # All dynamic watchers""", """            elif len(affected) > 0:
                # All dynamic watchers"""))
V("C06", "on_init_runs_inside_the_installation_loop", "fire", "R06.b", (Z, """                if on_init and m not in init_methods:
                    init_methods.append(m)""", """                if on_init and m not in init_methods:
                    init_methods.append(m)
                    m()""", ), (Z, """        for m in init_methods:
            m()

    def _resolve_dynamic_deps""", """
    def _resolve_dynamic_deps"""))

# ======================================================================= round f rules
V("C01", "tuple_length_skipped_for_falsy_values", "fire", "R01.h", (P, "        if val is None and self.allow_None:\n            return\n\n        if not len(val) == length:", "        if not val and self.allow_None:\n            return\n\n        if not len(val) == length:"))
V("C01", "benign_tuple_length_none_test_reordered", "benign", None, (P, "        if val is None and self.allow_None:\n            return\n\n        if not len(val) == length:", "        if self.allow_None and val is None:\n            return\n\n        if len(val) != length:"))
V("C01", "update_skips_equal_values", "fire", "R01.u", (Z, """                    raise ValueError(f"{k!r} is not a parameter of {self_.cls.__name__}")
                setattr(self_or_cls, k, v)""", """                    raise ValueError(f"{k!r} is not a parameter of {self_.cls.__name__}")
                if k in restore and Comparator.is_equal(restore[k], v):
                    continue
                setattr(self_or_cls, k, v)"""))
V("C02", "composite_post_setter_rejects", "fire", "R02.p", (P, """    def _post_setter(self, obj, val):
        if obj is None:
            for a, v in zip(self.attribs, val):""", """    def _post_setter(self, obj, val):
        if len(val) != len(self.attribs):
            raise ValueError("wrong number of values")
        if obj is None:
            for a, v in zip(self.attribs, val):"""))
V("C03", "identical_slot_value_not_announced", "fire", "R03.v", (Z, "        if has_watcher and old is not NotImplemented:", "        if has_watcher and old is not NotImplemented and old is not value:"))
V("C03", "benign_slot_sentinel_renamed", "benign", None, (Z, """        old = getattr(self, attribute, NotImplemented)
        if is_slot:""", """        unset = NotImplemented
        old = getattr(self, attribute, unset)
        if is_slot:"""), (Z, "        if has_watcher and old is not NotImplemented:", "        if has_watcher and old is not unset:"))
V("C03", "watch_values_drops_queued", "fire", "R03.w", (Z, """                          mode='kwargs', onlychanged=onlychanged,
                          parameter_names=parameter_names, what=what,
                          queued=queued, precedence=precedence)""", """                          mode='kwargs', onlychanged=onlychanged,
                          parameter_names=parameter_names, what=what,
                          queued=False, precedence=precedence)"""))
V("C03", "watch_drops_onlychanged", "fire", "R03.w", (Z, "        watcher = Watcher(inst=self_.self, cls=self_.cls, fn=fn, mode='args',\n                          onlychanged=onlychanged,", "        watcher = Watcher(inst=self_.self, cls=self_.cls, fn=fn, mode='args',\n                          onlychanged=True,"))
V("C04", "pending_equal_event_not_queued_again", "fire", "R04.s", (Z, """        # Copy watchers here since they may be modified inplace during iteration
        for watcher in sorted(watchers, key=lambda w: w.precedence):
            obj.param._call_watcher(watcher, event)""", """        if obj.param._BATCH_WATCH and event in obj.param._events:
            return
        # Copy watchers here since they may be modified inplace during iteration
        for watcher in sorted(watchers, key=lambda w: w.precedence):
            obj.param._call_watcher(watcher, event)"""))
V("C07", "setter_rebinds_only_for_parameterized_values", "fire", "R07.s", (Z, """                return
            obj.param._update_deps(name)
""", """                return
            if val is not None:
                obj.param._update_deps(name)
"""))
V("C07", "benign_partial_resolution_one_step_then_recursion", "benign", None, (Z, "                    while sub_src is None and subpath:\n                        subpath = subpath[:-1]", "                    if sub_src is None and subpath:\n                        subpath = subpath[:-1]"))
V("C08", "constant_sources_resolved_once", "fire", "R08.v", (Z, """            value = None
        return ref, deps, value, is_async""", """            value = None
        elif deps and all(dep.constant for dep in deps):
            return None, None, value, False
        return ref, deps, value, is_async"""))
V("C09", "rx_value_setter_keeps_callers_object", "fire", "R09.v", (R, "        self._reactive._wrapper.object = resolve_value(new)", "        self._reactive._wrapper.object = new"))
V("C09", "benign_rx_value_setter_local", "benign", None, (R, "        self._reactive._wrapper.object = resolve_value(new)", "        resolved = resolve_value(new)\n        self._reactive._wrapper.object = resolved"))
V("C10", "async_link_not_restarted_while_syncing", "fire", "R10.s", (Z, """                continue

            try:
                new_val = resolve_value(ref, recursive)""", """                continue
            if is_async and pname in self_.self._param__private.syncing:
                continue

            try:
                new_val = resolve_value(ref, recursive)"""))
V("C11", "selector_allow_none_left_undefined", "fire", "R11.d", (P, """        if allow_None is Undefined:
            self.allow_None = self._slot_defaults['allow_None']
        else:
            self.allow_None = allow_None
        if self.default is not None:
            self._validate_value(self.default)""", """        self.allow_None = allow_None
        if self.default is not None:
            self._validate_value(self.default)"""))
V("C11", "benign_selector_allow_none_branches_swapped", "benign", None, (P, """        if allow_None is Undefined:
            self.allow_None = self._slot_defaults['allow_None']
        else:
            self.allow_None = allow_None
        if self.default is not None:
            self._validate_value(self.default)""", """        if allow_None is not Undefined:
            self.allow_None = allow_None
        else:
            self.allow_None = self._slot_defaults['allow_None']
        if self.default is not None:
            self._validate_value(self.default)"""))
V("C12", "self_or_cls_by_truthiness", "fire", "R12.v", (Z, "        return self_.cls if self_.self is None else self_.self", "        return self_.self or self_.cls"))
V("C12", "benign_self_or_cls_positive_test", "benign", None, (Z, "        return self_.cls if self_.self is None else self_.self", "        return self_.self if self_.self is not None else self_.cls"))
V("C12", "set_default_through_parameter_set", "fire", "R12.w", (Z, "        cls = self_.cls\n        setattr(cls,param_name,value)", "        self_.cls.param[param_name].__set__(None, value)"))
V("C13", "namespace_attribute_memoised", "fire", "R13.i", (Z, "        if attr in self_._cls_parameters:\n            return self_.__getitem__(attr)", "        if attr in self_._cls_parameters:\n            p = self_.__dict__[attr] = self_.__getitem__(attr)\n            return p"))
V("C13", "descendents_from_primary_base_only", "fire", "R13.j", ("param/_utils.py", "            if b not in q and b not in out:\n                q.append(b)", "            if b.__base__ is x:\n                q.append(b)"))
V("C13", "benign_descendents_truthiness_loop", "benign", None, ("param/_utils.py", "    while len(q):\n        x = q.pop(0)", "    while q:\n        x = q.pop(0)"))
V("C14", "getitem_instance_by_truthiness", "fire", "R14.v", (Z, "        inst = self_.self\n        if inst is None:\n            return self_._cls_parameters[key]", "        inst = self_.self\n        if not inst:\n            return self_._cls_parameters[key]"))
V("C16", "computed_default_not_added_to_objects", "fire", "R16.s", (P, "            self.default = self.compute_default_fn()\n            self._ensure_value_is_in_objects(self.default)", "            self.default = self.compute_default_fn()\n            self._update_state()"))
V("C18", "computed_default_not_added_to_objects", "fire", "R18.s", (P, "            self.default = self.compute_default_fn()\n            self._ensure_value_is_in_objects(self.default)", "            self.default = self.compute_default_fn()\n            self._update_state()"))
V("C18", "benign_listselector_compute_default_uses_helper", "benign", None, (P, """            for o in self.default:
                if o not in self.objects:
                    self.objects.append(o)

    def _validate(self, val):""", """            for o in self.default:
                self._ensure_value_is_in_objects(o)

    def _validate(self, val):"""))
V("C18", "objects_setter_skips_equal_mapping", "fire", "R18.o", (P, """        if isinstance(objects, collections.abc.Mapping):
            self.names = objects
            self._objects = list(objects.values())""", """        if isinstance(objects, collections.abc.Mapping):
            if objects and objects == getattr(self, 'names', None):
                return
            self.names = objects
            self._objects = list(objects.values())"""))
V("C18", "benign_objects_setter_comprehension", "benign", None, (P, "            self.names = objects\n            self._objects = list(objects.values())", "            self.names = objects\n            self._objects = [v for v in objects.values()]"))
V("C19", "force_writes_value_without_time", "fire", "R19.w", (P, "            return self._produce_value(gen,force=True)\n        else:\n            return gen", "            value = gen._Dynamic_last = _produce_value(gen)\n            return value\n        else:\n            return gen"))
V("C17", "produce_value_pins_clock_on_generator", "fire", "R17.w", (P, "        else:\n            time_fn = self.time_fn\n", "        else:\n            time_fn = gen._Dynamic_time_fn = self.time_fn\n"))
V("C19", "time_fn_asked_of_the_class", "fire", "R19.t", (Z, "                if p._value_is_dynamic(*a):\n                    g = self_or_cls.param.get_value_generator(n)", "                if p._value_is_dynamic(None, self_.cls):\n                    g = self_or_cls.param.get_value_generator(n)"))
V("C19", "benign_time_fn_args_inline", "benign", None, (Z, """        if isinstance(self_or_cls,type):
            a = (None,self_or_cls)
        else:
            a = (self_or_cls,)
""", """        a = (None,self_or_cls) if isinstance(self_or_cls,type) else (self_or_cls,)
"""))
V("C07", "partial_resolution_from_direct_parent_only", "fire", "R07.d", (Z, """                    sub_src = None
                    subpath = path
                    while sub_src is None and subpath:
                        subpath = subpath[:-1]
                        sub_src = _getattrr(self_.self_or_cls, '.'.join(subpath), None)
                    if subpath:
                        subdeps, _ = self_._spec_to_obj(
                            '.'.join(path[:len(subpath)+1]), dynamic, intermediate)
                        deps += subdeps""", """                    subpath = path[:-1]
                    sub_src = _getattrr(self_.self_or_cls, '.'.join(subpath), None) if subpath else None
                    if sub_src is not None:
                        subdeps, _ = self_._spec_to_obj(
                            '.'.join(path), dynamic, intermediate)
                        deps += subdeps"""))
V("C08", "dynamic_state_attached_to_reference", "fire", "R08.y", (P, """        if dynamic and obj is not None and self.name in obj._param__private.refs:
            # val was taken as a reference: the value in force is what
            # it resolves to (nothing new while it is still pending)
            val = obj._param__private.values.get(self.name)
            dynamic = callable(val) and not hasattr(val, '_Dynamic_last')
""", ""))
V("C02", "dynamic_state_attached_to_reference", "fire", "R02.d", (P, """        if dynamic and obj is not None and self.name in obj._param__private.refs:
            # val was taken as a reference: the value in force is what
            # it resolves to (nothing new while it is still pending)
            val = obj._param__private.values.get(self.name)
            dynamic = callable(val) and not hasattr(val, '_Dynamic_last')
""", ""))
V("C13", "class_level_parameter_not_named", "fire", "R13.h", (Z, "                mcs._clear_params_cache()\n                mcs._initialize_parameter(attribute_name,value)", "                mcs._clear_params_cache()\n                mcs.__param_inheritance(attribute_name,value)"))
V("C09", "invalidation_shares_consumer_precedence", "fire", "R09.p", (R, "params[0].owner.param._watch(self._invalidate_current, [p.name for p in params], precedence=-2)", "params[0].owner.param._watch(self._invalidate_current, [p.name for p in params], precedence=-1)"))
V("C08", "invalidation_shares_consumer_precedence", "fire", "R08.p", (R, "params[0].owner.param._watch(self._invalidate_obj, fps, precedence=-2)", "params[0].owner.param._watch(self._invalidate_obj, fps, precedence=-1)"))
V("C09", "benign_invalidation_even_earlier", "benign", None, (R, "params[0].owner.param._watch(self._invalidate_obj, fps, precedence=-2)", "params[0].owner.param._watch(self._invalidate_obj, fps, precedence=-5)"))

# ======================================================================= round h rules
U = "param/_utils.py"
D = "param/depends.py"
V("C01", "list_items_checked_first_only", "fire", "R01.i", (P, "        err_kind = None\n        for v in val:\n            if is_instance and not isinstance(v, item_type):", "        err_kind = None\n        for v in val[:1]:\n            if is_instance and not isinstance(v, item_type):"))
V("C01", "benign_list_item_class_test_rewritten", "benign", None, (P, "            elif not is_instance and (type(v) is not type or not issubclass(v, item_type)):", "            elif not is_instance and not (type(v) is type and issubclass(v, item_type)):"))
V("C01", "constructor_skips_restated_default", "fire", "R01.o", (Z, """            pobj = objects.get(name)
            if pobj is None or not pobj.allow_refs:""", """            pobj = objects.get(name)
            if pobj is not None and val is pobj.default and not (pobj.instantiate or pobj.constant):
                continue
            if pobj is None or not pobj.allow_refs:"""))
V("C02", "link_setup_rejects_self_reference", "fire", "R02.q", (Z, """                if isinstance(p, Parameter):
                    groups[p.owner].append((pname, p.name))""", """                if isinstance(p, Parameter):
                    if p.owner is self_.self and p.name == pname:
                        raise ValueError("self reference")
                    groups[p.owner].append((pname, p.name))"""))
V("C03", "kwargs_watchers_get_live_values", "fire", "R03.y", (Z, "            args, kwargs = (), {event.name: event.new for event in events}", "            args, kwargs = (), {event.name: getattr(self.self_or_cls, event.name) for event in events}"))
V("C03", "benign_kwargs_comprehension_renamed", "benign", None, (Z, "            args, kwargs = (), {event.name: event.new for event in events}", "            args, kwargs = (), {e.name: e.new for e in events}"))
V("C03", "is_equal_requires_same_concrete_type", "fire", "R03.z", (Z, "    def is_equal(cls, obj1, obj2):\n        equals = cls.equalities.copy()", "    def is_equal(cls, obj1, obj2):\n        if type(obj1) is not type(obj2):\n            return False\n        equals = cls.equalities.copy()"))
V("C04", "queue_setter_replaces_in_place", "fire", "R04.q", (Z, "        self_.self_or_cls._param__private.parameters_state['events'] = value", "        self_.self_or_cls._param__private.parameters_state['events'][:] = value"))
V("C06", "function_form_one_watcher_per_dependency", "fire", "R06.f", (D, "            grouped[id(dep.owner)].append(dep)", "            grouped[(id(dep.owner), dep.name)].append(dep)"))
V("C06", "benign_function_form_loop_variable_renamed", "benign", None, (D, "        for dep in deps:\n            grouped[id(dep.owner)].append(dep)", "        for d_ in deps:\n            grouped[id(d_.owner)].append(d_)"))
V("C06", "method_dependencies_deduplicated_by_name", "fire", "R06.r", (Z, "                deps += method_deps\n", "                deps += [p for p in method_deps if p.name not in [d_.name for d_ in deps]]\n"))
V("C08", "benign_method_reference_owner_rebound_within_one_spec", "benign", None, (Z, "                    for attr in path[:-1]:\n                        arg = getattr(arg, attr)\n                    arg = arg.param[path[-1]]", "                    for attr in path[:-1]:\n                        owner = arg = getattr(arg, attr)\n                    arg = arg.param[path[-1]]"))
V("C08", "await_inside_syncing", "fire", "R08.z", (Z, """                try:
                    new_obj = await awaitable
                except Skip:
                    pass
                else:
                    with _syncing(self_.self, (pname,)):
                        try:
                            self_.update({pname: new_obj})
                        except Skip:
                            pass
""", """                with _syncing(self_.self, (pname,)):
                    try:
                        self_.update({pname: await awaitable})
                    except Skip:
                        pass
"""))
V("C09", "full_groupby_consecutive_runs_only", "fire", "R09.q", (U, """    d = defaultdict(list)
    for item in l:
        d[key(item)].append(item)
    return d.items()""", """    import itertools
    return {k: list(g) for k, g in itertools.groupby(l, key)}.items()"""))
V("C10", "trigger_guards_only_objects_with_source_watchers", "fire", "R10.t", (Z, "            if self_.self is None:\n                self_.update(dict(params, **triggers))", "            if self_.self is None or not self_.self._param__private.ref_watchers:\n                self_.update(dict(params, **triggers))"))
V("C11", "allow_none_exempt_from_revalidation", "fire", "R11.e", (Z, "                            'watchers', 'owner']", "                            'watchers', 'owner', 'allow_None']"))
V("C11", "magnitude_materialises_bounds", "fire", "R11.f", (P, """                 inclusive_bounds=Undefined, step=Undefined, set_hook=Undefined, **params):
        super().__init__(
            default=default, bounds=bounds, softbounds=softbounds,""", """                 inclusive_bounds=Undefined, step=Undefined, set_hook=Undefined, **params):
        if bounds is Undefined:
            bounds = self._slot_defaults['bounds']
        super().__init__(
            default=default, bounds=bounds, softbounds=softbounds,"""))
V("C12", "mutable_container_exact_builtin_types", "fire", "R12.u", (U, "    return isinstance(value, MUTABLE_TYPES)", "    return type(value) in (list, dict, set)"))
V("C12", "benign_mutable_container_types_inline", "benign", None, (U, "    return isinstance(value, MUTABLE_TYPES)", "    return isinstance(value, (abc.MutableSequence, abc.MutableSet, abc.MutableMapping))"))
V("C14", "namespace_from_base_caches", "fire", "R14.w", (Z, """        for class_ in classlist(cls):
            for name, val in class_.__dict__.items():
                if isinstance(val, Parameter):
                    paramdict[name] = val""", """        for base in reversed(cls.__bases__):
            if isinstance(base, ParameterizedMetaclass):
                paramdict.update(base.param._cls_parameters)
        for name, val in cls.__dict__.items():
            if isinstance(val, Parameter):
                paramdict[name] = val"""))
V("C16", "selector_serialized_by_label", "fire", "R16.t", (P, "\n\nclass ObjectSelector(Selector):", "\n    def serialize(self, value):\n        return str(value)\n\n\nclass ObjectSelector(Selector):"))
V("C18", "identical_object_not_validated", "fire", "R18.v", (Z, "        self._validate(val)\n\n        _old = NotImplemented", "        if obj is None or val is not obj._param__private.values.get(name, NotImplemented):\n            self._validate(val)\n\n        _old = NotImplemented"))
V("C19", "value_generator_reads_instance_copy_default", "fire", "R19.v", (Z, "                value = self_.cls.param[name].default", "                value = param_obj.default"))
V("C19", "generator_initialised_before_assignment", "fire", "R19.y", (P, """        super().__set__(obj,val)

        dynamic = callable(val)
        if dynamic and obj is not None and self.name in obj._param__private.refs:
            # val was taken as a reference: the value in force is what
            # it resolves to (nothing new while it is still pending)
            val = obj._param__private.values.get(self.name)
            dynamic = callable(val) and not hasattr(val, '_Dynamic_last')
        if dynamic: self._initialize_generator(val,obj)
""", """        dynamic = callable(val)
        if dynamic: self._initialize_generator(val,obj)

        super().__set__(obj,val)
"""))
V("C08", "method_reference_owner_hoisted_and_rebound", "fire", "R08.w", (Z, """        refs = []
        for arg in (args + kwargs):
            if isinstance(arg, str):
                owner = get_method_owner(reference)
                if arg in owner.param:""", """        refs = []
        owner = get_method_owner(reference)
        for arg in (args + kwargs):
            if isinstance(arg, str):
                if arg in owner.param:"""), (Z, "                    for attr in path[:-1]:\n                        arg = getattr(arg, attr)\n                    arg = arg.param[path[-1]]", "                    for attr in path[:-1]:\n                        owner = arg = getattr(arg, attr)\n                    arg = arg.param[path[-1]]"))

# ======================================================================= C20
V("C20", "one_tuple_without_trailing_comma", "fire", "R20.a", (Z, "        d1,d2='(',(',)' if len(result)==1 else ')')", "        d1,d2='(',')'"))
V("C20", "container_elements_printed_with_repr", "fire", "R20.a", (Z, "        result.append(pprint(i,imports,prefix,settings))", "        result.append(repr(i))"))
V("C20", "float_printer_not_registered", "fire", "R20.b", (Z, "script_repr_reg[float] = float_script_repr\n", ""))
V("C20", "float_printer_forgets_nan", "fire", "R20.b", (Z, "    if rep in ('inf', '-inf', 'nan'):", "    if rep in ('inf', '-inf'):"))
V("C20", "benign_tuple_delimiters_in_two_steps", "benign", None, (Z, "        d1,d2='(',(',)' if len(result)==1 else ')')", "        d1,d2='(',')'\n        if len(result)==1:\n            d2=',)'"))
V("C20", "benign_float_printer_membership_as_list", "benign", None, (Z, "    if rep in ('inf', '-inf', 'nan'):", "    if rep in ['nan', 'inf', '-inf']:"))
V("C20", "generated_name_carried_over", "fire", "R20.c", (Z, """            if k == 'name' and (values[k] is not None
                                and re.match('^'+self.__class__.__name__+'[0-9]+$', values[k])):
                continue
""", ""))
V("C20", "changed_explicit_keyword_suppressed", "fire", "R20.c", (Z, "            if (k in kwargs) and (k in values) and kwargs[k] == values[k]: continue", "            if (k in kwargs) and (k in values): continue"))
V("C20", "keywords_before_positionals", "fire", "R20.c", (Z, "        arguments = arglist + keywords + (['**%s' % spec.varargs] if spec.varargs else [])", "        arguments = keywords + arglist + (['**%s' % spec.varargs] if spec.varargs else [])"))
V("C20", "benign_processed_check_as_block", "benign", None, (Z, "            if k in processed: continue\n", "            if k in processed:\n                continue\n"))

# ======================================================================= round i rules
V("C03", "precedence_truncated_to_int", "fire", "R03.r", (Z, "        if 'precedence' not in values:\n            values['precedence'] = 0", "        values['precedence'] = int(values.get('precedence') or 0)"))
V("C03", "benign_precedence_default_via_setdefault", "benign", None, (Z, "        if 'precedence' not in values:\n            values['precedence'] = 0", "        values.setdefault('precedence', 0)"))
V("C03", "class_set_before_copy_installed", "fire", "R03.s", (Z, """                parameter = copy.copy(parameter)
                parameter.owner = mcs
                type.__setattr__(mcs,attribute_name,parameter)
                mcs._clear_params_cache()
            mcs.__dict__[attribute_name].__set__(None,value)
""", """                parameter = copy.copy(parameter)
                parameter.owner = mcs
                parameter.__set__(None,value)
                type.__setattr__(mcs,attribute_name,parameter)
                mcs._clear_params_cache()
            else:
                parameter.__set__(None,value)
"""))
V("C05", "class_cache_cleared_after_set", "fire", "R05.n", (Z, """                type.__setattr__(mcs,attribute_name,parameter)
                mcs._clear_params_cache()
            mcs.__dict__[attribute_name].__set__(None,value)
""", """                type.__setattr__(mcs,attribute_name,parameter)
                mcs.__dict__[attribute_name].__set__(None,value)
                mcs._clear_params_cache()
            else:
                mcs.__dict__[attribute_name].__set__(None,value)
"""))
V("C06", "constant_group_lists_a_name_twice", "fire", "R06.g", (Z, "        for _, g in group:\n            if g.name not in params:\n                params.append(g.name)\n", "        for _, g in group:\n            params.append(g.name)\n"))
V("C06", "copy_recreates_watcher_per_parameter", "fire", "R06.s", (Z, """            recreated = {}
            for p, attrs in param_watchers.items():
""", """            for p, attrs in param_watchers.items():
                recreated = {}
"""))
V("C07", "unregistered_watcher_dropped", "fire", "R07.u", (Z, """        if self_._BATCH_WATCH:
            self_._events.append(event)
            if not any(watcher is w for w in self_._state_watchers):""", """        if self_.self is not None and not any(w is watcher for w in self_.self._param__private.watchers.get(event.name, {}).get(event.what, ())):
            return
        if self_._BATCH_WATCH:
            self_._events.append(event)
            if not any(watcher is w for w in self_._state_watchers):"""))
V("C08", "watcher_not_queued_after_first_event_of_parameter", "fire", "R08.u", (Z, """            self_._events.append(event)
            if not any(watcher is w for w in self_._state_watchers):""", """            repeat = any(q.name == event.name and q.what == event.what for q in self_._events)
            self_._events.append(event)
            if not repeat and not any(watcher is w for w in self_._state_watchers):"""))
V("C09", "attribute_names_memoised_per_type", "fire", "R09.w", (R, "        extras = [d for d in dir(current) if not d.startswith('_')]", "        extras = _ATTRS.setdefault(type(current), [d for d in dir(current) if not d.startswith('_')])"), (R, "# When we only support python >= 3.11 we should exchange 'rx' with Self type annotation below.", "_ATTRS = {}\n# When we only support python >= 3.11 we should exchange 'rx' with Self type annotation below."))
V("C10", "relink_skipped_when_reference_compares_equal", "fire", "R10.p", (Z, "        obj.param._update_ref(name, ref)\n\n    def _validate_value", "        if name in obj._param__private.refs and obj._param__private.refs[name] == ref:\n            return\n        obj.param._update_ref(name, ref)\n\n    def _validate_value"))
V("C10", "rx_value_setter_skips_identical_object", "fire", "R10.v", (R, "        self._reactive._wrapper.object = resolve_value(new)", "        new = resolve_value(new)\n        if new is self._reactive._wrapper.object:\n            return\n        self._reactive._wrapper.object = new"))
V("C11", "allow_none_rewritten_after_merge", "fire", "R11.g", (Z, """        Can be overridden on subclasses to update a Parameter state, i.e. slot
        values, after the slot values have been set in the inheritance procedure.
        \"\"\"
""", """        Can be overridden on subclasses to update a Parameter state, i.e. slot
        values, after the slot values have been set in the inheritance procedure.
        \"\"\"
        if self.default is None and self.allow_None is False:
            self.allow_None = True
"""))
V("C12", "restorer_drops_entries_equal_to_class_default", "fire", "R12.x", (Z, """            self._parameters._update(dict(self._restore, **self._refs))
        finally:""", """            self._parameters._update(dict(self._restore, **self._refs))
            inst = self._parameters.self
            if inst is not None:
                for name in self._restore:
                    if inst._param__private.values.get(name, self) is self._parameters.cls.param[name].default:
                        del inst._param__private.values[name]
        finally:"""))
V("C12", "on_init_methods_run_uninitialized", "fire", "R12.y", (Z, """        for m in init_methods:
            m()

    def _resolve_dynamic_deps""", """        self_._call_init_methods(init_methods)

    @as_uninitialized
    def _call_init_methods(self_, methods):
        for m in methods:
            m()

    def _resolve_dynamic_deps"""))
V("C14", "slot_store_rolled_back_when_watcher_raises", "fire", "R14.s", (Z, "        if has_watcher and old is not NotImplemented:\n            self._trigger_event(attribute, old, value)", "        if has_watcher and old is not NotImplemented:\n            try:\n                self._trigger_event(attribute, old, value)\n            except Exception:\n                super().__setattr__(attribute, old)\n                raise"))
V("C15", "default_subset_leaves_out_constants", "fire", "R15.n", (Z, "        serializer = Parameter._serializers[mode]\n        return serializer.serialize_parameters(self_or_cls, subset=subset)", "        serializer = Parameter._serializers[mode]\n        if subset is None:\n            subset = [n for n, p in self_.objects('existing').items() if n == 'name' or not p.constant]\n        return serializer.serialize_parameters(self_or_cls, subset=subset)"))
V("C17", "slotted_record_without_getstate", "fire", "R17.s", (Z, "class _ParametersRestorer:\n", "class _RefLink:\n    __slots__ = ('names', 'watcher')\n\n    def __init__(self, names, watcher):\n        self.names = names\n        self.watcher = watcher\n\n\nclass _ParametersRestorer:\n"))
V("C18", "falsy_labels_replaced_by_derived_names", "fire", "R18.n", ("param/_utils.py", """        if objtoname and _hashable(obj) in objtoname:
            k = objtoname[_hashable(obj)]
        elif any(obj is v for (_, v) in unhashables):""", """        if objtoname and objtoname.get(_hashable(obj)):
            k = objtoname[_hashable(obj)]
        elif any(obj is v for (_, v) in unhashables):"""))
V("C18", "listproxy_dictionary_style_membership", "fire", "R18.w", (P, "    def __eq__(self, other):\n        eq = super().__eq__(other)", "    def __contains__(self, item):\n        return item in self._parameter.names or super().__contains__(item)\n\n    def __eq__(self, other):\n        eq = super().__eq__(other)"))
V("C19", "time_context_stack_shared_by_all_clocks", "fire", "R19.s", (P, "    forever = Infinity()\n", "    forever = Infinity()\n    _pushed_state = []\n"), (P, "        self._exhausted = None\n        self._pushed_state = []\n", "        self._exhausted = None\n"))
V("C20", "keyword_suppressed_against_parameter_default", "fire", "R20.c", (Z, "            if (k in kwargs) and (k in values) and kwargs[k] == values[k]: continue", "            if (k in kwargs) and (k in values) and (k not in changed_params): continue"))
V("C20", "guard_thread_identity_captured_once", "fire", "R20.d", ("param/_utils.py", "        repr_running = set()\n\n        def wrapper(self, *args, **kwargs):\n            key = id(self), get_ident()", "        repr_running = set()\n        ident = get_ident()\n\n        def wrapper(self, *args, **kwargs):\n            key = id(self), ident"))
V("C20", "benign_guard_key_built_in_two_steps", "benign", None, ("param/_utils.py", "            key = id(self), get_ident()", "            thread = get_ident()\n            key = (id(self), thread)"))
V("C05", "benign_event_reset_skipped_for_unassigned_keys", "benign", None, (Z, "        try:\n            values = self_.values()\n            restore = {k: values[k] for k, v in kwargs.items() if k in values}", "        applied = set()\n        try:\n            values = self_.values()\n            restore = {k: values[k] for k, v in kwargs.items() if k in values}"), (Z, "                setattr(self_or_cls, k, v)\n        finally:", "                setattr(self_or_cls, k, v)\n                applied.add(k)\n        finally:"), (Z, "                for tp in trigger_params:\n                    p = self_[tp]\n                    p._mode = 'reset'", "                for tp in trigger_params:\n                    if tp not in applied:\n                        continue\n                    p = self_[tp]\n                    p._mode = 'reset'"))
V("C04", "benign_event_reset_skipped_for_unassigned_keys", "benign", None, (Z, "        try:\n            values = self_.values()\n            restore = {k: values[k] for k, v in kwargs.items() if k in values}", "        applied = set()\n        try:\n            values = self_.values()\n            restore = {k: values[k] for k, v in kwargs.items() if k in values}"), (Z, "                setattr(self_or_cls, k, v)\n        finally:", "                setattr(self_or_cls, k, v)\n                applied.add(k)\n        finally:"), (Z, "                for tp in trigger_params:\n                    p = self_[tp]\n                    p._mode = 'reset'", "                for tp in trigger_params:\n                    if tp not in applied:\n                        continue\n                    p = self_[tp]\n                    p._mode = 'reset'"))
V("C05", "switched_event_modes_not_restored", "fire", "R05.m", (Z, "                for p in switched:\n                    p._mode = 'set-reset'\n", ""))
V("C18", "redeclared_selector_loses_labels", "fire", "R18.p", (P, "            self.names = Undefined\n            self._objects = objects", "            self.names = {}\n            self._objects = objects"))
# --- fail-closed -> violation upgrades (while round j runs)
V("C01", "non_class_value_falls_back_to_isinstance", "fire", "R01.h", (P, "        if (is_instance and isinstance(val, class_)) or (not is_instance and issubclass(val, class_)):\n            return\n", "        check = issubclass if (not is_instance and isinstance(val, type)) else isinstance\n        if check(val, class_):\n            return\n"))
V("C01", "benign_class_test_chosen_by_name", "benign", None, (P, "        if (is_instance and isinstance(val, class_)) or (not is_instance and issubclass(val, class_)):\n            return\n", "        check = isinstance if is_instance else issubclass\n        if check(val, class_):\n            return\n"))
V("C06", "rebuilt_watcher_queued_next_to_the_one_it_replaces", "fire", "R06.q", (Z, "                        pending[:] = [watcher if q is w else q for q in pending]", "                        pass"))
V("C07", "rebuilt_watcher_queued_next_to_the_one_it_replaces", "fire", "R07.q", (Z, "                        pending[:] = [watcher if q is w else q for q in pending]", "                        pass"))
V("C06", "replaced_watcher_dropped_from_the_queue_without_successor", "fire", "R06.q", (Z, "                        pending[:] = [watcher if q is w else q for q in pending]", "                        pending[:] = [q for q in pending if q is not w]"), (Z, "            if not any(watcher is w for w in self_._state_watchers):\n                self_._state_watchers.append(watcher)", "            if not any(watcher is w for w in self_._state_watchers) and watcher.precedence >= 0:\n                self_._state_watchers.append(watcher)"))
V("C06", "benign_queue_slot_handed_over_by_index", "benign", None, (Z, "                        pending[:] = [watcher if q is w else q for q in pending]", "                        for i, q in enumerate(pending):\n                            if q is w:\n                                pending[i] = watcher"))
V("C07", "benign_queue_slot_handed_over_by_index", "benign", None, (Z, "                        pending[:] = [watcher if q is w else q for q in pending]", "                        for i, q in enumerate(pending):\n                            if q is w:\n                                pending[i] = watcher"))
V("C14", "edit_constant_unlocks_the_class_level_parameter", "fire", "R14.x", (Z, "            pobj = parameterized.param[pname]\n            pobj.constant = False", "            pobj.constant = False"))
V("C14", "benign_own_parameter_looked_up_under_another_name", "benign", None, (Z, "            pobj = parameterized.param[pname]\n            pobj.constant = False\n            updated.append((pname, pobj))", "            own = parameterized.param[pname]\n            own.constant = False\n            updated.append((pname, own))"))
# --- round j
NG = "numbergen/__init__.py"
V("C01", "hex_colour_of_three_to_six_digits", "fire", "R01.r", (P, "'^#?(([0-9a-fA-F]{2}){3}|([0-9a-fA-F]){3})$'", "'^#?[0-9a-fA-F]{3,6}$'"))
V("C01", "hex_colour_lowercase_only", "fire", "R01.r", (P, "'^#?(([0-9a-fA-F]{2}){3}|([0-9a-fA-F]){3})$'", "'^#?(([0-9a-f]{2}){3}|([0-9a-f]){3})$'"))
V("C01", "benign_hex_colour_as_one_or_two_triples", "benign", None, (P, "'^#?(([0-9a-fA-F]{2}){3}|([0-9a-fA-F]){3})$'", "'^#?([0-9a-fA-F]{3}){1,2}$'"))
V("C01", "benign_hex_colour_case_insensitive_flag", "benign", None, (P, "re.match('^#?(([0-9a-fA-F]{2}){3}|([0-9a-fA-F]){3})$', val)", "re.match('^#?([0-9a-f]{6}|[0-9a-f]{3})$', val, re.IGNORECASE)"))
V("C02", "first_evaluation_installs_the_invalidators", "fire", "R02.v", (R, "    def _resolve(self):\n        if self._error_state:\n            raise self._error_state", "    def _resolve(self):\n        if not getattr(self, '_wired', False):\n            self._wired = True\n            self._setup_invalidations(0)\n        if self._error_state:\n            raise self._error_state"))
V("C03", "instance_watcher_table_from_a_shared_default", "fire", "R03.k", (Z, "        self.watchers = {} if watchers is None else watchers\n", "        self.watchers = _NO_WATCHERS if watchers is None else watchers\n"), (Z, "class _ClassPrivate:\n", "_NO_WATCHERS = {}\n\n\nclass _ClassPrivate:\n"))
V("C03", "benign_state_template_with_fresh_queues", "benign", None, (Z, """            parameters_state = {
                "BATCH_WATCH": False, # If true, Event and watcher objects are queued.
                "TRIGGER": False,
                "events": [], # Queue of batched events
                "watchers": [] # Queue of batched watchers
            }
        self.parameters_state = parameters_state
        self.disable_instance_params""", """            parameters_state = dict(_STATE_FLAGS, events=[], watchers=[])
        self.parameters_state = parameters_state
        self.disable_instance_params"""), (Z, "class _ClassPrivate:\n", "_STATE_FLAGS = {\"BATCH_WATCH\": False, \"TRIGGER\": False}\n\n\nclass _ClassPrivate:\n"))
V("C03", "trigger_type_only_for_identical_objects", "fire", "R03.d", (Z, "        if triggered:\n            event_type = 'triggered'", "        if triggered and event.old is event.new:\n            event_type = 'triggered'"))
V("C04", "benign_flush_skips_a_watcher_without_events", "benign", None, (Z, "                          if (name, watcher.what) in event_dict]\n                with _batch_call_watchers", "                          if (name, watcher.what) in event_dict]\n                if not events:\n                    continue\n                with _batch_call_watchers"))
V("C03", "benign_flush_skips_a_watcher_without_events", "benign", None, (Z, "                          if (name, watcher.what) in event_dict]\n                with _batch_call_watchers", "                          if (name, watcher.what) in event_dict]\n                if not events:\n                    continue\n                with _batch_call_watchers"))
V("C04", "flush_leaves_batching_on_for_the_rest_of_the_pass", "fire", "R04.h", (Z, "                with _batch_call_watchers(self_.self_or_cls, enable=watcher.queued, run=False):\n                    self_._execute_watcher(watcher, events)\n    # Please update", "                if watcher.queued:\n                    self_._BATCH_WATCH = True\n                self_._execute_watcher(watcher, events)\n            self_._BATCH_WATCH = False\n    # Please update"))
V("C06", "instance_binding_cached_by_parameter_name", "fire", "R06.m", (Z, "        dep = PInfo(inst=inst, cls=dep.cls, name=dep.name,\n                    pobj=inst.param[dep.name], what=dep.what)\n        dependencies.append(dep)", "        key = (id(inst), dep.name)\n        if key not in bound:\n            bound[key] = PInfo(inst=inst, cls=dep.cls, name=dep.name,\n                               pobj=inst.param[dep.name], what=dep.what)\n        dependencies.append(bound[key])"), (Z, "    dependencies = []\n    for dep in resolved:\n        if not issubclass(type(obj), dep.cls):", "    dependencies = []\n    bound = {}\n    for dep in resolved:\n        if not issubclass(type(obj), dep.cls):"))
V("C06", "benign_instance_binding_cached_by_name_and_kind", "benign", None, (Z, "        dep = PInfo(inst=inst, cls=dep.cls, name=dep.name,\n                    pobj=inst.param[dep.name], what=dep.what)\n        dependencies.append(dep)", "        key = (id(inst), dep.name, dep.what)\n        if key not in bound:\n            bound[key] = PInfo(inst=inst, cls=dep.cls, name=dep.name,\n                               pobj=inst.param[dep.name], what=dep.what)\n        dependencies.append(bound[key])"), (Z, "    dependencies = []\n    for dep in resolved:\n        if not issubclass(type(obj), dep.cls):", "    dependencies = []\n    bound = {}\n    for dep in resolved:\n        if not issubclass(type(obj), dep.cls):"))
V("C06", "slot_events_through_the_class_namespace", "fire", "R06.t", (Z, "        for watcher in self.watchers[attribute]:\n            self.owner.param._call_watcher(watcher, event)\n        if not self.owner.param._BATCH_WATCH:\n            self.owner.param._batch_call_watchers()", "        ns = (self.owner if isinstance(self.owner, type) else type(self.owner)).param\n        for watcher in self.watchers[attribute]:\n            ns._call_watcher(watcher, event)\n        if not ns._BATCH_WATCH:\n            ns._batch_call_watchers()"))
V("C04", "slot_events_through_the_class_namespace", "fire", "R04.v", (Z, "        for watcher in self.watchers[attribute]:\n            self.owner.param._call_watcher(watcher, event)\n        if not self.owner.param._BATCH_WATCH:\n            self.owner.param._batch_call_watchers()", "        ns = (self.owner if isinstance(self.owner, type) else type(self.owner)).param\n        for watcher in self.watchers[attribute]:\n            ns._call_watcher(watcher, event)\n        if not ns._BATCH_WATCH:\n            ns._batch_call_watchers()"))
V("C06", "benign_slot_events_through_an_alias_of_the_owner_namespace", "benign", None, (Z, "        for watcher in self.watchers[attribute]:\n            self.owner.param._call_watcher(watcher, event)\n        if not self.owner.param._BATCH_WATCH:\n            self.owner.param._batch_call_watchers()", "        ns = self.owner.param\n        for watcher in self.watchers[attribute]:\n            ns._call_watcher(watcher, event)\n        if not ns._BATCH_WATCH:\n            ns._batch_call_watchers()"))
V("C07", "path_helper_stops_at_a_falsy_value", "fire", "R07.g", (Z, "    def _getattr(obj, attr):\n        return getattr(obj, attr, *args)\n    return reduce(_getattr, [obj] + attr.split('.'))", "    for name in attr.split('.'):\n        obj = getattr(obj, name, *args)\n        if args and not obj:\n            return args[0]\n    return obj"))
V("C07", "benign_path_helper_as_a_loop", "benign", None, (Z, "    def _getattr(obj, attr):\n        return getattr(obj, attr, *args)\n    return reduce(_getattr, [obj] + attr.split('.'))", "    for name in attr.split('.'):\n        obj = getattr(obj, name, *args)\n    return obj"))
V("C07", "change_filter_compares_each_relative_path_once", "fire", "R07.k", (Z, "    for e in events:\n        if isinstance(changed, dict):\n            # Sub-parameters to compare, per watched parameter", "    compared = set()\n    for e in events:\n        if isinstance(changed, dict):\n            # Sub-parameters to compare, per watched parameter"), (Z, "        for p, what in subparams:\n            if what == 'value':\n                old = Undefined if e.old is None else _getattrr(e.old, p, None)", "        for p, what in subparams:\n            if (p, what) in compared:\n                continue\n            compared.add((p, what))\n            if what == 'value':\n                old = Undefined if e.old is None else _getattrr(e.old, p, None)"))
V("C08", "skip_of_one_reference_ends_the_sync", "fire", "R08.e", (Z, "            try:\n                new_val = resolve_value(ref, recursive)\n            except Skip:\n                new_val = Undefined\n            if new_val is Skip or new_val is Undefined:\n                continue", "            try:\n                new_val = resolve_value(ref, recursive)\n            except Skip:\n                break\n            if new_val is Skip or new_val is Undefined:\n                continue"))
V("C11", "benign_crosstalk_copy_in_a_loop_of_its_own", "benign", None, (Z, "            setattr(param, slot, value)\n\n            # Avoid crosstalk between mutable slot values in different Parameter objects\n            if slot != \"default\":\n                v = getattr(param, slot)\n                if _is_mutable_container(v):\n                    setattr(param, slot, copy.copy(v))\n", "            setattr(param, slot, value)\n\n        # Avoid crosstalk between mutable slot values in different Parameter objects\n        for slot in slot_values:\n            if slot != \"default\":\n                v = getattr(param, slot)\n                if _is_mutable_container(v):\n                    setattr(param, slot, copy.copy(v))\n"))
V("C12", "instance_copy_carries_only_changed_values", "fire", "R12.i", (Z, "            params = self_or_cls.param.values()\n            params.update(p)\n            params.pop('name')", "            params = self_or_cls.param.values(onlychanged=True)\n            params.update(p)\n            params.pop('name', None)"))
V("C14", "class_route_returns_early_for_the_identical_object", "fire", "R14.p", (Z, "            if owning_class != mcs:\n                parameter = copy.copy(parameter)", "            if value is parameter.default:\n                return\n            if owning_class != mcs:\n                parameter = copy.copy(parameter)"))
V("C14", "set_default_writes_the_slot_directly", "fire", "R14.d", (Z, "        cls = self_.cls\n        setattr(cls,param_name,value)", "        self_.cls.param[param_name].default = value"))
V("C15", "benign_none_guard_as_a_conditional_expression", "benign", None, (P, "    def serialize(cls, value):\n        if value is None:\n            return None\n        return list(value) # As JSON has no tuple representation", "    def serialize(cls, value):\n        return None if value is None else list(value)"))
V("C16", "benign_none_guard_as_a_conditional_expression", "benign", None, (P, "    def serialize(cls, value):\n        if value is None:\n            return None\n        return list(value) # As JSON has no tuple representation", "    def serialize(cls, value):\n        return None if value is None else list(value)"))
V("C16", "empty_tuple_serialized_as_null", "fire", "R16.n", (P, "    def serialize(cls, value):\n        if value is None:\n            return None\n        return list(value) # As JSON has no tuple representation", "    def serialize(cls, value):\n        return list(value) if value else None"))
V("C16", "first_numeric_class_of_a_tuple_wins", "fire", "R16.k", ("param/serializer.py", "            return {'anyOf': [cls.class__schema(cls_) for cls_ in class_]}", "            numeric = [c for c in class_ if c in (int, float)]\n            rest = [c for c in class_ if c not in (int, float)]\n            return {'anyOf': [cls.class__schema(cls_) for cls_ in numeric[:1] + rest]}"))
V("C18", "labels_left_to_inheritance_for_a_list", "fire", "R18.p", (P, "        else:\n            self.names = {}\n            self._objects = objects", "        else:\n            self.names = {} if getattr(self, 'name', None) is not None else Undefined\n            self._objects = objects"))
V("C19", "hash_memo_keyed_by_python_hash", "fire", "R19.m", (NG, "        pairs = [self._rational(val) for val in vals]\n", "        memo = self.__dict__.setdefault('_memo', {})\n        if hash(vals) in self._memo:\n            return self._memo[hash(vals)]\n        pairs = [self._rational(val) for val in vals]\n"))
V("C19", "benign_hash_memo_keyed_by_the_inputs", "benign", None, (NG, "        pairs = [self._rational(val) for val in vals]\n", "        self.__dict__.setdefault('_memo', {})\n        if vals in self._memo:\n            return self._memo[vals]\n        pairs = [self._rational(val) for val in vals]\n"))
V("C20", "dict_values_compared_in_insertion_order", "fire", "R20.e", (Z, "        for k in obj1:\n            if k in obj2:\n                if not cls.is_equal(obj1[k], obj2[k]):\n                    return False\n            else:\n                return False\n        return True", "        if obj1.keys() != obj2.keys():\n            return False\n        return cls.compare_iterator(list(obj1.values()), list(obj2.values()))"))
V("C18", "list_subclass_equal_to_a_plain_list", "fire", "R18.q", (Z, "    def compare_iterator(cls, obj1, obj2):\n        if type(obj1) is not type(obj2) or len(obj1) != len(obj2):", "    def compare_iterator(cls, obj1, obj2):\n        if not (isinstance(obj1, type(obj2)) or isinstance(obj2, type(obj1))) or len(obj1) != len(obj2):"))
V("C16", "empty_selector_schema_with_an_empty_anyof", "fire", "R16.w", ("param/serializer.py", "                             for obj in p.objects.values()]\n            # anyOf must not be empty (a Selector without objects)\n            schema = {'anyOf': allowed_types} if allowed_types else {}", "                             for obj in p.objects.values()]\n            schema = {'anyOf': allowed_types}"))
V("C16", "benign_empty_selector_schema_guard_as_a_statement", "benign", None, ("param/serializer.py", "                             for obj in p.objects.values()]\n            # anyOf must not be empty (a Selector without objects)\n            schema = {'anyOf': allowed_types} if allowed_types else {}", "                             for obj in p.objects.values()]\n            schema = {}\n            if allowed_types:\n                schema['anyOf'] = allowed_types"))
V("C02", "repaired_constant_refused_before_validation", "benign", None, (Z, """        self._validate(val)

        _old = NotImplemented
        # obj can be None if __set__ is called for a Parameterized class
        if self.constant or self.readonly:
            if self.readonly:
                raise TypeError("Read-only parameter '%s' cannot be modified" % name)
            elif obj is None:""", """        if self.readonly:
            raise TypeError("Read-only parameter '%s' cannot be modified" % name)
        if (self.constant and obj is not None and obj._param__private.initialized
                and val is not obj._param__private.values.get(self.name, self.default)):
            raise TypeError("Constant parameter '%s' cannot be modified" % name)

        self._validate(val)

        _old = NotImplemented
        # obj can be None if __set__ is called for a Parameterized class
        if self.constant or self.readonly:
            if obj is None:"""), (Z, """                _old = obj._param__private.values.get(self.name, self.default)
                if val is not _old:
                    raise TypeError("Constant parameter '%s' cannot be modified" % name)
        else:""", """                _old = obj._param__private.values.get(self.name, self.default)
        else:"""))
for _p in ("C01", "C03", "C05", "C07", "C08", "C10", "C12", "C14"):
    V(_p, "repaired_constant_refused_before_validation", "benign", None, *[v for v in VARIANTS if v["name"] == "repaired_constant_refused_before_validation" and v["prop"] == "C02"][0]["edits"])
# --- round k
V("C01", "none_item_admitted_by_allow_none", "fire", "R01.h", (P, "            if _is_number(n):\n                continue", "            if _is_number(n) or (allow_None and n is None):\n                continue"))
V("C01", "benign_numeric_item_test_negated", "benign", None, (P, "        for n in val:\n            if _is_number(n):\n                continue\n            raise ValueError(\n                f\"{_validate_error_prefix(self)} only takes numeric \"\n                f\"values, not {type(n)}.\"\n            )", "        for n in val:\n            if not _is_number(n):\n                raise ValueError(\n                    f\"{_validate_error_prefix(self)} only takes numeric \"\n                    f\"values, not {type(n)}.\"\n                )"))
V("C03", "unwatch_drops_the_queued_delivery", "fire", "R03.j", (Z, "            self_.warning(f'No such watcher {str(watcher)} to remove.')\n", "            self_.warning(f'No such watcher {str(watcher)} to remove.')\n        else:\n            self_._state_watchers = [w for w in self_._state_watchers if w is not watcher]\n"))
V("C03", "namespace_resolved_by_truthiness", "fire", "R03.i", (Z, "        return self_.cls if self_.self is None else self_.self", "        return self_.self or self_.cls"))
V("C04", "event_queued_before_the_changes_only_filter", "fire", "R04.a", (Z, "        if self_._TRIGGER:\n            pass\n        elif watcher.onlychanged and (not self_._changed(event)):\n            return\n\n        if self_._BATCH_WATCH:\n            self_._events.append(event)", "        if self_._BATCH_WATCH:\n            self_._events.append(event)\n        if self_._TRIGGER:\n            pass\n        elif watcher.onlychanged and (not self_._changed(event)):\n            return\n\n        if self_._BATCH_WATCH:"))
V("C04", "flush_keeps_its_event_table_across_rounds", "fire", "R04.h", (Z, "        while self_._events:\n            event_dict = OrderedDict([((event.name, event.what), event)\n                                      for event in self_._events])", "        event_dict = OrderedDict()\n        while self_._events:\n            for event in self_._events:\n                event_dict[(event.name, event.what)] = event"))
V("C05", "remaining_watchers_requeued_after_a_failure", "fire", "R05.v", (Z, "        for watcher in sorted(watchers, key=lambda w: w.precedence):\n            obj.param._call_watcher(watcher, event)\n        if not obj.param._BATCH_WATCH:\n            obj.param._batch_call_watchers()\n\n    def _relink", "        pending = sorted(watchers, key=lambda w: w.precedence)\n        try:\n            while pending:\n                obj.param._call_watcher(pending.pop(0), event)\n        finally:\n            if pending:\n                with _batch_call_watchers(obj, run=False):\n                    for watcher in pending:\n                        obj.param._call_watcher(watcher, event)\n        if not obj.param._BATCH_WATCH:\n            obj.param._batch_call_watchers()\n\n    def _relink"))
V("C05", "benign_dispatch_loop_over_a_sorted_copy", "benign", None, (Z, "        for watcher in sorted(watchers, key=lambda w: w.precedence):\n            obj.param._call_watcher(watcher, event)\n        if not obj.param._BATCH_WATCH:\n            obj.param._batch_call_watchers()\n\n    def _relink", "        ordered = sorted(watchers, key=lambda w: w.precedence)\n        for watcher in ordered:\n            obj.param._call_watcher(watcher, event)\n        if not obj.param._BATCH_WATCH:\n            obj.param._batch_call_watchers()\n\n    def _relink"))
V("C05", "resolver_publishes_before_repointing", "fire", "R05.o", (R, "            if events:\n                self._update_refs(refs)\n        self.value = value\n        return refs", "        self.value = value\n        if events and self.recursive:\n            self._update_refs(refs)\n        return refs"))
V("C06", "class_level_dependency_carries_the_declaring_class", "fire", "R06.d", (Z, "            info = PInfo(inst=inst, cls=cls, name=attr,\n                         pobj=src.param[attr], what=what)", "            pobj = src.param[attr]\n            if inst is None and isinstance(pobj.owner, type):\n                cls = pobj.owner\n            info = PInfo(inst=inst, cls=cls, name=attr,\n                         pobj=pobj, what=what)"))
V("C07", "named_method_specs_always_resolved_dynamically", "fire", "R07.r", (Z, "                method_deps, method_dynamic_deps = _params_depended_on(dep, dynamic, intermediate)", "                method_deps, method_dynamic_deps = _params_depended_on(dep, intermediate=intermediate)"))
V("C06", "named_method_specs_always_resolved_dynamically", "fire", "R06.r", (Z, "                method_deps, method_dynamic_deps = _params_depended_on(dep, dynamic, intermediate)", "                method_deps, method_dynamic_deps = _params_depended_on(dep, intermediate=intermediate)"))
V("C08", "sync_rolls_back_accepted_keys", "fire", "R08.n", (Z, "                setattr(self_or_cls, k, v)\n        finally:\n            # Whether or not a value was rejected", "                setattr(self_or_cls, k, v)\n                applied_keys.append(k)\n        except Exception:\n            for k in applied_keys:\n                setattr(self_or_cls, k, restore[k])\n            raise\n        finally:\n            # Whether or not a value was rejected"), (Z, "        try:\n            values = self_.values()\n            restore = {k: values[k] for k, v in kwargs.items() if k in values}", "        applied_keys = []\n        try:\n            values = self_.values()\n            restore = {k: values[k] for k, v in kwargs.items() if k in values}"))
V("C09", "arguments_evaluated_before_the_pipeline", "fire", "R09.o", (R, "                obj = self._obj if self._prev is None else self._prev._resolve()\n                if obj is Skip or obj is Undefined:\n                    self._current_ = Undefined\n                    raise Skip\n                operation = self._operation\n                if operation:", "                operation = self._operation\n                if operation:\n                    for _arg in operation['args']:\n                        resolve_value(_arg)\n                obj = self._obj if self._prev is None else self._prev._resolve()\n                if obj is Skip or obj is Undefined:\n                    self._current_ = Undefined\n                    raise Skip\n                if operation:"))
V("C10", "result_applied_from_a_loop_callback", "fire", "R10.w", (Z, "                async for new_obj in awaitable:\n                    with _syncing(self_.self, (pname,)):\n                        self_.update({pname: new_obj})", "                async for new_obj in awaitable:\n                    def _apply(value=new_obj):\n                        with _syncing(self_.self, (pname,)):\n                            self_.update({pname: value})\n                    asyncio.get_running_loop().call_soon(_apply)"))
V("C11", "descriptor_found_depth_first", "fire", "R11.q", (Z, "        classes = classlist(mcs)\n        for c in classes[::-1]:\n            attribute = c.__dict__.get(param_name)\n            if isinstance(attribute,Parameter):\n                return attribute,c\n        return None,None", "        attribute = mcs.__dict__.get(param_name)\n        if isinstance(attribute,Parameter):\n            return attribute,mcs\n        for base in mcs.__bases__:\n            if isinstance(base, ParameterizedMetaclass):\n                attribute,c = base.get_param_descriptor(param_name)\n                if attribute is not None:\n                    return attribute,c\n        return None,None"))
V("C14", "descriptor_found_depth_first", "fire", "R14.q", (Z, "        classes = classlist(mcs)\n        for c in classes[::-1]:\n            attribute = c.__dict__.get(param_name)\n            if isinstance(attribute,Parameter):\n                return attribute,c\n        return None,None", "        attribute = mcs.__dict__.get(param_name)\n        if isinstance(attribute,Parameter):\n            return attribute,mcs\n        for base in mcs.__bases__:\n            if isinstance(base, ParameterizedMetaclass):\n                attribute,c = base.get_param_descriptor(param_name)\n                if attribute is not None:\n                    return attribute,c\n        return None,None"))
V("C14", "benign_descriptor_found_along_the_mro", "benign", None, (Z, "        classes = classlist(mcs)\n        for c in classes[::-1]:\n            attribute = c.__dict__.get(param_name)", "        for c in reversed(classlist(mcs)):\n            attribute = c.__dict__.get(param_name)"))
V("C12", "event_mode_switched_on_the_existing_objects", "fire", "R12.u2", (Z, "        trigger_params = [\n            k for k in kwargs\n            if k in self_ and hasattr(self_[k], '_autotrigger_value')\n        ]", "        pobjs = self_.objects('existing')\n        trigger_params = [\n            k for k in kwargs\n            if hasattr(pobjs.get(k), '_autotrigger_value')\n        ]"), (Z, "        switched = [self_[tp] for tp in trigger_params]", "        switched = [pobjs[tp] for tp in trigger_params]"))
V("C12", "private_random_state_only_for_the_default_one", "fire", "R12.h", (NG, "        if self.time_dependent or not shared:\n            self.random_generator = type(self.random_generator)(seed)", "        if (self.time_dependent or not shared) and self.random_generator is TimeAwareRandomState.random_generator:\n            self.random_generator = type(self.random_generator)(seed)"))
V("C13", "existing_lookup_memoised_per_instance", "fire", "R13.x", (Z, "                if getattr(self_.self._param__private, 'initialized', False) and self_.self._param__private.params:\n                    return dict(pdict, **self_.self._param__private.params)", "                private = self_.self._param__private\n                if getattr(private, 'initialized', False) and private.params:\n                    memo = private.watchers.setdefault('__existing__', {})\n                    if memo.get('n') != len(private.params):\n                        memo['n'] = len(private.params)\n                        memo['lookup'] = dict(pdict, **private.params)\n                    return memo['lookup']"))
V("C17", "clock_reduced_by_reference_when_equal", "fire", "R17.r", (P, "    def __iter__(self): return self\n\n\n    def __next__(self):", "    def __reduce_ex__(self, protocol):\n        if self == Dynamic.time_fn:\n            return (_the_global_clock, ())\n        return super().__reduce_ex__(protocol)\n\n\n    def __iter__(self): return self\n\n\n    def __next__(self):"), (P, "class Time(Parameterized):\n", "def _the_global_clock():\n    return Dynamic.time_fn\n\n\nclass Time(Parameterized):\n"))
V("C17", "benign_clock_reduced_by_reference_when_identical", "benign", None, (P, "    def __iter__(self): return self\n\n\n    def __next__(self):", "    def __reduce_ex__(self, protocol):\n        if self is Dynamic.time_fn:\n            return (_the_global_clock, ())\n        return super().__reduce_ex__(protocol)\n\n\n    def __iter__(self): return self\n\n\n    def __next__(self):"), (P, "class Time(Parameterized):\n", "def _the_global_clock():\n    return Dynamic.time_fn\n\n\nclass Time(Parameterized):\n"))
V("C19", "rational_pair_from_digits_and_exponent", "fire", "R19.r", (NG, "        elif hasattr(val, 'numerator') and hasattr(val, 'denominator'):\n            # gmpy2 mpq objects have these attributes", "        elif isinstance(val, decimal.Decimal):\n            exponent = val.as_tuple().exponent\n            denom = 10 ** -exponent if exponent < 0 else 1\n            numer = int(val * denom)\n        elif hasattr(val, 'numerator') and hasattr(val, 'denominator'):\n            # gmpy2 mpq objects have these attributes"), (NG, "import hashlib\n", "import hashlib\nimport decimal\n"))
V("C19", "watcher_of_until_moves_the_clock", "fire", "R19.x", (P, "        self._exhausted = None\n        self._pushed_state = []\n", "        self._exhausted = None\n        self._pushed_state = []\n        self.param.watch(self._until_changed, 'until')\n\n    def _until_changed(self, event):\n        if self._time > event.new:\n            self._time = self.time_type(event.new)\n"))
V("C20", "import_dropped_for_a_prefix_named_module", "fire", "R20.i", (Z, "    imports = list(set(imports))\n    imports_str", "    imports = set(imports)\n    imports = sorted(i for i in imports if not any(j != i and j.startswith(i) for j in imports))\n    imports_str"))
V("C20", "benign_imports_sorted", "benign", None, (Z, "    imports = list(set(imports))\n    imports_str", "    imports = sorted(set(imports))\n    imports_str"))
V("C18", "equal_object_keeps_the_old_list_element", "fire", "R18.j", (P, "            if index in self._parameter.names:\n                old = self._parameter.names[index]\n                idx = self.index(old)\n                super().__setitem__(idx, object)\n                self._parameter._objects[idx] = object", "            if index in self._parameter.names:\n                old = self._parameter.names[index]\n                if old != object:\n                    idx = self.index(old)\n                    super().__setitem__(idx, object)\n                    self._parameter._objects[idx] = object"))
V("C16", "floats_rounded_on_the_way_out", "fire", "R16.p", ("param/serializer.py", "    def dumps(cls, obj):\n        return json.dumps(obj)", "    def dumps(cls, obj):\n        return json.dumps(_rounded(obj))"), ("param/serializer.py", "class UnserializableException(Exception):", "def _rounded(obj):\n    if isinstance(obj, float):\n        return float('%.15g' % obj)\n    if isinstance(obj, dict):\n        return {k: _rounded(v) for k, v in obj.items()}\n    if isinstance(obj, (list, tuple)):\n        return [_rounded(v) for v in obj]\n    return obj\n\n\nclass UnserializableException(Exception):"))
V("C10", "cancellation_swallowed_while_a_step_is_in_flight", "fire", "R10.z", (U, "        if sys.version_info >= (3, 9):\n            value = await asyncio.to_thread(safe_next)\n        else:\n            value = await _to_thread(safe_next)", "        step = asyncio.ensure_future(asyncio.to_thread(safe_next))\n        try:\n            value = await asyncio.shield(step)\n        except asyncio.CancelledError:\n            value = await step\n            sync_gen.close()"))
V("C10", "benign_cancellation_reraised_after_cleanup", "benign", None, (U, "        if sys.version_info >= (3, 9):\n            value = await asyncio.to_thread(safe_next)\n        else:\n            value = await _to_thread(safe_next)", "        try:\n            if sys.version_info >= (3, 9):\n                value = await asyncio.to_thread(safe_next)\n            else:\n                value = await _to_thread(safe_next)\n        except asyncio.CancelledError:\n            sync_gen.close()\n            raise"))
V("C09", "watch_callback_fed_from_the_event", "fire", "R09.s", (D, "            def cb(*events):\n                args = (getattr(dep.owner, dep.name) for dep in dependencies)\n                dep_kwargs = {n: getattr(dep.owner, dep.name) for n, dep in kw.items()}\n                return func(*args, **dep_kwargs)", "            def cb(*events):\n                seen = {(id(e.obj), e.name): e.new for e in events}\n                args = (seen.get((id(dep.owner), dep.name), getattr(dep.owner, dep.name)) for dep in dependencies)\n                dep_kwargs = {n: getattr(dep.owner, dep.name) for n, dep in kw.items()}\n                return func(*args, **dep_kwargs)"))
V("C02", "constructor_links_before_the_last_keyword", "fire", "R02.k", (Z, "            if ref is not None:\n                refs[name] = ref\n                deps[name] = ref_deps\n            if not is_async and not (resolved is Undefined or resolved is Skip):\n                setattr(self, name, resolved)\n        return refs, deps", "            if ref is not None:\n                refs[name] = ref\n                deps[name] = ref_deps\n            if not is_async and not (resolved is Undefined or resolved is Skip):\n                setattr(self, name, resolved)\n            if ref is not None:\n                self_._update_ref(name, ref)\n        return refs, deps"))
V("C09", "user_keywords_forwarded_to_the_internal_method", "fire", "R09.t", (R, "        new = self._as_rx()._resolve_accessor()\n        return new._clone({'fn': func, 'args': args, 'kwargs': kwargs, 'reverse': False})", "        return self._as_rx()._apply_operator(func, *args, **kwargs)"))
V("C09", "benign_pipe_operation_built_in_two_steps", "benign", None, (R, "        new = self._as_rx()._resolve_accessor()\n        return new._clone({'fn': func, 'args': args, 'kwargs': kwargs, 'reverse': False})", "        operation = {'fn': func, 'args': args, 'kwargs': kwargs, 'reverse': False}\n        new = self._as_rx()._resolve_accessor()\n        return new._clone(operation)"))
# --- round l
V("C03", "batch_flushed_before_the_flag_is_restored", "fire", "R03.x", (Z, "        parameterized.param._BATCH_WATCH = BATCH_WATCH\n        if not BATCH_WATCH:\n            parameterized.param._batch_call_watchers()\n\n\n@contextmanager\ndef _syncing", "        if not BATCH_WATCH:\n            parameterized.param._batch_call_watchers()\n        parameterized.param._BATCH_WATCH = BATCH_WATCH\n\n\n@contextmanager\ndef _syncing"))
V("C03", "event_set_to_false_is_ignored", "fire", "R03.l", (P, "    def __set__(self, obj, val):\n        try:\n            if self._mode in ['set-reset', 'set']:\n                super().__set__(obj, val)", "    def __set__(self, obj, val):\n        if val is self._autotrigger_reset_value and self._mode == 'set-reset':\n            return\n        try:\n            if self._mode in ['set-reset', 'set']:\n                super().__set__(obj, val)"))
V("C08", "reference_free_check_looks_one_level_deep", "fire", "R08.o", (Z, "    elif isinstance(value, (list, tuple)):\n        return type(value)(resolve_value(v) for v in value)", "    elif isinstance(value, (list, tuple)):\n        if not any(resolve_ref(v) for v in value):\n            return value\n        return type(value)(resolve_value(v) for v in value)"))
V("C08", "root_expression_referenced_by_its_only_parameter", "fire", "R08.q", (R, "    return bind(lambda *_: obj.rx.value, *obj._params)", "    if obj._prev is None and obj._operation is None and not obj._method and len(obj._params) == 1:\n        return obj._params[0]\n    return bind(lambda *_: obj.rx.value, *obj._params)"))
V("C09", "root_marked_clean_before_its_function_ran", "fire", "R09.y", (R, "            root._shared_obj[0] = eval_function_with_deps(root._fn)\n            root._dirty_obj = False", "            root._dirty_obj = False\n            root._shared_obj[0] = eval_function_with_deps(root._fn)"))
V("C09", "positional_dependencies_read_owner_by_owner", "fire", "R09.z", (Z, "            args = (getattr(dep.owner, dep.name) for dep in arg_deps)", "            by_owner = defaultdict(list)\n            for dep in arg_deps:\n                by_owner[id(dep.owner)].append(dep)\n            args = [getattr(dep.owner, dep.name) for deps in by_owner.values() for dep in deps]"))
V("C09", "benign_positional_dependencies_as_a_list", "benign", None, (Z, "            args = (getattr(dep.owner, dep.name) for dep in arg_deps)", "            args = [getattr(dep.owner, dep.name) for dep in arg_deps]"))
V("C10", "bound_coroutine_evaluations_share_a_task", "fire", "R10.b2", (R, "            evaled = eval_fn()(*combined_args, **combined_kwargs)\n            return await evaled", "            import asyncio\n            evaled = asyncio.ensure_future(eval_fn()(*combined_args, **combined_kwargs))\n            return await evaled"))
V("C12", "set_in_bounds_assigns_on_the_owner", "fire", "R12.b2", (P, "            bounded_val = val\n        super().__set__(obj, bounded_val)", "            bounded_val = val\n        setattr(self.owner or obj, self.name, bounded_val)"))
V("C13", "pager_edits_the_live_lookup", "fire", "R13.y", ("param/ipython.py", "        params = dict(obj.param.objects('existing'))", "        params = obj.param.objects('existing')"))
V("C17", "generator_state_dropped_from_the_saved_state", "fire", "R17.u", (NG, "    def _verify_constrained_hash(self):", "    def __getstate__(self):\n        state = super().__getstate__()\n        private = copy.copy(state['_param__private'])\n        private.values = dict(private.values, random_generator=type(self.random_generator)())\n        state['_param__private'] = private\n        return state\n\n    def _verify_constrained_hash(self):"), (NG, "import random\n", "import copy\nimport random\n"))
V("C05", "reentrancy_guard_not_released_on_failure", "fire", "R05.p", (D, "            def cb(*events):\n                args = (getattr(dep.owner, dep.name) for dep in dependencies)\n                dep_kwargs = {n: getattr(dep.owner, dep.name) for n, dep in kw.items()}\n                return func(*args, **dep_kwargs)", "            active = []\n            def cb(*events):\n                if active:\n                    return\n                active.append(events)\n                args = (getattr(dep.owner, dep.name) for dep in dependencies)\n                dep_kwargs = {n: getattr(dep.owner, dep.name) for n, dep in kw.items()}\n                result = func(*args, **dep_kwargs)\n                active.pop()\n                return result"))
V("C05", "benign_reentrancy_guard_released_in_finally", "benign", None, (D, "            def cb(*events):\n                args = (getattr(dep.owner, dep.name) for dep in dependencies)\n                dep_kwargs = {n: getattr(dep.owner, dep.name) for n, dep in kw.items()}\n                return func(*args, **dep_kwargs)", "            active = []\n            def cb(*events):\n                active.append(events)\n                try:\n                    args = (getattr(dep.owner, dep.name) for dep in dependencies)\n                    dep_kwargs = {n: getattr(dep.owner, dep.name) for n, dep in kw.items()}\n                    return func(*args, **dep_kwargs)\n                finally:\n                    active.pop()"))
V("C10", "argument_triggers_dropped_once_one_trigger_is_watched", "fire", "R10.d2", (R, "            for ref in resolve_ref(arg, recursive=True):\n                if ref not in ps:\n                    ps.append(ref)", "            for ref in resolve_ref(arg, recursive=True):\n                if ref in ps:\n                    continue\n                if any(isinstance(p.owner, Trigger) and p.owner.internal for p in ps) and isinstance(ref.owner, Trigger) and ref.owner.internal:\n                    continue\n                ps.append(ref)"))
V("C04", "copy_recreates_a_shared_watcher_per_parameter", "fire", "R04.w", (Z, "            recreated = {}\n            for p, attrs in param_watchers.items():\n", "            for p, attrs in param_watchers.items():\n                recreated = {}\n"))
# --- round m
V("C02", "class_level_copy_made_with_fresh_watchers", "fire", "R02.j", (Z, "                parameter = copy.copy(parameter)\n                parameter.owner = mcs\n                type.__setattr__(mcs,attribute_name,parameter)", "                parameter = _instantiate_param_obj(parameter, mcs)\n                type.__setattr__(mcs,attribute_name,parameter)"))
V("C06", "public_batch_flushed_before_the_flag_is_restored", "fire", "R06.x", (Z, "        parameterized.param._BATCH_WATCH = BATCH_WATCH\n        if not BATCH_WATCH:\n            parameterized.param._batch_call_watchers()\n\n\n@contextmanager\ndef _syncing", "        if not BATCH_WATCH:\n            parameterized.param._batch_call_watchers()\n        parameterized.param._BATCH_WATCH = BATCH_WATCH\n\n\n@contextmanager\ndef _syncing"))
V("C06", "restorer_undoes_key_by_key", "fire", "R06.e", (Z, "            self._parameters._update(dict(self._restore, **self._refs))", "            for pname, old in dict(self._restore, **self._refs).items():\n                self._parameters._update({pname: old})"))
V("C06", "benign_restorer_builds_the_mapping_first", "benign", None, (Z, "            self._parameters._update(dict(self._restore, **self._refs))", "            restore = dict(self._restore)\n            restore.update(self._refs)\n            self._parameters._update(restore)"))
V("C16", "range_ends_checked_against_their_own_limit_only", "fire", "R16.v", (P, "            too_low = (vmin is not None) and not (v >= vmin if incmin else v > vmin)\n            too_high = (vmax is not None) and not (v <= vmax if incmax else v < vmax)", "            too_low = bound == 'lower' and (vmin is not None) and not (v >= vmin if incmin else v > vmin)\n            too_high = bound == 'upper' and (vmax is not None) and not (v <= vmax if incmax else v < vmax)"))
V("C01", "label_assignment_located_by_label_position", "fire", "R01.x", (P, "                old = self._parameter.names[index]\n                idx = self.index(old)\n                super().__setitem__(idx, object)", "                idx = list(self._parameter.names).index(index)\n                super().__setitem__(idx, object)"))
V("C11", "computed_default_always_added_to_the_objects", "fire", "R11.u", (P, "        if self.check_on_set is False and self.default is not None:\n            self._ensure_value_is_in_objects(self.default)", "        if (self.check_on_set is False or self.compute_default_fn is not None) and self.default is not None:\n            self._ensure_value_is_in_objects(self.default)"))
V("C11", "class_hierarchy_listed_depth_first", "fire", "R11.m", (Z, "    return inspect.getmro(class_)[::-1]", "    out = []\n    for base in reversed(class_.__bases__):\n        out.extend(c for c in classlist(base) if c not in out)\n    out.append(class_)\n    return tuple(out)"))
V("C11", "benign_class_hierarchy_from_the_mro_attribute", "benign", None, (Z, "    return inspect.getmro(class_)[::-1]", "    return tuple(reversed(class_.__mro__))"))
V("C14", "update_skips_a_value_already_in_force", "fire", "R14.u", (Z, "                    raise ValueError(f\"{k!r} is not a parameter of {self_.cls.__name__}\")\n                setattr(self_or_cls, k, v)", "                    raise ValueError(f\"{k!r} is not a parameter of {self_.cls.__name__}\")\n                if k in restore and restore[k] is v and not self_[k].watchers:\n                    continue\n                setattr(self_or_cls, k, v)"))
V("C18", "labels_memoised_on_container_identity", "fire", "R18.r",
  (P, "        allow_None=None, instantiate=False, default=None,\n    )\n\n    @classmethod\n    def _modified_slots_defaults(cls):\n        defaults = super()._modified_slots_defaults()\n        defaults['objects'] = defaults.pop('_objects')\n", "        allow_None=None, instantiate=False, default=None, _memo=None,\n    )\n\n    @classmethod\n    def _modified_slots_defaults(cls):\n        defaults = super()._modified_slots_defaults()\n        defaults['objects'] = defaults.pop('_objects')\n        defaults.pop('_memo', None)\n"),
  (P, "    __slots__ = ['_objects', 'compute_default_fn', 'check_on_set', 'names']", "    __slots__ = ['_objects', 'compute_default_fn', 'check_on_set', 'names', '_memo']"),
  (P, "        return _named_objs(self._objects, self.names)", "        key = (id(self._objects), len(self._objects))\n        memo = self._memo\n        if memo is not None and memo[0] == key:\n            return dict(memo[1])\n        named = _named_objs(self._objects, self.names)\n        self._memo = (key, named)\n        return dict(named)"))
V("C19", "clock_advanced_in_place", "fire", "R19.i", (P, "        self._time = self._time + self.time_type(other)\n        return self", "        self._time += self.time_type(other)\n        return self"))
V("C19", "benign_clock_sum_in_a_temporary", "benign", None, (P, "        self._time = self._time + self.time_type(other)\n        return self", "        advanced = self._time + self.time_type(other)\n        self._time = advanced\n        return self"))
V("C19", "class_level_read_forces_a_draw", "fire", "R19.n", (P, "        else:\n            return self._produce_value(gen)\n", "        else:\n            return self._produce_value(gen, force=obj is None)\n"))
V("C20", "none_on_allow_none_taken_as_unset", "fire", "R20.v", (Z, "            if not onlychanged or not Comparator.is_equal(value, val.default):\n                vals.append((name, value))", "            if onlychanged and value is None and val.allow_None:\n                continue\n            if not onlychanged or not Comparator.is_equal(value, val.default):\n                vals.append((name, value))"))
V("C20", "benign_changed_test_split_in_two", "benign", None, (Z, "            if not onlychanged or not Comparator.is_equal(value, val.default):\n                vals.append((name, value))", "            if onlychanged and Comparator.is_equal(value, val.default):\n                continue\n            vals.append((name, value))"))
V("C01", "lazy_type_group_resolved_once", "fire", "R01.y", (U, "    def __instancecheck__(cls, inst):\n        return isinstance(inst, tuple(cls.types()))", "    def __instancecheck__(cls, inst):\n        if '_types' not in cls.__dict__:\n            type.__setattr__(cls, '_types', tuple(cls.types()))\n        return isinstance(inst, cls.__dict__['_types'])"))
V("C01", "benign_lazy_type_group_in_a_local", "benign", None, (U, "    def __instancecheck__(cls, inst):\n        return isinstance(inst, tuple(cls.types()))", "    def __instancecheck__(cls, inst):\n        members = tuple(cls.types())\n        return isinstance(inst, members)"))
V("C15", "calendar_date_written_with_the_iso_year", "fire", "R15.b", (P, "        return value.strftime(\"%Y-%m-%d\")\n\n    @classmethod\n    def deserialize(cls, value):\n        if value == 'null' or value is None:\n            return None\n        return dt.datetime.strptime(value, \"%Y-%m-%d\").date()", "        return value.strftime(cls._fmt)\n\n    _fmt = \"%G-%m-%d\"\n\n    @classmethod\n    def deserialize(cls, value):\n        if value == 'null' or value is None:\n            return None\n        return dt.date.fromisoformat(value)"))
V("C15", "benign_calendar_date_format_as_a_class_constant", "benign", None, (P, "        return value.strftime(\"%Y-%m-%d\")\n\n    @classmethod\n    def deserialize(cls, value):\n        if value == 'null' or value is None:\n            return None\n        return dt.datetime.strptime(value, \"%Y-%m-%d\").date()", "        return value.strftime(cls._fmt)\n\n    _fmt = \"%Y-%m-%d\"\n\n    @classmethod\n    def deserialize(cls, value):\n        if value == 'null' or value is None:\n            return None\n        return dt.date.fromisoformat(value)"))
# --- round m, more benign twins
V("C02", "benign_class_level_copy_through_a_temporary", "benign", None, (Z, "                parameter = copy.copy(parameter)\n                parameter.owner = mcs\n                type.__setattr__(mcs,attribute_name,parameter)", "                own = copy.copy(parameter)\n                own.owner = mcs\n                parameter = own\n                type.__setattr__(mcs,attribute_name,parameter)"))
V("C16", "benign_range_ends_zipped_the_other_way", "benign", None, (P, "        for bound, v in zip(['lower', 'upper'], val):\n            too_low", "        for v, bound in zip(val, ['lower', 'upper']):\n            too_low"))
V("C01", "benign_range_ends_zipped_the_other_way", "benign", None, (P, "        for bound, v in zip(['lower', 'upper'], val):\n            too_low", "        for v, bound in zip(val, ['lower', 'upper']):\n            too_low"))
V("C11", "benign_update_state_tests_reordered", "benign", None, (P, "        if self.check_on_set is False and self.default is not None:\n            self._ensure_value_is_in_objects(self.default)", "        if self.default is not None and self.check_on_set is False:\n            self._ensure_value_is_in_objects(self.default)"))
V("C18", "benign_range_from_locals", "benign", None, (P, "        return _named_objs(self._objects, self.names)", "        objects, names = self._objects, self.names\n        return _named_objs(objects, names)"))
V("C19", "benign_read_never_forces_explicitly", "benign", None, (P, "        else:\n            return self._produce_value(gen)\n", "        else:\n            return self._produce_value(gen, force=False)\n"))
V("C01", "benign_label_assignment_index_inline", "benign", None, (P, "                old = self._parameter.names[index]\n                idx = self.index(old)\n                super().__setitem__(idx, object)", "                idx = self.index(self._parameter.names[index])\n                super().__setitem__(idx, object)"))
V("C18", "benign_label_assignment_index_inline", "benign", None, (P, "                old = self._parameter.names[index]\n                idx = self.index(old)\n                super().__setitem__(idx, object)", "                idx = self.index(self._parameter.names[index])\n                super().__setitem__(idx, object)"))
V("C14", "benign_update_assigns_through_a_local_target", "benign", None, (Z, "                    raise ValueError(f\"{k!r} is not a parameter of {self_.cls.__name__}\")\n                setattr(self_or_cls, k, v)", "                    raise ValueError(f\"{k!r} is not a parameter of {self_.cls.__name__}\")\n                target = self_or_cls\n                setattr(target, k, v)"))
V("C20", "str_printer_with_hand_made_quoting", "fire", "R20.r", (Z, "script_repr_reg[float] = float_script_repr\n", "script_repr_reg[float] = float_script_repr\nscript_repr_reg[str] = lambda_free_str_repr\n"), (Z, "script_repr_reg[list] = container_script_repr\n", "def lambda_free_str_repr(value,imports,prefix,settings):\n    return '\"' + value.replace('\"', '\\\\\"') + '\"'\n\nscript_repr_reg[list] = container_script_repr\n"))
V("C20", "benign_str_printer_that_is_repr", "benign", None, (Z, "script_repr_reg[float] = float_script_repr\n", "script_repr_reg[float] = float_script_repr\nscript_repr_reg[str] = plain_str_repr\n"), (Z, "script_repr_reg[list] = container_script_repr\n", "def plain_str_repr(value,imports,prefix,settings):\n    return repr(value)\n\nscript_repr_reg[list] = container_script_repr\n"))
# --- round n
V("C17", "occupied_slot_recognised_by_its_value", "fire", "R17.v", (Z, "            if hasattr(instance,slot)]", "            if getattr(instance, slot, None) is not None]"))
V("C17", "benign_occupied_slots_collected_in_a_loop", "benign", None, (Z, "    return [slot for slot in get_all_slots(type(instance))\n            if hasattr(instance,slot)]", "    occupied = []\n    for slot in get_all_slots(type(instance)):\n        if hasattr(instance, slot):\n            occupied.append(slot)\n    return occupied"))
V("C13", "serializer_reads_the_default_of_the_looked_up_parameter", "fire", "R13.z", ("param/serializer.py", "            value = pobj.param.get_value_generator(name)\n            components[name] = p.serialize(value)", "            stored = getattr(pobj._param__private, 'values', {})\n            value = stored[name] if name in stored else p.default\n            components[name] = p.serialize(value)"))
V("C13", "benign_serializer_value_inline", "benign", None, ("param/serializer.py", "            value = pobj.param.get_value_generator(name)\n            components[name] = p.serialize(value)", "            components[name] = p.serialize(pobj.param.get_value_generator(name))"))
V("C20", "none_value_taken_for_an_unknown_argument", "fire", "R20.c", (Z, "                           qualify=qualify) if k in values else None", "                           qualify=qualify) if values.get(k) is not None else None"))
V("C07", "unwatch_drops_the_queued_delivery", "fire", "R07.j", (Z, "            self_.warning(f'No such watcher {str(watcher)} to remove.')\n", "            self_.warning(f'No such watcher {str(watcher)} to remove.')\n        else:\n            self_._state_watchers = [w for w in self_._state_watchers if w is not watcher]\n"))
V("C07", "dependencies_deduplicated_by_parameter_object", "fire", "R07.m", (Z, "                dependencies += _params_depended_on(subdep, intermediate=intermediate)[0]\n    return dependencies", "                dependencies += _params_depended_on(subdep, intermediate=intermediate)[0]\n    unique = {}\n    for dep in dependencies:\n        unique.setdefault((dep.pobj, dep.what), dep)\n    return list(unique.values())"))
V("C06", "dependencies_deduplicated_by_parameter_object", "fire", "R06.m", (Z, "                dependencies += _params_depended_on(subdep, intermediate=intermediate)[0]\n    return dependencies", "                dependencies += _params_depended_on(subdep, intermediate=intermediate)[0]\n    unique = {}\n    for dep in dependencies:\n        unique.setdefault((dep.pobj, dep.what), dep)\n    return list(unique.values())"))
V("C07", "benign_dependencies_returned_as_a_copy", "benign", None, (Z, "                dependencies += _params_depended_on(subdep, intermediate=intermediate)[0]\n    return dependencies", "                dependencies += _params_depended_on(subdep, intermediate=intermediate)[0]\n    return list(dependencies)"))
V("C20", "finite_floats_printed_with_fifteen_digits", "fire", "R20.b", (Z, "    rep = repr(value)\n    if rep in ('inf', '-inf', 'nan'):", "    rep = repr(value)\n    if rep not in ('inf', '-inf', 'nan') and len(rep) > 17:\n        rep = '%.15g' % value\n    if rep in ('inf', '-inf', 'nan'):"))
V("C20", "benign_finite_floats_printed_with_seventeen_digits_when_needed", "benign", None, (Z, "    rep = repr(value)\n    if rep in ('inf', '-inf', 'nan'):", "    rep = repr(value)\n    text = str(value)\n    if rep in ('inf', '-inf', 'nan'):"))
V("C13", "benign_serializer_reporter_bound_to_a_local", "benign", None, ("param/serializer.py", "        for name, p in pobj.param.objects('existing').items():\n            if subset is not None and name not in subset:\n                continue\n            value = pobj.param.get_value_generator(name)", "        report = pobj.param.get_value_generator\n        for name, p in pobj.param.objects('existing').items():\n            if subset is not None and name not in subset:\n                continue\n            value = report(name)"))
