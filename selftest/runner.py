"""Self-validation of the checkers (DESIGN.md §7).

Every variant is a source edit applied to a scratch copy of the *current* tree
(under a fresh tempfile.mkdtemp(), removed immediately afterwards):

* ``fire``   -- the edit breaks one rule instance; the check must report a new
               violation of the named rule (and the variant still parses);
* ``benign`` -- a behaviour-preserving twin; the check must report nothing new
               and must not fall into ANALYSIS-ERROR.

A variant whose anchor text is not present in the current tree (because the
tree was edited) is reported as ``stale`` and does not count either way.
"""
from __future__ import annotations

import ast
import os
import shutil
import sys
import tempfile
import time
from concurrent.futures import ProcessPoolExecutor

VERIF = os.path.dirname(os.path.dirname(os.path.abspath(__file__)))
if VERIF not in sys.path:
    sys.path.insert(0, VERIF)


def _copy_tree(root, dst):
    for pkg in ("param", "numbergen"):
        shutil.copytree(os.path.join(root, pkg), os.path.join(dst, pkg),
                        ignore=shutil.ignore_patterns("__pycache__", "*.pyc"))


def _violation_keys(prop, root, with_partial=False):
    from bin.check import run_check
    ctx = run_check(prop, root)
    keys = sorted({(o.rule, o.key) for o in ctx.violations})
    if with_partial:
        # the driver answers exit 2 when the analysis gave up and every violation found so far is a known one
        return keys, getattr(ctx, "partial", None)
    return keys


def _run_variant(args):
    prop, root, v, base = args
    from engine.loader import AnalysisError
    tmp = tempfile.mkdtemp(prefix="verif_selftest_")
    try:
        _copy_tree(root, tmp)
        for rel, old, new in v["edits"]:
            path = os.path.join(tmp, rel)
            src = open(path, encoding="utf-8").read()
            if src.count(old) != 1:
                return dict(name=v["name"], kind=v["kind"], rule=v.get("rule"), verdict="stale",
                            detail="anchor text occurs %d times in %s" % (src.count(old), rel))
            src = src.replace(old, new)
            try:
                ast.parse(src)
            except SyntaxError as e:
                return dict(name=v["name"], kind=v["kind"], rule=v.get("rule"), verdict="broken-variant", detail="does not parse: %s" % e)
            open(path, "w", encoding="utf-8").write(src)
        try:
            keys, err = _violation_keys(prop, tmp, with_partial=True)
        except AnalysisError as e:
            keys, err = [], str(e)
        except Exception as e:   # the driver turns any internal error into exit 2 as well
            keys, err = [], "internal error in the checker: %r" % (e,)
        new = [k for k in keys if tuple(k) not in {tuple(b) for b in base}]
        if v["kind"] == "fire":
            hit = [k for k in new if k[0] == v["rule"] or (v["rule"].endswith("*") and k[0].startswith(v["rule"][:-1]))]
            if hit:
                return dict(name=v["name"], kind="fire", rule=v["rule"], verdict="ok", detail="reported: %s" % hit[0][1])
            if err:
                return dict(name=v["name"], kind="fire", rule=v["rule"], verdict="ok-fail-closed",
                            detail="checker refused to decide (exit 2): %s" % err[:160])
            return dict(name=v["name"], kind="fire", rule=v["rule"], verdict="MISSED",
                        detail="no new violation of %s (new: %s)" % (v["rule"], [k[0] for k in new]))
        else:
            if err:
                return dict(name=v["name"], kind="benign", rule=None, verdict="FALSE-ERROR", detail="ANALYSIS-ERROR on a benign twin: %s" % err[:200])
            if new:
                return dict(name=v["name"], kind="benign", rule=None, verdict="FALSE-ALARM", detail="reported %s" % new[:3])
            return dict(name=v["name"], kind="benign", rule=None, verdict="ok", detail="silent")
    finally:
        shutil.rmtree(tmp, ignore_errors=True)


def _run_seeded(args):
    """Apply one kept seeded change (an independent author's patch) to a scratch
    copy of the current tree and expect the property's check to report it."""
    import glob
    import json
    import subprocess
    prop, root, d, base = args
    from engine.loader import AnalysisError
    name = os.path.basename(d)
    meta = json.load(open(os.path.join(d, "meta.json")))
    tmp = tempfile.mkdtemp(prefix="verif_seeded_")
    try:
        _copy_tree(root, tmp)
        r = subprocess.run(["git", "apply", "--whitespace=nowarn", os.path.join(d, "patch.diff")], cwd=tmp, capture_output=True, text=True)
        if r.returncode != 0:
            return dict(name="seeded:" + name, kind="seeded", rule=None, verdict="stale", detail="patch does not apply to the current tree")
        try:
            keys, err = _violation_keys(prop, tmp, with_partial=True)
        except AnalysisError as e:
            keys, err = [], str(e)
        except Exception as e:
            keys, err = [], "internal error: %r" % (e,)
        new = [k for k in keys if tuple(k) not in {tuple(b) for b in base}]
        expected_fail_closed = str(meta.get("current", "")).startswith("fail-closed")
        expected_missed = str(meta.get("current", "")).startswith("missed")
        if new:
            return dict(name="seeded:" + name, kind="seeded", rule=new[0][0], verdict="ok", detail="reported: %s" % (new[0][1],))
        if err:
            return dict(name="seeded:" + name, kind="seeded", rule=None, verdict="ok-fail-closed", detail=err[:160])
        if expected_missed:
            return dict(name="seeded:" + name, kind="seeded", rule=None, verdict="known-miss", detail="recorded as not decided by this property's check (see meta.json)")
        return dict(name="seeded:" + name, kind="seeded", rule=None, verdict="MISSED", detail="a kept seeded change is no longer reported")
    finally:
        shutil.rmtree(tmp, ignore_errors=True)


def run_selftest(prop, root, seed=0, jobs=None):
    from selftest.variants import VARIANTS
    vs = [v for v in VARIANTS if v["prop"] == prop]
    t0 = time.time()
    base = _violation_keys(prop, root)
    results = []
    import glob
    import json
    seeded = [d for d in sorted(glob.glob(os.path.join(VERIF, "seeded", "*"))) if os.path.exists(os.path.join(d, "meta.json"))
              and json.load(open(os.path.join(d, "meta.json"))).get("property") == prop]
    jobs = jobs or min(16, max(1, len(vs) + len(seeded)))
    if vs or seeded:
        with ProcessPoolExecutor(max_workers=jobs) as ex:
            results = list(ex.map(_run_variant, [(prop, root, v, base) for v in vs]))
            results += list(ex.map(_run_seeded, [(prop, root, d, base) for d in seeded]))
    failed = ["%s: %s (%s)" % (r["name"], r["verdict"], r["detail"]) for r in results
              if r["verdict"] in ("MISSED", "FALSE-ALARM", "FALSE-ERROR", "broken-variant")]
    return {
        "variants": results,
        "fire_total": sum(1 for r in results if r["kind"] == "fire" and r["verdict"] != "stale"),
        "fire_detected": sum(1 for r in results if r["kind"] == "fire" and r["verdict"] in ("ok", "ok-fail-closed")),
        "benign_total": sum(1 for r in results if r["kind"] == "benign" and r["verdict"] != "stale"),
        "benign_silent": sum(1 for r in results if r["kind"] == "benign" and r["verdict"] == "ok"),
        "seeded_total": sum(1 for r in results if r["kind"] == "seeded" and r["verdict"] != "stale"),
        "seeded_detected": sum(1 for r in results if r["kind"] == "seeded" and r["verdict"] in ("ok", "ok-fail-closed")),
        "stale": [r["name"] for r in results if r["verdict"] == "stale"],
        "failed": failed,
        "wall_s": round(time.time() - t0, 2),
    }


if __name__ == "__main__":
    import json
    props = sys.argv[1:] or sorted({v["prop"] for v in __import__("selftest.variants", fromlist=["VARIANTS"]).VARIANTS})
    rc = 0
    for p in props:
        r = run_selftest(p, os.environ.get("VERIF_REPO", "/repo"))
        print("%s: fire %d/%d, benign %d/%d, seeded %d/%d, stale %d, %.1fs" % (p, r["fire_detected"], r["fire_total"], r["benign_silent"], r["benign_total"],
                                                                               r["seeded_detected"], r["seeded_total"], len(r["stale"]), r["wall_s"]))
        for x in r["variants"]:
            if x["verdict"] not in ("ok",):
                print("   %-44s %-14s %s" % (x["name"], x["verdict"], x["detail"][:150]))
        if r["failed"]:
            rc = 1
    sys.exit(rc)
