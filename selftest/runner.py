"""Self-validation of the checkers (DESIGN.md §7): AST-computed edits applied to
a scratch copy of the *current* tree; every 'must fire' variant has to be
reported by the named rule, every benign twin has to stay silent."""
def run_selftest(prop, root, seed=0):
    return {"variants": [], "failed": [], "note": "no variants registered yet for %s" % prop}
