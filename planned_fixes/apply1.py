import re,sys
def sub(path, old, new, count=1):
    s=open(path).read()
    assert s.count(old)>=1, (path, old[:60])
    assert s.count(old)==count, (path, old[:60], s.count(old))
    s=s.replace(old,new); open(path,'w').write(s)
P='/repo/param/parameters.py'
Z='/repo/param/parameterized.py'
R='/repo/param/reactive.py'
# --- C01 Bytes allow_None
sub(P, "    def __init__(self, default=Undefined, *, regex=Undefined, allow_None=Undefined, **kwargs):\n        super().__init__(default=default, **kwargs)\n        self.regex = regex",
       "    def __init__(self, default=Undefined, *, regex=Undefined, allow_None=Undefined, **kwargs):\n        super().__init__(default=default, allow_None=allow_None, **kwargs)\n        self.regex = regex")
# --- C01 Range NaN
sub(P, "            too_low = (vmin is not None) and (v < vmin if incmin else v <= vmin)\n            too_high = (vmax is not None) and (v > vmax if incmax else v >= vmax)",
       "            too_low = (vmin is not None) and not (v >= vmin if incmin else v > vmin)\n            too_high = (vmax is not None) and not (v <= vmax if incmax else v < vmax)")
# --- C01 CalendarDateRange tuple check
sub(P, "    def _validate_value(self, val, allow_None):\n        if allow_None and val is None:\n            return\n\n        for n in val:\n            if not isinstance(n, dt.date):",
       "    def _validate_value(self, val, allow_None):\n        if allow_None and val is None:\n            return\n\n        if not isinstance(val, tuple):\n            raise ValueError(\n                f\"{_validate_error_prefix(self)} only takes a tuple value, \"\n                f\"not {type(val)}.\"\n            )\n        for n in val:\n            if not isinstance(n, dt.date):")
# --- C18 ListProxy.pop(int)
sub(P, """            with self._trigger():
                super().pop(index)
                object = self._parameter._objects.pop(index)
                if self._parameter.names:
                    self._parameter.names = {
                        k: v for k, v in self._parameter.names.items()
                        if v is object
                    }
            return
""", """            with self._trigger():
                super().pop(index)
                object = self._parameter._objects.pop(index)
                if self._parameter.names:
                    self._parameter.names = {
                        k: v for k, v in self._parameter.names.items()
                        if v is not object
                    }
            return object
""")
# --- C09 reflected operators
sub(R, "    def __rlshift__(self, other):\n        return self._apply_operator(operator.rlshift, other)",
       "    def __rlshift__(self, other):\n        return self._apply_operator(operator.lshift, other, reverse=True)")
sub(R, "    def __rrshift__(self, other):\n        return self._apply_operator(operator.rrshift, other)",
       "    def __rrshift__(self, other):\n        return self._apply_operator(operator.rshift, other, reverse=True)")
sub(R, "    def __rmod__(self, other):\n        return self._apply_operator(operator.mod, other, reverse=True)",
       "    def __rmatmul__(self, other):\n        return self._apply_operator(operator.matmul, other, reverse=True)\n    def __rmod__(self, other):\n        return self._apply_operator(operator.mod, other, reverse=True)")
print('ok')
