from patchlib import sub
Z='/repo/param/parameterized.py'
sub(Z, """        type.__setattr__(cls, param_name, param_obj)
        ParameterizedMetaclass._initialize_parameter(cls, param_name, param_obj)
        # delete cached params()
        cls._clear_params_cache()
""", """        type.__setattr__(cls, param_name, param_obj)
        # delete cached params()
        cls._clear_params_cache()
        ParameterizedMetaclass._initialize_parameter(cls, param_name, param_obj)
""")
sub(Z, """            type.__setattr__(mcs,attribute_name,value)

            if isinstance(value,Parameter):
                mcs.__param_inheritance(attribute_name,value)
                mcs._clear_params_cache()
""", """            type.__setattr__(mcs,attribute_name,value)

            if isinstance(value,Parameter):
                mcs._clear_params_cache()
                mcs.__param_inheritance(attribute_name,value)
""")
print('ok')
