from patchlib import sub, Z
# --- C02: defer link installation until the value has been accepted
sub(Z, """        name = self.name
        if obj is not None and self.allow_refs and obj._param__private.initialized:
            syncing = name in obj._param__private.syncing
            ref, deps, val, is_async = obj.param._resolve_ref(self, val)
            refs = obj._param__private.refs
            if ref is not None:
                self.owner.param._update_ref(name, ref)
            elif name in refs and not syncing:
                del refs[name]
                if name in obj._param__private.async_refs:
                    obj._param__private.async_refs.pop(name).cancel()
            if is_async or val is Undefined:
                return
""", """        name = self.name
        ref, relink = None, False
        if obj is not None and self.allow_refs and obj._param__private.initialized:
            syncing = name in obj._param__private.syncing
            ref, deps, val, is_async = obj.param._resolve_ref(self, val)
            # The link is only (re)installed or dropped once the value
            # has been accepted, so that a rejected assignment has no effect.
            relink = ref is not None or (name in obj._param__private.refs and not syncing)
            if is_async or val is Undefined:
                if relink:
                    self._relink(obj, name, ref)
                return
""")
sub(Z, """                _old = obj._param__private.values.get(name, self.default)
                obj._param__private.values[name] = val
        self._post_setter(obj, val)
""", """                _old = obj._param__private.values.get(name, self.default)
                obj._param__private.values[name] = val
        if relink:
            self._relink(obj, name, ref)
        self._post_setter(obj, val)
""")
sub(Z, """    def _validate_value(self, value, allow_None):
        \"\"\"Validate the parameter value against constraints.
""", """    def _relink(self, obj, name, ref):
        \"\"\"Link this parameter on obj to ref, or drop its current link if ref is None.\"\"\"
        if ref is not None:
            self.owner.param._update_ref(name, ref)
        else:
            refs = obj._param__private.refs
            del refs[name]
            if name in obj._param__private.async_refs:
                obj._param__private.async_refs.pop(name).cancel()

    def _validate_value(self, value, allow_None):
        \"\"\"Validate the parameter value against constraints.
""")
print('ok')
