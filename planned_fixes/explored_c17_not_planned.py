from patchlib import sub
Z='/repo/param/parameterized.py'
# --- C17a: only rebind method callers that belong to the object being restored
sub(Z, """                        fn = watcher.fn
                        if hasattr(fn, '_watcher_name'):
                            watcher_args[2] = _m_caller(self, fn._watcher_name)
""", """                        fn = watcher.fn
                        if hasattr(fn, '_watcher_name'):
                            # Callers installed on behalf of another object
                            # (sub-object dependencies) stay bound to it.
                            if get_method_owner(fn.keywords['function']) is watcher.inst:
                                watcher_args[2] = _m_caller(self, fn._watcher_name)
""")
# --- C17b: picklable, copyable notification callback
sub(Z, """        callback = None
        if depth > 0:
            def callback(*events):
                \"\"\"
                If a subobject changes, we need to notify the main
                object to update the dependencies.
                \"\"\"
                obj.param._update_deps(attribute)
""", """        callback = None
        if depth > 0:
            # If a subobject changes, we need to notify the main
            # object to update the dependencies.
            callback = partial(_update_deps_caller, obj, attribute)
""")
sub(Z, """def _m_caller(self, method_name, what='value', changed=None, callback=None):
""", """def _update_deps_caller(obj, attribute, *events):
    obj.param._update_deps(attribute)


def _m_caller(self, method_name, what='value', changed=None, callback=None):
""")
print('ok')
