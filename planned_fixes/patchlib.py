import re,sys
def sub(path, old, new, count=1):
    s=open(path).read()
    assert s.count(old)>=1, (path, old[:60])
    assert s.count(old)==count, (path, old[:60], s.count(old))
    s=s.replace(old,new); open(path,'w').write(s)
P='/repo/param/parameters.py'
Z='/repo/param/parameterized.py'
R='/repo/param/reactive.py'
