import param, warnings
warnings.simplefilter('ignore')
class Src(param.Parameterized):
    v = param.Parameter(5)
class T(param.Parameterized):
    n = param.Number(1, bounds=(0,10), allow_refs=True)
    c = param.Number(1, bounds=(0,10), allow_refs=True, constant=True)
s_ok=Src(v=3); s_bad=Src(v=99)
t=T(n=s_ok.param.v)
try: t.n = s_bad.param.v
except ValueError as e: print('rejected')
s_ok.v=4; print(' after s_ok.v=4, n=',t.n, '(want 4)')
s_bad.v=7; print(' after s_bad.v=7, n=',t.n, '(want 4)')
try: t.c = s_ok.param.v
except TypeError as e: print('constant rejected; refs', list(t._param__private.refs), '(want [n])')
t.n = s_bad.param.v; print('valid relink n=', t.n); s_bad.v=8; print(' n=',t.n,'(want 8)'); s_ok.v=1; print(' n=',t.n,'(want 8)')
t.n = 2; s_bad.v=9; print('after plain override n=',t.n,'(want 2) refs', list(t._param__private.refs))
