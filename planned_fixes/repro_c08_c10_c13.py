import param, warnings, asyncio, inspect
warnings.simplefilter('ignore')
def nwatch(o): return {k:{kk:len(vv) for kk,vv in v.items()} for k,v in o._param__private.watchers.items()}
class Src(param.Parameterized):
    v = param.Parameter(5)
class T(param.Parameterized):
    n = param.Parameter(1, allow_refs=True)
    m = param.Parameter(1, allow_refs=True)
    l = param.List([], allow_refs=True, nested_refs=True)
s=Src(v=3); t=T(n=s.param.v, m=s.param.v)
t.n = 8; print('C08a one of two links dropped: watchers on s', nwatch(s)); s.v=4; print('  n,m=',t.n,t.m,'(want 8,4)')
t.m = 9; print('  both dropped: watchers on s', nwatch(s), '(want 0)')
s2=Src(v=2); t2=T(); t2.l=[s2.param.v, 10]; s2.v=22; print('C08b later nested:', t2.l, '(want [22,10])')
class A(param.Parameterized):
    x = param.Number(1)
class B(A): pass
class C(B): pass
_=B.param['x']; _=C.param['x']
B.x=5
print('C13:', B.param['x'].default, B.param['x'] is inspect.getattr_static(B,'x'), C.param['x'] is inspect.getattr_static(B,'x'), C.x, '(want 5 True True 5)')
_=list(C.param); A.param.add_parameter('y', param.Number(3)); print('   y in C.param', 'y' in C.param, 'y' in B.param, '(want True True)')
async def main():
    loop=asyncio.get_running_loop(); f1=loop.create_future()
    async def co1(): return await f1
    t=T(); t.n=co1
    for _ in range(3): await asyncio.sleep(0)
    t.n='plain'; (f1.done() or f1.set_result('stale'))
    for _ in range(5): await asyncio.sleep(0)
    print('C10a final n =', t.n, '(want plain)')
    class S(param.Parameterized):
        k = param.Parameter(0)
    s=S(); futs={}
    async def fetch(k):
        futs[k]=loop.create_future(); return await futs[k]
    t2=T(); t2.n=param.bind(fetch, s.param.k)
    for _ in range(3): await asyncio.sleep(0)
    s.k=1
    for _ in range(3): await asyncio.sleep(0)
    s.k=2
    for _ in range(3): await asyncio.sleep(0)
    for k in (2,1,0):
        if k in futs and not futs[k].done(): futs[k].set_result(f'r{k}')
        for _ in range(4): await asyncio.sleep(0)
    print('C10b final n =', t2.n, '(want r2)')
asyncio.run(main())
