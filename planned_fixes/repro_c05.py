import param, warnings
warnings.simplefilter('ignore')
log=[]
class P(param.Parameterized):
    a = param.Number(0, bounds=(0,10)); b = param.Number(0, bounds=(0,10)); e = param.Event()
def mk():
    p=P(); p.param.watch(lambda *ev: log.append([(e.name,e.old,e.new,e.type) for e in ev]), ['a','b','e']); return p
p=mk(); log.clear()
try: p.param.update(a=1, b=99)
except Exception as ex: print('raised', type(ex).__name__)
print('after failing update log=', log, 'BATCH=', p.param._BATCH_WATCH, 'queued=', len(p.param._events))
p=mk(); log.clear()
with param.parameterized.batch_call_watchers(p):
    try: p.param.update(a=1,b=99)
    except Exception: pass
    print('inside outer batch BATCH=', p.param._BATCH_WATCH, 'log', log)
print('after outer batch log', log)
p=P(); log.clear()
def boom(*ev): raise RuntimeError('boom')
w=p.param.watch(boom, ['a'])
try: p.param.trigger('a')
except RuntimeError: pass
print('TRIGGER after failing trigger =', p.param._TRIGGER)
p=P()
try: p.param.update(e=True, a=99)
except Exception: pass
print('Event _mode:', p.param.e._mode, 'value', p.e)
