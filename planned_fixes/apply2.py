from patchlib import sub, Z
# --- C05 _update
sub(Z, """        for tp in trigger_params:
            self_[tp]._mode = 'set'

        values = self_.values()
        restore = {k: values[k] for k, v in kwargs.items() if k in values}

        for (k, v) in kwargs.items():
            if k not in self_:
                self_._BATCH_WATCH = False
                raise ValueError(f"{k!r} is not a parameter of {self_.cls.__name__}")
            try:
                setattr(self_or_cls, k, v)
            except Exception:
                self_._BATCH_WATCH = False
                raise

        self_._BATCH_WATCH = BATCH_WATCH
        if not BATCH_WATCH:
            self_._batch_call_watchers()

        for tp in trigger_params:
            p = self_[tp]
            p._mode = 'reset'
            setattr(self_or_cls, tp, p._autotrigger_reset_value)
            p._mode = 'set-reset'
        return restore
""", """        for tp in trigger_params:
            self_[tp]._mode = 'set'

        try:
            values = self_.values()
            restore = {k: values[k] for k, v in kwargs.items() if k in values}

            for (k, v) in kwargs.items():
                if k not in self_:
                    raise ValueError(f"{k!r} is not a parameter of {self_.cls.__name__}")
                setattr(self_or_cls, k, v)
        finally:
            # Whether or not a value was rejected, leave the batching
            # state as we found it and announce what has been applied.
            self_._BATCH_WATCH = BATCH_WATCH
            try:
                if not BATCH_WATCH:
                    self_._batch_call_watchers()
            finally:
                for tp in trigger_params:
                    p = self_[tp]
                    p._mode = 'reset'
                    try:
                        setattr(self_or_cls, tp, p._autotrigger_reset_value)
                    finally:
                        p._mode = 'set-reset'
        return restore
""")
# --- C05 trigger
sub(Z, """        self_._TRIGGER = True
        self_.update(dict(params, **triggers))
        self_._TRIGGER = False
        self_._events += events
        self_._state_watchers += watchers
""", """        self_._TRIGGER = True
        try:
            self_.update(dict(params, **triggers))
        finally:
            self_._TRIGGER = False
            self_._events += events
            self_._state_watchers += watchers
""")
print('ok')
