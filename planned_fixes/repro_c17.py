import param, warnings, copy, pickle
warnings.simplefilter('ignore')
class C(param.Parameterized):
    x = param.Number(0)
class B(param.Parameterized):
    c = param.ClassSelector(class_=C)
    x = param.Number(0)
class A(param.Parameterized):
    b = param.ClassSelector(class_=B)
    calls = param.Integer(0)
    @param.depends('b.c.x', 'b.x', watch=True)
    def cb(self): self.calls += 1
def nwatch(o): return {k:{kk:len(vv) for kk,vv in v.items()} for k,v in o._param__private.watchers.items()}
for nm,f in [('deepcopy',copy.deepcopy),('pickle',lambda o: pickle.loads(pickle.dumps(o)))]:
    a=A(b=B(c=C()))
    try:
        q=f(a)
    except Exception as e:
        print(nm,'FAILED', type(e).__name__, str(e)[:100]); continue
    q.b.c.x=3; q.b.x=1
    print(nm,'ok; after copy-side sets q.calls',q.calls,'a.calls',a.calls,'(want 2,0)')
    a.b.c.x=5
    print('   after original-side set q.calls',q.calls,'a.calls',a.calls,'(want 2,1)')
    # replace sub-object on the copy; copy must rebind on itself only
    newc=C(x=9); q.b.c=newc
    print('   after q.b.c replaced q.calls',q.calls,'a.calls',a.calls,'(want 3,1)')
    newc.x=10
    print('   after new leaf set q.calls',q.calls,'a.calls',a.calls,'(want 4,1)', 'watchers on a.b.c', nwatch(a.b.c))
