from patchlib import sub, Z
# --- C08: _update_ref rebuilds watchers also when a link is dropped, and honours nested_refs
sub(Z, """        self_.self._param__private.ref_watchers = []
        refs = dict(self_.self._param__private.refs, **{name: ref})
        deps = {name: resolve_ref(ref) for name, ref in refs.items()}
        self_._setup_refs(deps)
        self_.self._param__private.refs = refs
""", """        self_.self._param__private.ref_watchers = []
        refs = dict(self_.self._param__private.refs)
        if ref is None:
            refs.pop(name, None)
        else:
            refs[name] = ref
        deps = {
            pname: resolve_ref(pref, recursive=self_[pname].nested_refs)
            for pname, pref in refs.items()
        }
        self_._setup_refs(deps)
        self_.self._param__private.refs = refs
""")
sub(Z, """        if ref is not None:
            self.owner.param._update_ref(name, ref)
        else:
            refs = obj._param__private.refs
            del refs[name]
            if name in obj._param__private.async_refs:
                obj._param__private.async_refs.pop(name).cancel()
""", """        obj.param._update_ref(name, ref)
""")
# --- C10: await outside the syncing scope; the newest task takes over ownership
sub(Z, """        elif current_task is not running_task:
            self_.self._param__private.async_refs[pname].cancel()
""", """        elif current_task is not running_task:
            self_.self._param__private.async_refs.pop(pname).cancel()
            self_.self._param__private.async_refs[pname] = current_task
""")
sub(Z, """                with _syncing(self_.self, (pname,)):
                    try:
                        self_.update({pname: await awaitable})
                    except Skip:
                        pass
""", """                try:
                    new_obj = await awaitable
                except Skip:
                    pass
                else:
                    with _syncing(self_.self, (pname,)):
                        try:
                            self_.update({pname: new_obj})
                        except Skip:
                            pass
""")
# --- C13: invalidate the .param cache of the class and of its subclasses
sub(Z, """        cls = self_.cls
        type.__setattr__(cls, param_name, param_obj)
        ParameterizedMetaclass._initialize_parameter(cls, param_name, param_obj)
        # delete cached params()
        cls._param__private.params.clear()
""", """        cls = self_.cls
        type.__setattr__(cls, param_name, param_obj)
        ParameterizedMetaclass._initialize_parameter(cls, param_name, param_obj)
        # delete cached params()
        cls._clear_params_cache()
""")
sub(Z, """            if owning_class != mcs:
                parameter = copy.copy(parameter)
                parameter.owner = mcs
                type.__setattr__(mcs,attribute_name,parameter)
            mcs.__dict__[attribute_name].__set__(None,value)

        else:
            type.__setattr__(mcs,attribute_name,value)

            if isinstance(value,Parameter):
                mcs.__param_inheritance(attribute_name,value)
""", """            if owning_class != mcs:
                parameter = copy.copy(parameter)
                parameter.owner = mcs
                type.__setattr__(mcs,attribute_name,parameter)
                mcs._clear_params_cache()
            mcs.__dict__[attribute_name].__set__(None,value)

        else:
            type.__setattr__(mcs,attribute_name,value)

            if isinstance(value,Parameter):
                mcs.__param_inheritance(attribute_name,value)
                mcs._clear_params_cache()

    def _clear_params_cache(mcs):
        \"\"\"Drop the cached `.param` lookup of this class and of all its subclasses.\"\"\"
        for cls in descendents(mcs):
            private = cls.__dict__.get('_param__private')
            if private is not None:
                private.params = {}
""")
print('ok')
