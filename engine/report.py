"""Obligations, findings, known-findings matching, evidence and replay files."""
from __future__ import annotations

import json
import os
import re
import time
from typing import Dict, List, Optional

from .cfg import Node
from .facts import Facts
from .hierarchy import Hierarchy
from .loader import AnalysisError, Func, Repo, norm, norm_stmt

VERIF = os.path.dirname(os.path.dirname(os.path.abspath(__file__)))
KNOWN_FILE = os.path.join(VERIF, "KNOWN_FINDINGS.txt")


class Obligation:
    __slots__ = ("rule", "where", "func", "instance", "verdict", "detail", "witness", "key", "input")

    def __init__(self, rule, where, func, instance, verdict, detail="", witness=None, key=None, input=None):
        self.rule = rule
        self.where = where
        self.func = func
        self.instance = instance
        self.verdict = verdict  # ok | violation | info
        self.detail = detail
        self.witness = witness or []
        self.key = key
        self.input = input

    def as_dict(self):
        d = {"rule": self.rule, "site": self.where, "function": self.func,
             "instance": self.instance, "verdict": self.verdict}
        if self.detail:
            d["detail"] = self.detail
        if self.witness:
            d["witness"] = self.witness
        if self.key:
            d["key"] = self.key
        if self.input:
            d["breaking_input"] = self.input
        return d


def _squash(s: str) -> str:
    return re.sub(r"\s+", " ", s.replace('"', "'")).strip()


class Ctx:
    """Everything a check needs, plus the obligation log."""

    def __init__(self, prop: str, repo: Repo, tier: str = "quick", seed: int = 0):
        self.prop = prop
        self.repo = repo
        self.hier = Hierarchy(repo)
        self.facts = Facts(repo, self.hier)
        self.tier = tier
        self.seed = seed
        self.obligations: List[Obligation] = []
        self.rules: Dict[str, str] = {}
        self.floors: Dict[str, int] = {}
        self.assumptions: List[str] = []
        self.not_decided: List[str] = []
        self.extra: Dict[str, object] = {}
        self.abstract_cases = 0
        self.exhaustive = False

    # ---------------------------------------------------------------- rules
    def rule(self, rid: str, text: str, floor: int = 1):
        """Declare a rule and the minimum number of instances it must be
        evaluated on (vacuity floor, confirmed by hand on the pinned tree)."""
        self.rules[rid] = text
        self.floors[rid] = floor

    def _site(self, func, node):
        if isinstance(func, Func):
            ln = None
            if isinstance(node, Node):
                ln = node.lineno
            elif node is not None:
                ln = getattr(node, "lineno", None)
            return "%s:%d" % (func.file, ln or func.lineno), func.qualname
        return str(func), str(func)

    def _inst(self, node):
        if isinstance(node, Node):
            return node.text()
        if node is None:
            return ""
        if isinstance(node, str):
            return node
        return norm_stmt(node)

    def ok(self, rule, func, node, detail=""):
        where, q = self._site(func, node)
        self.obligations.append(Obligation(rule, where, q, self._inst(node), "ok", detail))

    def info(self, rule, func, node, detail=""):
        where, q = self._site(func, node)
        self.obligations.append(Obligation(rule, where, q, self._inst(node), "info", detail))

    def fail(self, rule, func, node, what, witness=None, key=None, input=None):
        where, q = self._site(func, node)
        inst = self._inst(node)
        k = key or ("%s::%s" % (q, _squash(inst)))
        if any(o.rule == rule and o.key == k and o.verdict == "violation" for o in self.obligations):
            return  # one report per (rule, construct)
        self.obligations.append(Obligation(rule, where, q, inst, "violation", what, witness, k, input))

    def require(self, cond, msg):
        if not cond:
            raise AnalysisError(msg)

    def count(self, rule):
        return sum(1 for o in self.obligations if o.rule == rule and o.verdict in ("ok", "violation"))

    def check_floors(self):
        for rid, fl in self.floors.items():
            n = self.count(rid)
            if n < fl:
                raise AnalysisError(
                    "rule %s was evaluated on %d instance(s), below the floor %d confirmed on the pinned tree "
                    "(an anchor moved or a recogniser no longer matches: the rule would pass vacuously)" % (rid, n, fl))

    @property
    def violations(self):
        return [o for o in self.obligations if o.verdict == "violation"]


# ------------------------------------------------------------ known findings
class Known:
    def __init__(self, path=KNOWN_FILE):
        self.known = []   # (prop, rule, key, what)
        self.fixed = []
        if os.path.exists(path):
            for line in open(path, encoding="utf-8"):
                line = line.strip()
                if not line or line.startswith("#"):
                    continue
                if line.startswith("known:"):
                    body = line[len("known:"):].strip()
                    m = re.match(r"property=(\S+)\s+rule=(\S+)\s+key=(.*?)\s+::\s+(.*)$", body)
                    if not m:
                        raise AnalysisError("malformed known-findings line: %s" % line)
                    self.known.append((m.group(1), m.group(2), _squash(m.group(3)), m.group(4)))
                elif line.startswith("fixed:"):
                    self.fixed.append(line)
                else:
                    raise AnalysisError("malformed known-findings line: %s" % line)

    def match(self, prop, ob: Obligation):
        for p, r, k, what in self.known:
            if p == prop and r == ob.rule and k == _squash(ob.key or ""):
                return what
        return None


# ------------------------------------------------------------------ evidence
def write_evidence(ctx: Ctx, wall: float, n_unlisted: int, known_hits, selftest=None, path=None):
    obs = [o for o in ctx.obligations if o.verdict in ("ok", "violation")]
    distinct = len({(o.rule, o.func, o.instance) for o in obs})
    samples = []
    per_rule_seen: Dict[str, int] = {}
    for o in ctx.obligations:
        c = per_rule_seen.get(o.rule, 0)
        if o.verdict == "violation" or c < 3:
            samples.append(o.as_dict())
            per_rule_seen[o.rule] = c + 1
    per_rule = {}
    for rid in ctx.rules:
        per_rule[rid] = {
            "text": ctx.rules[rid],
            "instances": ctx.count(rid),
            "floor": ctx.floors[rid],
            "violations": sum(1 for o in ctx.obligations if o.rule == rid and o.verdict == "violation"),
        }
    discharged = sum(1 for o in obs if o.verdict == "ok")
    cov = {
        "explanation": (
            "Static analysis of /repo's current source (stdlib ast; nothing is imported or executed). "
            "Each rule below is a structural obligation that is a necessary condition of the property; "
            "the run evaluates it on every site it is instantiated on and reports each site. "
            "Decided here: " + "; ".join("%s: %s" % (r, t) for r, t in ctx.rules.items())
            + ". NOT decided (outside this technique): " + ("; ".join(ctx.not_decided) or "-")
        ),
        "evaluations": len(obs) + ctx.abstract_cases,
        "distinct_nontrivial": distinct + ctx.abstract_cases,
        "rule": ("one evaluation = one rule instance on one code site (function, statement, class or table entry) "
                 "or one abstract case of a finite-domain enumeration; distinct = distinct (rule, function, construct) "
                 "triples / distinct abstract inputs; every counted instance had something to check "
                 "(sites where a rule does not apply are not counted)"),
        "obligations": len(obs),
        "discharged": discharged,
        "samples": samples[:60],
        "rules": per_rule,
        "exhaustive": bool(ctx.exhaustive),
        "abstract_cases": ctx.abstract_cases,
        "unresolved_calls": ctx.facts.unresolved_calls,
        "resolved_calls": ctx.facts.resolved_calls,
        "files": ctx.repo.digests(),
        "consulted_modules": sorted(ctx.repo.consulted),
        "known_findings_reported": known_hits,
        "checker_cmd": "/venv/bin/python /verif/bin/check.py %s --tier %s" % (ctx.prop, ctx.tier),
        "trusted_base": ["CPython ast parser", "the may-raise model and alias table of DESIGN.md §2.3/§2.4"],
    }
    cov.update(ctx.extra)
    if selftest is not None:
        cov["selftest"] = selftest
    ev = {
        "property_id": ctx.prop,
        "tier": ctx.tier,
        "seed": ctx.seed,
        "level": "other",
        "coverage": cov,
        "assumptions": ctx.assumptions + [
            "call resolution is AST-level (static MRO + the repo's `.param`/`self_` alias table); unresolved calls are may-raise, no tracked effect",
            "the may-raise model ignores MemoryError/KeyboardInterrupt and exceptions from builtin container operations on locals",
        ],
        "wall_s": round(wall, 3),
        "violations": n_unlisted,
    }
    path = path or os.path.join(VERIF, "evidence", "%s.json" % ctx.prop)
    os.makedirs(os.path.dirname(path), exist_ok=True)
    with open(path, "w", encoding="utf-8") as fh:
        json.dump(ev, fh, indent=1, default=str)
    return path


def write_replay(ctx: Ctx, ob: Obligation, n: int):
    d = os.path.join(VERIF, "evidence", "replay")
    os.makedirs(d, exist_ok=True)
    p = os.path.join(d, "%s-%d.json" % (ctx.prop, n))
    with open(p, "w", encoding="utf-8") as fh:
        json.dump({"property": ctx.prop, "rule": ob.rule, "rule_text": ctx.rules.get(ob.rule, ""),
                   "finding": ob.as_dict(), "repo": ctx.repo.root}, fh, indent=1)
    return p
