"""Static-analysis engine for holoviz/param (pure stdlib ``ast``).

Nothing in this package imports or executes ``param``; every fact is read
from the source files of /repo's current working tree.
"""
