"""Finite-domain abstract interpreter for small pure functions (DESIGN.md §2.5).

Abstract values: Python constants (None, True, False, str, int), tuples/lists/
dicts of abstract values, symbolic bounds ``LO < HI``, a value in one of the
ordering classes {<LO, =LO, (LO,HI), =HI, >HI, UNORD}, opaque objects with an
attribute map, and TOP.  A branch on TOP explores both arms (choice sequence
enumeration) and marks the outcome imprecise.  No path conditions, no solver.
"""
from __future__ import annotations

import ast
import collections as _collections
from typing import Any, Callable, Dict, List, Optional, Tuple

from .hierarchy import Hierarchy
from .loader import AnalysisError, Func, norm


class _Top:
    def __repr__(self):
        return "TOP"


TOP = _Top()


class Sym:
    """A declared bound; LO at position 1, HI at position 3 of the order."""

    def __init__(self, name, pos):
        self.name, self.pos = name, pos

    def __repr__(self):
        return self.name


LO, HI = Sym("LO", 1), Sym("HI", 3)
CLASSES = {0: "<LO", 1: "=LO", 2: "(LO,HI)", 3: "=HI", 4: ">HI", "U": "UNORD"}


class Val:
    """A candidate value known only by its ordering class."""

    def __init__(self, cls):
        self.cls = cls

    @property
    def pos(self):
        return self.cls

    def __repr__(self):
        return "val[%s]" % CLASSES[self.cls]


class Sized:
    """An object whose ``len()`` is an abstract integer in an ordering class."""

    def __init__(self, cls):
        self.length = Val(cls)

    def __repr__(self):
        return "sized[%s]" % CLASSES[self.length.cls]


class Obj:
    def __init__(_self, _objname, **attrs):
        _self.name = _objname
        _self.attrs = dict(attrs)

    def __repr__(self):
        return "<%s>" % self.name


class Record:
    def __init__(self, name, kwargs):
        self.name, self.kwargs = name, kwargs

    def __repr__(self):
        return "%s(%s)" % (self.name, ", ".join("%s=%r" % kv for kv in sorted(self.kwargs.items())))


class Closure:
    """A lambda together with the environment it was created in."""

    def __init__(self, node, env, func):
        self.node, self.env, self.func = node, env, func

    def __repr__(self):
        return "<lambda>"


_NOT_EVALUATED = object()


def _hashable_key(k):
    """A key the interpreter may use in a Python dict as it is: constants, abstract objects (identity), tuples of these."""
    if k is None or isinstance(k, (str, int, Obj)):
        return True
    return isinstance(k, tuple) and all(_hashable_key(x) for x in k)


class LazyGen:
    """A generator expression that has not been consumed yet.  As in Python, the first iterable was evaluated
    when the expression was created; everything else is evaluated when it is consumed, in the enclosing
    environment AS IT IS THEN (late binding of the enclosing function's variables)."""

    def __init__(self, node, first_iter, env, func):
        self.node, self.first_iter, self.env, self.func = node, first_iter, env, func
        self.done = None

    def __repr__(self):
        return "<generator>"


class DefClosure:
    """A nested `def` together with the (live) environment of the enclosing call."""

    def __init__(self, node, env, func):
        self.node, self.env, self.func = node, env, func
        self.attrs = {}          # function attributes (f._dinfo = ...)

    def __repr__(self):
        return "<nested function %s>" % self.node.name


class ContainerMethod:
    """getattr(<abstract list/dict>, '<name>')"""

    def __init__(self, base, name):
        self.base, self.name = base, name


class BuiltinRef:
    """A builtin function used as a value (`check = issubclass if ... else isinstance`); calling it goes through the hook under its own name."""

    def __init__(self, name):
        self.name = name

    def __repr__(self):
        return "<builtin %s>" % self.name


BUILTIN_FUNC_VALUES = {"isinstance", "issubclass", "callable", "len", "hasattr", "getattr", "repr", "str"}


class PyFunc:
    """A library function modelled by a Python function of the check (held in a variable by the code)."""

    def __init__(self, name, fn):
        self.name, self.fn = name, fn

    def __repr__(self):
        return "<function %s>" % self.name


class BoundMethod:
    """A method of a repo class bound to a class-typed abstract object."""

    def __init__(self, obj, func):
        self.obj, self.func = obj, func

    def __repr__(self):
        return "<bound %s of %r>" % (self.func.name, self.obj)


class AttrGetter:
    """operator.attrgetter('name') as a key function."""

    def __init__(self, attr):
        self.attr = attr


class _Return(Exception):
    def __init__(self, value):
        self.value = value


class _Raise(Exception):
    def __init__(self, what, value=None):
        self.what = what
        self.value = value      # the abstract exception object, when the code binds / re-raises it


class _Continue(Exception):
    pass


class _Break(Exception):
    pass


class Unsupported(Exception):
    pass


class Outcome:
    def __init__(self, kind, value, imprecise, notes):
        self.kind, self.value, self.imprecise, self.notes = kind, value, imprecise, notes
        self.trace: List[str] = []

    def __repr__(self):
        return "%s%s%s" % (self.kind, "" if self.value is None else "(%r)" % (self.value,), " ~imprecise" if self.imprecise else "")


ORDER_PRESERVING = {"_to_datetime"}
BUILTIN_TYPE_NAMES = {"int", "float", "complex", "str", "bytes", "tuple", "list", "dict", "set", "frozenset", "bool", "object", "type"}
OPAQUE_PREDICATES = {"isinstance", "issubclass", "_is_number", "hasattr"}


class Interp:
    def __init__(self, hier: Hierarchy, dyn: Optional[str] = None,
                 inline: Callable[[str], bool] = lambda m: False,
                 self_obj: Optional[Obj] = None, max_steps=20000, call_hook=None, globals=None,
                 strict_self_calls: bool = False, inline_module_functions: bool = False):
        self.hier = hier
        self.inline_module_functions = inline_module_functions
        self.resolve_module_constants = inline_module_functions
        self._resolving = set()
        self._class_consts = {}
        self.lazy_generators = False      # models that care about late binding switch this on
        self.yield_hook = None
        self.await_hook = None
        # a self-call that is neither hooked nor inlined is a silent no-op unless strict
        self.strict_self_calls = strict_self_calls
        self.dyn = dyn
        self.inline = inline
        self.self_obj = self_obj
        self.choices: List[bool] = []
        self.cursor = 0
        self.imprecise = False
        self.notes: List[str] = []
        self.steps = 0
        self.max_steps = max_steps
        # call_hook(name_text, args, kwargs) -> value, or NotImplemented to fall through
        self.call_hook = call_hook
        self.trace: List[str] = []
        self.globals = dict(globals or {})      # abstract values of module-level names

    # ------------------------------------------------------------ driver
    def run_all(self, f: Func, args: Dict[str, Any]) -> List[Outcome]:
        """All outcomes over every resolution of TOP branches."""
        outs = []
        self.choices = []
        while True:
            self.cursor = 0
            self.imprecise = False
            self.notes = []
            self.steps = 0
            self.trace = []
            o = self._run_once(f, args)
            o.trace = list(self.trace)
            outs.append(o)
            # next choice sequence
            while self.choices and self.choices[-1] is True:
                self.choices.pop()
            if not self.choices:
                break
            self.choices[-1] = True
            if len(outs) > 64:
                raise AnalysisError("absint: too many imprecise branches in %s" % f.qualname)
        return outs

    def _run_once(self, f: Func, args) -> Outcome:
        try:
            v = self.call_func(f, dict(args))
            return Outcome("return", v, self.imprecise, list(self.notes))
        except _Raise as r:
            return Outcome("raise", r.what, self.imprecise, list(self.notes))

    def call_func(self, f: Func, env: Dict[str, Any]):
        # bind defaults for parameters that were not supplied
        a = f.node.args
        pos = a.posonlyargs + a.args
        defaults = [None] * (len(pos) - len(a.defaults)) + list(a.defaults)
        for p, d in zip(pos, defaults):
            if p.arg not in env and d is not None:
                env[p.arg] = self.eval(d, {}, f)
        for p, d in zip(a.kwonlyargs, a.kw_defaults):
            if p.arg not in env and d is not None:
                env[p.arg] = self.eval(d, {}, f)
        try:
            self.exec_block(f.node.body, env, f)
        except _Return as r:
            return r.value
        return None

    # -------------------------------------------------------- statements
    def exec_block(self, stmts, env, f):
        for st in stmts:
            self.exec(st, env, f)

    def decide(self, v, what="") -> bool:
        t = self.truth(v)
        if t is TOP:
            self.imprecise = True
            self.notes.append("branch on TOP: %s" % what)
            if self.cursor >= len(self.choices):
                self.choices.append(False)
            c = self.choices[self.cursor]
            self.cursor += 1
            return c
        return t

    def exec(self, st, env, f):
        self.steps += 1
        if self.steps > self.max_steps:
            raise AnalysisError("absint: step limit in %s" % f.qualname)
        if isinstance(st, ast.Expr) and isinstance(st.value, (ast.Yield, ast.Await)):
            self.suspend(st.value, env, f)
            return
        if isinstance(st, ast.Expr):
            if isinstance(st.value, ast.Constant):
                return
            self.eval(st.value, env, f)
        elif isinstance(st, ast.Assert):
            if not self.decide(self.truth(self.eval(st.test, env, f)), "assert " + norm(st.test)):
                raise _Raise("AssertionError")
        elif isinstance(st, ast.Pass):
            return
        elif isinstance(st, ast.Assign):
            v = self.eval(st.value, env, f)
            for t in st.targets:
                self.assign(t, v, env, f)
        elif isinstance(st, ast.AnnAssign):
            if st.value is not None:
                self.assign(st.target, self.eval(st.value, env, f), env, f)
        elif isinstance(st, ast.If):
            if self.decide(self.eval(st.test, env, f), norm(st.test)):
                self.exec_block(st.body, env, f)
            else:
                self.exec_block(st.orelse, env, f)
        elif isinstance(st, ast.For):
            it = self.force(self.eval(st.iter, env, f))
            if isinstance(it, dict):
                it = list(it.keys())
            if isinstance(it, Obj) and "__iter__" in it.attrs:
                it = it.attrs["__iter__"]      # an opaque container with known abstract elements
            if not isinstance(it, (list, tuple)):
                raise Unsupported("iteration over %r (%s)" % (it, norm(st.iter)))
            broke = False
            for item in it:
                self.assign(st.target, item, env, f)
                try:
                    self.exec_block(st.body, env, f)
                except _Continue:
                    continue
                except _Break:
                    broke = True
                    break
            if not broke:
                self.exec_block(st.orelse, env, f)
        elif isinstance(st, ast.Return):
            raise _Return(None if st.value is None else self.eval(st.value, env, f))
        elif isinstance(st, ast.Raise):
            what = "?"
            if st.exc is not None:
                e = st.exc.func if isinstance(st.exc, ast.Call) else st.exc
                what = norm(e)
                if not isinstance(st.exc, ast.Call) and not (isinstance(e, ast.Name) and e.id[:1].isupper()):
                    # `raise <expression>`: an exception object held in a variable / attribute
                    v = self.eval(st.exc, env, f)
                    if isinstance(v, Obj) and "__exc__" in v.attrs:
                        raise _Raise(v.attrs["__exc__"], v)
                    if v is TOP:
                        raise Unsupported("raise of an unknown value `%s`" % what)
            raise _Raise(what)
        elif isinstance(st, ast.Continue):
            raise _Continue()
        elif isinstance(st, ast.Break):
            raise _Break()
        elif isinstance(st, (ast.Import, ast.ImportFrom)):
            return
        elif isinstance(st, ast.With):
            for item in st.items:
                v = self.eval(item.context_expr, env, f)
                if item.optional_vars is not None:
                    self.assign(item.optional_vars, v, env, f)
            self.exec_block(st.body, env, f)
        elif isinstance(st, ast.While):
            rounds = 0
            while self.decide(self.eval(st.test, env, f), norm(st.test)):
                rounds += 1
                if rounds > 12:
                    raise Unsupported("while loop does not terminate within 12 abstract iterations (%s)" % norm(st.test))
                try:
                    self.exec_block(st.body, env, f)
                except _Continue:
                    continue
                except _Break:
                    break
            else:
                self.exec_block(st.orelse, env, f)
        elif isinstance(st, ast.Try):
            # abstract runs raise only through explicit `raise`; handlers that name
            # the raised exception class (or catch everything) take over
            flow = (_Raise, _Return, _Break, _Continue)
            try:
                try:
                    self.exec_block(st.body, env, f)
                except _Raise as r:
                    for h in st.handlers:
                        names = [] if h.type is None else ([norm(x) for x in h.type.elts] if isinstance(h.type, ast.Tuple) else [norm(h.type)])
                        if h.type is None or r.what in names or "Exception" in names or "BaseException" in names:
                            if h.name:
                                if r.value is None:
                                    r.value = Obj("exception:" + str(r.what), __exc__=r.what)
                                env[h.name] = r.value
                            try:
                                self.exec_block(h.body, env, f)
                            except _Raise as r2:
                                if r2.what == "?":      # bare `raise` re-raises the handled exception
                                    raise r from None
                                raise
                            break
                    else:
                        raise
                else:
                    self.exec_block(st.orelse, env, f)
            except flow:
                # the finally clause runs on every way out; an exit of its own replaces the pending one
                self.exec_block(st.finalbody, env, f)
                raise
            self.exec_block(st.finalbody, env, f)
        elif isinstance(st, (ast.FunctionDef, ast.AsyncFunctionDef)):
            clo = DefClosure(st, env, f)
            for dec in reversed(st.decorator_list):
                dv = self.eval(dec, env, f)
                if isinstance(dv, PyFunc):
                    clo = dv.fn(clo)
                else:
                    raise Unsupported("decorator `%s` of the nested function %s" % (norm(dec), st.name))
            env[st.name] = clo
        elif isinstance(st, ast.Delete):
            for t in st.targets:
                if isinstance(t, ast.Name):
                    env.pop(t.id, None)
                elif isinstance(t, ast.Subscript) and isinstance(t.slice, ast.Slice):
                    base = self.eval(t.value, env, f)
                    lo = None if t.slice.lower is None else self.eval(t.slice.lower, env, f)
                    hi = None if t.slice.upper is None else self.eval(t.slice.upper, env, f)
                    if isinstance(base, list) and t.slice.step is None and all(x is None or (isinstance(x, int) and not isinstance(x, bool)) for x in (lo, hi)):
                        del base[lo:hi]
                    else:
                        raise Unsupported("del %s[%r:%r]" % (norm(t.value), lo, hi))
                elif isinstance(t, ast.Subscript) and not isinstance(t.slice, ast.Slice):
                    base = self.eval(t.value, env, f)
                    key = self.eval(t.slice, env, f)
                    if isinstance(base, list) and isinstance(key, int) and not isinstance(key, bool):
                        if not (-len(base) <= key < len(base)):
                            raise _Raise("IndexError")
                        del base[key]
                    elif isinstance(base, dict) and isinstance(key, (str, int)):
                        if key not in base:
                            raise _Raise("KeyError")
                        del base[key]
                    else:
                        raise Unsupported("del %s[%r]" % (norm(t.value), key))
                else:
                    raise Unsupported("del %s" % norm(t))
        elif isinstance(st, ast.AugAssign):
            cur = self.eval(st.target, env, f)
            v = self.eval(st.value, env, f)
            if isinstance(st.op, ast.Add) and isinstance(cur, list) and isinstance(v, list):
                cur.extend(v)
            elif isinstance(st.op, ast.BitOr) and isinstance(cur, set) and isinstance(v, set):
                cur |= v             # in place, like the real set
            elif isinstance(st.op, ast.Add) and isinstance(cur, str) and isinstance(v, str) and not cur.startswith("<") and not v.startswith("<"):
                self.assign(st.target, cur + v, env, f)
            elif all(isinstance(x, int) and not isinstance(x, bool) for x in (cur, v)) and isinstance(st.op, (ast.Add, ast.Sub, ast.Mult)):
                self.assign(st.target, cur + v if isinstance(st.op, ast.Add) else cur - v if isinstance(st.op, ast.Sub) else cur * v, env, f)
            else:
                self.assign(st.target, TOP, env, f)
        else:
            raise Unsupported("statement %s" % type(st).__name__)

    def assign(self, target, v, env, f):
        if isinstance(target, ast.Name):
            env[target.id] = v
        elif isinstance(target, (ast.Tuple, ast.List)):
            if v is TOP:
                for e in target.elts:
                    self.assign(e, TOP, env, f)
                return
            stars = [i for i, e in enumerate(target.elts) if isinstance(e, ast.Starred)]
            if len(stars) == 1 and isinstance(v, (tuple, list)):
                # a, *rest, z = sequence
                i = stars[0]
                after = len(target.elts) - i - 1
                if len(v) < len(target.elts) - 1:
                    raise _Raise("ValueError")
                for e, x in zip(target.elts[:i], v[:i]):
                    self.assign(e, x, env, f)
                self.assign(target.elts[i].value, list(v[i:len(v) - after]), env, f)
                for e, x in zip(target.elts[i + 1:], v[len(v) - after:] if after else []):
                    self.assign(e, x, env, f)
                return
            if not isinstance(v, (tuple, list)) or len(v) != len(target.elts):
                if v is None:
                    raise _Raise("TypeError")
                raise Unsupported("unpacking %r into %s" % (v, norm(target)))
            for e, x in zip(target.elts, v):
                self.assign(e, x, env, f)
        elif isinstance(target, ast.Subscript) and isinstance(target.slice, ast.Slice):
            base = self.eval(target.value, env, f)
            lo = None if target.slice.lower is None else self.eval(target.slice.lower, env, f)
            hi = None if target.slice.upper is None else self.eval(target.slice.upper, env, f)
            if isinstance(base, list) and isinstance(v, (list, tuple)) and target.slice.step is None \
                    and all(x is None or (isinstance(x, int) and not isinstance(x, bool)) for x in (lo, hi)):
                base[lo:hi] = list(v)
            else:
                raise Unsupported("slice assignment on %r" % (base,))
        elif isinstance(target, ast.Subscript):
            base = self.eval(target.value, env, f)
            key = self.eval(target.slice, env, f)
            if isinstance(base, dict) and _hashable_key(key):
                base[key] = v
            elif isinstance(base, list) and isinstance(key, int) and not isinstance(key, bool) and -len(base) <= key < len(base):
                base[key] = v
            elif isinstance(base, dict):
                raise Unsupported("dict store with non-constant key %r" % (key,))
            else:
                raise Unsupported("subscript store on %r" % (base,))
        elif isinstance(target, ast.Attribute):
            base = self.eval(target.value, env, f)
            if isinstance(base, Obj):
                if "__cls__" in base.attrs and target.attr not in base.attrs:
                    st_ = self.hier.property_setter(base.attrs["__cls__"], target.attr)
                    if st_ is not None:
                        self.invoke(st_, [v], {}, base)
                        return
                base.attrs[target.attr] = v
            elif isinstance(base, DefClosure):
                base.attrs[target.attr] = v
            else:
                raise Unsupported("attribute store on %r" % (base,))
        else:
            raise Unsupported("assignment target %s" % type(target).__name__)

    # ------------------------------------------------------- expressions
    def truth(self, v):
        if v is TOP:
            return TOP
        if v is None or v is False:
            return False
        if v is True:
            return True
        if isinstance(v, (str, int, float, tuple, list, dict, set)):
            return bool(v)
        if isinstance(v, Obj) and "__bool__" in v.attrs:
            b = v.attrs["__bool__"]
            return b() if callable(b) else b
        if isinstance(v, (Obj, Record, Sized, DefClosure, Closure, PyFunc, BoundMethod)):
            return True
        if isinstance(v, (Val, Sym)):
            return TOP
        return TOP

    def compare(self, op, a, b):
        if isinstance(op, (ast.Is, ast.IsNot)):
            if a is TOP or b is TOP:
                return TOP
            same = a is b if not (isinstance(a, (str, int)) and isinstance(b, (str, int))) else (a is b or (type(a) is type(b) and a == b))
            if isinstance(a, (Val, Sym, Obj, Record, Sized, tuple, list, dict)) and (b is None or b is True or b is False):
                same = False
            if isinstance(b, (Val, Sym, Obj, Record, Sized, tuple, list, dict)) and (a is None or a is True or a is False):
                same = False
            return same if isinstance(op, ast.Is) else (not same)
        if isinstance(op, (ast.Lt, ast.LtE, ast.Gt, ast.GtE)):
            if a is TOP or b is TOP:
                return TOP
            if a is None or b is None:
                raise _Raise("TypeError")
            if isinstance(a, (Val, Sym)) and isinstance(b, (Val, Sym)):
                if a.pos == "U" or b.pos == "U":
                    return False
                pa, pb = a.pos, b.pos
            elif isinstance(a, (int, float, str)) and isinstance(b, type(a)) and not isinstance(a, bool):
                pa, pb = a, b
            else:
                return TOP
            return {ast.Lt: pa < pb, ast.LtE: pa <= pb, ast.Gt: pa > pb, ast.GtE: pa >= pb}[type(op)]
        if isinstance(op, (ast.Eq, ast.NotEq)):
            if a is TOP or b is TOP:
                return TOP
            if isinstance(a, (Val, Sym)) and isinstance(b, (Val, Sym)):
                if a.pos == "U" or b.pos == "U":
                    eq = False
                else:
                    eq = a.pos == b.pos
            elif isinstance(a, Obj) and isinstance(b, Obj) and "__cls__" in a.attrs and "__cls__" in b.attrs and "__eqclass__" not in a.attrs:
                eq = a is b          # objects of repo classes modelled without __eq__: identity
            elif isinstance(a, Obj) and isinstance(b, Obj) and (a is b or "__eqclass__" in a.attrs or "__eqclass__" in b.attrs):
                # objects modelled with value equality (namedtuples): equal iff same class of equal values
                eq = a is b or (a.attrs.get("__eqclass__") is not None and a.attrs.get("__eqclass__") == b.attrs.get("__eqclass__"))
            elif isinstance(a, (Val, Sym, Obj, Record, Sized)) or isinstance(b, (Val, Sym, Obj, Record, Sized)):
                if a is None or b is None or isinstance(a, (str, bool)) or isinstance(b, (str, bool)):
                    eq = False
                else:
                    return TOP
            else:
                eq = a == b
            return eq if isinstance(op, ast.Eq) else (not eq)
        if isinstance(op, (ast.In, ast.NotIn)):
            if a is TOP or b is TOP:
                return TOP
            if isinstance(a, str) and isinstance(b, str) and not a.startswith("<") and not b.startswith("<"):
                return (a in b) if isinstance(op, ast.In) else (a not in b)
            if isinstance(b, (tuple, list)) and isinstance(a, float) and all(isinstance(x, (str, int, float, type(None))) for x in b):
                r = a in b           # a concrete float among constants
                return r if isinstance(op, ast.In) else (not r)
            if isinstance(b, (tuple, list, dict)) and isinstance(a, (str, int, type(None))):
                if isinstance(b, dict) or all(isinstance(x, (str, int, type(None))) for x in b):
                    r = a in b
                    return r if isinstance(op, ast.In) else (not r)
            if isinstance(b, set) and isinstance(a, (str, int)):
                r = a in b
                return r if isinstance(op, ast.In) else (not r)
            if isinstance(b, set) and isinstance(a, tuple) and _hashable_key(a) and not any(isinstance(x, Obj) for x in a):
                r = a in b
                return r if isinstance(op, ast.In) else (not r)
            if isinstance(b, Obj) and "__contains__" in b.attrs and isinstance(a, (str, int)):
                r = a in b.attrs["__contains__"]
                return r if isinstance(op, ast.In) else (not r)
            if isinstance(b, dict) and isinstance(a, tuple) and all(isinstance(x, (str, int, type(None))) for x in a):
                r = a in b
                return r if isinstance(op, ast.In) else (not r)

            def _plain(k):
                # constants and ("id", n) tokens, nested in tuples: Python equality is the run-time equality
                return k is None or isinstance(k, (str, int)) or (isinstance(k, tuple) and all(_plain(x) for x in k))
            if isinstance(b, dict) and isinstance(a, tuple) and _plain(a) and all(_plain(k) for k in b):
                r = a in b
                return r if isinstance(op, ast.In) else (not r)
            if isinstance(b, dict) and isinstance(a, Obj) and any(isinstance(k, Obj) for k in b):
                r = any(k is a for k in b)
                return r if isinstance(op, ast.In) else (not r)
            if isinstance(b, (dict, set)) and all(isinstance(k, (str, int)) for k in b) and isinstance(a, (tuple, Obj)):
                # a tuple / opaque object never equals a string or integer key
                return isinstance(op, ast.NotIn)
            if isinstance(b, (tuple, list)):
                # membership is identity-or-equality: decidable for an empty
                # container and when the very same abstract object is in it
                if len(b) == 0:
                    return isinstance(op, ast.NotIn)
                if any(x is a for x in b):
                    return isinstance(op, ast.In)
                if isinstance(a, Obj) and all(isinstance(x, Obj) for x in b):
                    # abstract objects are distinct unless they share a value-equality class
                    ec = a.attrs.get("__eqclass__")
                    r = ec is not None and any(x.attrs.get("__eqclass__") == ec for x in b)
                    return r if isinstance(op, ast.In) else (not r)
                if (a is None or isinstance(a, (str, int))) and all(isinstance(x, Obj) for x in b):
                    return isinstance(op, ast.NotIn)
                if isinstance(a, Obj) and "__eqclass__" not in a.attrs and all(x is None or isinstance(x, (str, int)) for x in b):
                    return isinstance(op, ast.NotIn)      # an abstract object is none of these constants
            return TOP
        raise Unsupported("comparison %s" % type(op).__name__)

    def force(self, v):
        """Consume a pending generator expression (now, with the enclosing variables as they are now)."""
        if isinstance(v, LazyGen):
            if v.done is None:
                r = self.eval(v.node, v.env, v.func, first_iter=v.first_iter)
                v.done = r if r is not TOP else TOP
                got, v.done = v.done, []          # a generator can be consumed once
                return got
            return v.done
        return v

    def eval(self, e, env, f, first_iter=_NOT_EVALUATED):
        self.steps += 1
        if isinstance(e, ast.Constant):
            return e.value
        if isinstance(e, ast.Name):
            if e.id in env:
                return env[e.id]
            if e.id in ("None", "True", "False"):
                return {"None": None, "True": True, "False": False}[e.id]
            if e.id in self.globals:
                return self.globals[e.id]
            if e.id in BUILTIN_TYPE_NAMES:
                return "<type %s>" % e.id
            if e.id in BUILTIN_FUNC_VALUES and not getattr(self, "_in_call_func", False):
                return BuiltinRef(e.id)
            if self.resolve_module_constants and f is not None and e.id not in self._resolving:
                # a module-level constant (`NAME = <expression>` assigned exactly once at top level)
                defs = [st for st in f.module.tree.body if isinstance(st, ast.Assign) and len(st.targets) == 1
                        and isinstance(st.targets[0], ast.Name) and st.targets[0].id == e.id]
                if len(defs) == 1:
                    # evaluated once per interpreter: a module-level list / dict / set is ONE object that every function shares
                    key = ("<module>", f.module.name, e.id)
                    if key in self._class_consts:
                        return self._class_consts[key]
                    self._resolving.add(e.id)
                    try:
                        v = self.eval(defs[0].value, {}, f)
                    finally:
                        self._resolving.discard(e.id)
                    if isinstance(v, (list, dict, set)):
                        self._class_consts[key] = v
                    return v
                # a module-level function used as a value (handed over as a callback)
                g = self.hier.repo.funcs.get("%s.%s" % (f.module.name, e.id))
                if g is not None and g.cls is None:
                    return BoundMethod(None, g)
            return TOP
        if isinstance(e, ast.Attribute):
            base = self.eval(e.value, env, f)
            if isinstance(base, DefClosure):
                return base.attrs.get(e.attr, TOP)
            if isinstance(base, Obj):
                if e.attr not in base.attrs and "__cls__" in base.attrs:
                    # an object of a repo class: properties are evaluated, methods become bound references
                    g = self.hier.resolve(base.attrs["__cls__"], e.attr)
                    if g is not None and g.has_decorator("property"):
                        return self.invoke(g, [], {}, base)
                    if g is not None:
                        return BoundMethod(base, g)
                    # a class-level attribute (`name = <expression>` in the class body of the class or of a base):
                    # evaluated once per interpreter, so that every reader sees the SAME object, as in Python
                    for cq in self.hier.mro(base.attrs["__cls__"]):
                        cobj = self.hier.repo.classes.get(cq)
                        if cobj is None:
                            continue
                        val_node = cobj.class_assign(e.attr)
                        if val_node is not None:
                            key = (cq, e.attr)
                            if key not in self._class_consts:
                                anyf = next((x for fs in cobj.methods.values() for x in fs), None)
                                self._class_consts[key] = self.eval(val_node, {}, anyf or f)
                            return self._class_consts[key]
                return base.attrs.get(e.attr, TOP)
            if isinstance(base, Record):
                return base.kwargs.get(e.attr, TOP)
            return TOP
        if isinstance(e, (ast.Tuple, ast.List)):
            vals = []
            for x in e.elts:
                if isinstance(x, ast.Starred):
                    sv = self.force(self.eval(x.value, env, f))
                    if isinstance(sv, (list, tuple)):
                        vals.extend(sv)
                    elif isinstance(sv, dict):
                        vals.extend(sv.keys())          # *mapping unpacks the KEYS
                    else:
                        vals.append(TOP)
                else:
                    vals.append(self.eval(x, env, f))
            return tuple(vals) if isinstance(e, ast.Tuple) else list(vals)
        if isinstance(e, ast.Dict):
            d = {}
            for k, v in zip(e.keys, e.values):
                if k is None:
                    sub = self.eval(v, env, f)
                    if not isinstance(sub, dict):
                        raise Unsupported("dict unpacking of %r" % (sub,))
                    d.update(sub)
                    continue
                kk = self.eval(k, env, f)
                if not isinstance(kk, (str, int)):
                    raise Unsupported("dict literal with non-constant key")
                d[kk] = self.eval(v, env, f)
            return d
        if isinstance(e, ast.JoinedStr):
            parts = []
            for v in e.values:
                if isinstance(v, ast.Constant):
                    parts.append(str(v.value))
                elif isinstance(v, ast.FormattedValue) and v.format_spec is None and v.conversion == -1:
                    x = self.eval(v.value, env, f)
                    if isinstance(x, (str, int)) and not isinstance(x, bool):
                        parts.append(str(x))
                    else:
                        return "<formatted string>"
                else:
                    return "<formatted string>"
            return "".join(parts)
        if isinstance(e, ast.UnaryOp) and isinstance(e.op, ast.USub):
            v = self.eval(e.operand, env, f)
            return -v if isinstance(v, (int, float)) and not isinstance(v, bool) else TOP
        if isinstance(e, ast.UnaryOp) and isinstance(e.op, ast.Not):
            t = self.truth(self.eval(e.operand, env, f))
            return TOP if t is TOP else (not t)
        if isinstance(e, ast.BoolOp):
            is_and = isinstance(e.op, ast.And)
            last = None
            for v in e.values:
                last = self.eval(v, env, f)
                t = self.truth(last)
                if t is TOP:
                    # the remaining operands cannot make the result precise
                    return TOP
                if is_and and not t:
                    return last
                if not is_and and t:
                    return last
            return last
        if isinstance(e, ast.Compare):
            left = self.eval(e.left, env, f)
            result = True
            for op, c in zip(e.ops, e.comparators):
                right = self.eval(c, env, f)
                r = self.compare(op, left, right)
                if r is TOP:
                    return TOP
                if not r:
                    return False
                left = right
            return result
        if isinstance(e, ast.IfExp):
            if self.decide(self.eval(e.test, env, f), norm(e.test)):
                return self.eval(e.body, env, f)
            return self.eval(e.orelse, env, f)
        if isinstance(e, ast.Subscript):
            base = self.eval(e.value, env, f)
            key = None if isinstance(e.slice, ast.Slice) else self.eval(e.slice, env, f)
            if isinstance(e.slice, ast.Slice) and base is not TOP:
                key = 0
            if base is TOP or key is TOP:
                return TOP
            if isinstance(base, Obj) and "__getitem__" in base.attrs and isinstance(key, (str, int)):
                m = base.attrs["__getitem__"]
                if key in m:
                    return m[key]
                raise _Raise("KeyError")
            if isinstance(base, (tuple, list)) or (isinstance(base, str) and not base.startswith("<")):
              if isinstance(e.slice, ast.Slice):
                lo = None if e.slice.lower is None else self.eval(e.slice.lower, env, f)
                hi = None if e.slice.upper is None else self.eval(e.slice.upper, env, f)
                st_ = None if e.slice.step is None else self.eval(e.slice.step, env, f)
                if all(x is None or (isinstance(x, int) and not isinstance(x, bool)) for x in (lo, hi, st_)) and st_ != 0:
                    return base[lo:hi:st_]
                return TOP
            if isinstance(base, str) and not base.startswith("<") and isinstance(key, int) and not isinstance(key, bool):
                try:
                    return base[key]
                except IndexError:
                    raise _Raise("IndexError")
            if isinstance(base, dict) and isinstance(key, tuple) and all(isinstance(x, (str, int, type(None))) for x in key):
                if key in base or isinstance(base, _collections.defaultdict):
                    return base[key]
                raise _Raise("KeyError")
            if isinstance(base, (tuple, list)) and isinstance(key, int):
                try:
                    return base[key]
                except IndexError:
                    raise _Raise("IndexError")
            if isinstance(base, dict) and _hashable_key(key):
                if key in base or isinstance(base, _collections.defaultdict):
                    return base[key]
                raise _Raise("KeyError")
            return TOP
        if isinstance(e, ast.Call):
            return self.eval_call(e, env, f)
        if isinstance(e, ast.Lambda):
            return Closure(e, env, f)
        if isinstance(e, ast.GeneratorExp) and self.lazy_generators and first_iter is _NOT_EVALUATED:
            return LazyGen(e, self.force(self.eval(e.generators[0].iter, env, f)), env, f)
        if isinstance(e, (ast.ListComp, ast.GeneratorExp)):
            out = []
            ok = [True]

            def rec(i, sub):
                if not ok[0]:
                    return
                if i == len(e.generators):
                    out.append(self.eval(e.elt, sub, f))
                    return
                g = e.generators[i]
                it = first_iter if (i == 0 and first_iter is not _NOT_EVALUATED) else self.force(self.eval(g.iter, sub, f))
                if isinstance(it, dict):
                    it = list(it)
                if isinstance(it, Obj) and "__iter__" in it.attrs:
                    it = it.attrs["__iter__"]
                if isinstance(it, str) and not it.startswith("<"):
                    it = list(it)       # a concrete text: its characters
                if not isinstance(it, (list, tuple)):
                    ok[0] = False
                    return
                for item in it:
                    sub2 = dict(sub)
                    self.assign(g.target, item, sub2, f)
                    keep = True
                    for cond in g.ifs:
                        t = self.truth(self.eval(cond, sub2, f))
                        if t is TOP:
                            ok[0] = False
                            return
                        keep = keep and t
                    if keep:
                        rec(i + 1, sub2)
            rec(0, dict(env))
            return out if ok[0] else TOP
        if isinstance(e, ast.DictComp):
            pairs = self.eval(ast.ListComp(elt=ast.Tuple(elts=[e.key, e.value], ctx=ast.Load()), generators=e.generators), env, f)
            if pairs is TOP:
                return TOP
            d = {}
            for k, v in pairs:
                try:
                    hash(k)
                except TypeError:
                    return TOP
                if k is TOP or isinstance(k, (Val, Sym)):
                    return TOP
                d[k] = v
            return d
        if isinstance(e, ast.SetComp):
            items = self.eval(ast.ListComp(elt=e.elt, generators=e.generators), env, f)
            if items is TOP or not all(_hashable_key(x) and not isinstance(x, Obj) for x in items):
                return TOP           # only sets of constants / tuples of constants and ids are modelled
            return set(items)
        if isinstance(e, (ast.ListComp, ast.GeneratorExp, ast.DictComp, ast.SetComp)):
            return TOP
        if isinstance(e, ast.BinOp):
            a = self.eval(e.left, env, f)
            b = self.eval(e.right, env, f)
            if isinstance(e.op, ast.Add) and ((isinstance(a, list) and isinstance(b, list)) or (isinstance(a, tuple) and isinstance(b, tuple))):
                return a + b
            if isinstance(e.op, ast.Add) and isinstance(a, str) and isinstance(b, str) and not a.startswith("<") and not b.startswith("<"):
                return a + b
            if isinstance(e.op, ast.Mod) and isinstance(a, str) and not a.startswith("<") and (isinstance(b, (str, int, float)) or (isinstance(b, tuple) and all(isinstance(x, (str, int, float)) for x in b))) \
                    and not (isinstance(b, str) and b.startswith("<")):
                try:
                    return a % b
                except (TypeError, ValueError):
                    return TOP
            if isinstance(e.op, ast.BitOr) and ((isinstance(a, set) and isinstance(b, set)) or (isinstance(a, dict) and isinstance(b, dict))):
                return a | b
            if all(isinstance(x, int) and not isinstance(x, bool) for x in (a, b)):
                if isinstance(e.op, ast.Add):
                    return a + b
                if isinstance(e.op, ast.Sub):
                    return a - b
                if isinstance(e.op, ast.Mult):
                    return a * b
                if isinstance(e.op, (ast.FloorDiv, ast.Mod)) and b != 0:
                    return a // b if isinstance(e.op, ast.FloorDiv) else a % b
            return TOP
        if isinstance(e, (ast.Yield, ast.Await)):
            return self.suspend(e, env, f)
        if isinstance(e, ast.Starred):
            return TOP
        raise Unsupported("expression %s" % type(e).__name__)

    def eval_call(self, c: ast.Call, env, f):
        fn = c.func
        args = []
        for a in c.args:
            if isinstance(a, ast.Starred):
                sv = self.eval(a.value, env, f)
                if isinstance(sv, (list, tuple)):
                    args.extend(sv)      # f(*known_sequence)
                # an unknown starred argument is dropped (as before): hooks see the positional prefix only
            else:
                args.append(self.eval(a, env, f))
        kwargs = {}
        for k in c.keywords:
            if k.arg is not None:
                kwargs[k.arg] = self.eval(k.value, env, f)
            else:                      # **mapping
                m = self.eval(k.value, env, f)
                if isinstance(m, dict) and all(isinstance(x, str) for x in m):
                    kwargs.update(m)
                else:
                    raise Unsupported("call with ** of a mapping the model does not know (%r)" % (m,))
        base_pre = _NOT_EVALUATED
        if self.call_hook is not None:
            if isinstance(fn, ast.Attribute) and getattr(self.call_hook, "needs_receiver", False) \
                    and not (isinstance(fn.value, ast.Call) and norm(fn.value.func) == "super"):
                # the hook wants to know which abstract object the method is called on
                base_pre = self.eval(fn.value, env, f)
                self.current_receiver = base_pre
            r = self.call_hook(norm(fn), args, kwargs)
            if r is not NotImplemented:
                return r
        if isinstance(fn, (ast.Call, ast.Subscript, ast.IfExp)):
            callee = self.eval(fn, env, f)
            if isinstance(callee, ContainerMethod):
                return self.call_container_method(callee, args, kwargs)
            if isinstance(callee, DefClosure):
                return self.call_def_closure(callee, args, kwargs)
            if isinstance(callee, PyFunc):
                return callee.fn(*args, **kwargs)
            if isinstance(callee, BoundMethod):
                return self.invoke(callee.func, args, kwargs, callee.obj)
            if isinstance(callee, str) and callee in ("<type list>", "<type tuple>", "<type dict>", "<type set>") and len(args) <= 1 and not kwargs:
                # `type(value)(<items>)`: a container of the same builtin type built from concrete items
                ctor = {"<type list>": list, "<type tuple>": tuple, "<type dict>": dict, "<type set>": set}[callee]
                if not args:
                    return ctor()
                v = self.force(args[0])
                if isinstance(v, (list, tuple)) and (ctor is not dict or all(isinstance(x, tuple) and len(x) == 2 and _hashable_key(x[0]) for x in v)) \
                        and (ctor is not set or all(isinstance(x, (str, int)) for x in v)):
                    return ctor(v)
                if isinstance(v, dict) and ctor is dict:
                    return dict(v)
            return TOP
        if isinstance(fn, ast.Name):
            n = fn.id
            bound = env.get(n)
            if bound is None and n in ("list", "tuple", "set", "dict", "any", "all", "sorted", "enumerate", "zip", "len", "sum", "frozenset", "reversed", "map", "min", "max"):
                args = [self.force(a) for a in args]
            if bound is None and n == "reduce" and len(args) in (2, 3) and not kwargs and isinstance(self.force(args[1]), (list, tuple)):
                # functools.reduce over a concrete sequence with an interpretable function
                fnv, seq = args[0], list(self.force(args[1]))
                if len(args) == 3:
                    acc = args[2]
                elif seq:
                    acc, seq = seq[0], seq[1:]
                else:
                    raise _Raise("TypeError")
                for item in seq:
                    if isinstance(fnv, DefClosure):
                        acc = self.call_def_closure(fnv, [acc, item], {})
                    elif isinstance(fnv, Closure) and len(fnv.node.args.args) == 2:
                        sub = dict(fnv.env)
                        sub[fnv.node.args.args[0].arg], sub[fnv.node.args.args[1].arg] = acc, item
                        acc = self.eval(fnv.node.body, sub, fnv.func)
                    elif isinstance(fnv, PyFunc):
                        acc = fnv.fn(acc, item)
                    else:
                        raise Unsupported("reduce() with a function the interpreter cannot follow")
                return acc
            if isinstance(bound, Closure) and not kwargs and len(bound.node.args.args) == len(args):
                sub = dict(bound.env)
                for a_, v_ in zip(bound.node.args.args, args):
                    sub[a_.arg] = v_
                return self.eval(bound.node.body, sub, bound.func)
            if isinstance(bound, DefClosure):
                return self.call_def_closure(bound, args, kwargs)
            if isinstance(bound, ContainerMethod):
                return self.call_container_method(bound, args, kwargs)
            if isinstance(bound, PyFunc):
                return bound.fn(*args, **kwargs)
            if isinstance(bound, BuiltinRef):
                r = self.call_hook(bound.name, args, kwargs) if self.call_hook is not None else NotImplemented
                return TOP if r is NotImplemented else r
            if isinstance(bound, BoundMethod):
                return self.invoke(bound.func, args, kwargs, bound.obj)
            if n in ("any", "all") and args and isinstance(args[0], (list, tuple)):
                ts = [self.truth(x) for x in args[0]]
                if n == "any":
                    return True if any(t is True for t in ts) else (TOP if any(t is TOP for t in ts) else False)
                return False if any(t is False for t in ts) else (TOP if any(t is TOP for t in ts) else True)
            if n == "id" and len(args) == 1 and isinstance(args[0], (Obj, Record, Sized)):
                return ("id", id(args[0]))
            if n == "id" and len(args) == 1 and args[0] is None:
                return ("id", 0)
            if n == "callable":
                v = args[0]
                if v is TOP:
                    return TOP
                if isinstance(v, Obj):
                    return v.attrs.get("__callable__", False)
                return False
            if n == "len":
                v = args[0]
                if isinstance(v, (tuple, list, dict, str)):
                    return len(v)
                if isinstance(v, Sized):
                    return v.length
                if v is None:
                    raise _Raise("TypeError")
                return TOP
            if n in ("attrgetter", "operator.attrgetter") and len(args) == 1 and isinstance(args[0], str):
                return AttrGetter(args[0])
            if n == "sorted" and args and isinstance(args[0], dict):
                args = [list(args[0])] + list(args[1:])
            if n == "sorted" and args and isinstance(args[0], (list, tuple)):
                keyf = kwargs.get("key")
                rev = kwargs.get("reverse", False)
                if keyf is None:
                    keys = list(args[0])
                elif isinstance(keyf, AttrGetter):
                    keys = [x.attrs.get(keyf.attr, TOP) if isinstance(x, Obj) else TOP for x in args[0]]
                elif isinstance(keyf, Closure) and len(keyf.node.args.args) == 1:
                    keys = []
                    for item in args[0]:
                        sub = dict(keyf.env)
                        sub[keyf.node.args.args[0].arg] = item
                        keys.append(self.eval(keyf.node.body, sub, keyf.func))
                else:
                    return TOP
                all_num = all(isinstance(k, (int, float)) and not isinstance(k, bool) for k in keys)
                all_str = all(isinstance(k, str) and not k.startswith("<") for k in keys)
                if not (all_num or all_str) or rev not in (True, False):
                    return TOP
                order = sorted(range(len(keys)), key=lambda i: keys[i], reverse=rev)
                return [args[0][i] for i in order]
            if n in ("OrderedDict",) and len(args) <= 1:
                d = {}
                if args:
                    if not isinstance(args[0], (list, tuple)):
                        return TOP
                    for kv in args[0]:
                        if not (isinstance(kv, tuple) and len(kv) == 2):
                            return TOP
                        d[kv[0]] = kv[1]
                d.update(kwargs)
                return d
            if n == "set":
                if not args:
                    return set()
                if isinstance(args[0], (list, tuple, set)) and all(isinstance(x, (str, int)) for x in args[0]):
                    return set(args[0])
                return TOP
            if n in ("tuple", "list"):
                if not args:
                    return () if n == "tuple" else []
                v = args[0]
                if isinstance(v, (tuple, list)):
                    return tuple(v) if n == "tuple" else list(v)
                if isinstance(v, dict):
                    return tuple(v) if n == "tuple" else list(v)
                if isinstance(v, set) and all(isinstance(x, (str, int)) for x in v):
                    return tuple(sorted(v)) if n == "tuple" else sorted(v)
                if isinstance(v, Obj) and isinstance(v.attrs.get("__iter__"), (list, tuple)):
                    return tuple(v.attrs["__iter__"]) if n == "tuple" else list(v.attrs["__iter__"])
                return TOP
            if n == "dict":
                d = {}
                for a in args:
                    if isinstance(a, dict):
                        d.update(a)
                    elif isinstance(a, (list, tuple)) and all(isinstance(x, (list, tuple)) and len(x) == 2 and isinstance(x[0], (str, int)) for x in a):
                        d.update((x[0], x[1]) for x in a)
                    else:
                        return TOP
                d.update(kwargs)
                return d
            if n == "defaultdict" and len(c.args) == 1 and isinstance(c.args[0], ast.Name) and c.args[0].id in ("list", "dict", "set"):
                return _collections.defaultdict({"list": list, "dict": dict, "set": set}[c.args[0].id])
            if n == "setattr" and len(args) == 3 and isinstance(args[1], str) and isinstance(args[0], Obj) and "__cls__" not in args[0].attrs:
                args[0].attrs[args[1]] = args[2]
                return None
            if n == "getattr" and len(args) in (2, 3) and isinstance(args[1], str):
                tgt = args[0]
                if isinstance(tgt, (list, dict, set)):
                    return ContainerMethod(tgt, args[1])
                if isinstance(tgt, Obj):
                    if args[1] in tgt.attrs:
                        return tgt.attrs[args[1]]
                    if "__cls__" in tgt.attrs:
                        g = self.hier.resolve(tgt.attrs["__cls__"], args[1])
                        if g is not None:
                            return self.invoke(g, [], {}, tgt) if g.has_decorator("property") else BoundMethod(tgt, g)
                    if len(args) == 3:
                        return args[2]
                    return TOP
                return TOP
            if n == "groupby" and args and isinstance(args[0], (list, tuple)):
                return self._groupby(args, kwargs)
            if n == "reversed" and len(args) == 1 and isinstance(args[0], (list, tuple)):
                return list(reversed(args[0]))
            if n == "zip":
                if all(isinstance(a, (tuple, list)) for a in args):
                    return [tuple(x) for x in zip(*args)]
                return TOP
            if n == "enumerate":
                if isinstance(args[0], (tuple, list)):
                    return [(i, x) for i, x in enumerate(args[0])]
                return TOP
            if n == "map":
                if isinstance(c.args[0], ast.Name) and c.args[0].id in ORDER_PRESERVING and isinstance(args[1], (tuple, list)):
                    return list(args[1])
                return TOP
            if n in ORDER_PRESERVING:
                return args[0]
            if n in OPAQUE_PREDICATES:
                return TOP
            if n == "bool":
                t = self.truth(args[0]) if args else False
                return t
            if n[:1].isupper() and kwargs and not args:
                return Record(n, kwargs)
            if self.inline_module_functions and n not in env:
                # a helper function of the same module: interpreted like a method of the class would be
                g = self.hier.repo.funcs.get("%s.%s" % (f.module.name, n))
                if g is not None and g.cls is None:
                    return self.invoke(g, args, kwargs, None)
            return TOP
        if isinstance(fn, ast.Attribute):
            m = fn.attr
            recv = fn.value
            selfname = f.params[0] if f.params else None
            is_self = isinstance(recv, ast.Name) and recv.id == selfname and f.cls is not None
            is_super = isinstance(recv, ast.Call) and norm(recv.func) == "super"
            if (is_self or is_super) and f.cls is not None:
                dyn = self.dyn or f.cls.qualname
                if is_super:
                    tgt = self.hier.resolve(dyn, m, after=f.cls.qualname)
                    do_inline = (m == f.name) or self.inline(m)
                else:
                    tgt = self.hier.resolve(dyn, m)
                    do_inline = self.inline(m)
                if tgt is not None and do_inline:
                    return self.invoke(tgt, args, kwargs, env.get(selfname))
                if self.strict_self_calls:
                    raise Unsupported("call of %s.%s(), which the model neither knows nor interprets" % (norm(recv), m))
                return TOP   # not inlined, not hooked: the result is unknown (a call used as a statement is unaffected)
            if norm(fn) == "itertools.groupby" and args and isinstance(args[0], (list, tuple)):
                return self._groupby(args, kwargs)
            base = self.eval(recv, env, f) if base_pre is _NOT_EVALUATED else base_pre
            if isinstance(base, Obj) and "__cls__" in base.attrs and m not in base.attrs:
                tgt = self.hier.resolve(base.attrs["__cls__"], m)
                if tgt is not None and not tgt.has_decorator("property"):
                    return self.invoke(tgt, args, kwargs, base)
            if isinstance(base, set) and m in ("add", "discard") and args and (isinstance(args[0], (str, int)) or (
                    isinstance(args[0], tuple) and all(isinstance(x, (str, int, type(None))) for x in args[0]))):
                getattr(base, m)(args[0])
                return None
            if isinstance(base, list) and m == "append" and args:
                base.append(args[0])
                return None
            if isinstance(base, list) and m in ("insert", "pop", "remove", "clear", "extend", "index", "copy", "count"):
                return self.list_method(base, m, args)
            if isinstance(base, dict) and m in ("pop", "clear", "update", "setdefault"):
                return self.dict_method(base, m, args, kwargs)
            if isinstance(base, list) and m == "sort":
                keyf = kwargs.get("key")
                if isinstance(keyf, PyFunc):
                    keys = [keyf.fn(item) for item in base]
                    if all(isinstance(k, (int, float)) and not isinstance(k, bool) for k in keys) or all(isinstance(k, str) and not k.startswith("<") for k in keys):
                        order = sorted(range(len(keys)), key=lambda i: keys[i], reverse=bool(kwargs.get("reverse", False)))
                        base[:] = [base[i] for i in order]
                        return None
                    raise Unsupported("list.sort with keys the interpreter cannot order")
                if isinstance(keyf, Closure) and len(keyf.node.args.args) == 1:
                    keys = []
                    for item in base:
                        sub = dict(keyf.env)
                        sub[keyf.node.args.args[0].arg] = item
                        keys.append(self.eval(keyf.node.body, sub, keyf.func))
                    if all(isinstance(k, (int, float)) and not isinstance(k, bool) for k in keys):
                        order = sorted(range(len(keys)), key=lambda i: keys[i], reverse=bool(kwargs.get("reverse", False)))
                        base[:] = [base[i] for i in order]
                        return None
                raise Unsupported("list.sort with an uninterpretable key")
            if isinstance(base, dict):
                if m == "items":
                    return [(k, v) for k, v in base.items()]
                if m == "keys":
                    return list(base.keys())
                if m == "values":
                    return list(base.values())
                if m == "get":
                    k = args[0]
                    if isinstance(k, (str, int)) or (isinstance(k, tuple) and k and k[0] == "id") or _hashable_key(k):
                        return base.get(k, args[1] if len(args) > 1 else None)
                    return TOP
                if m == "copy":
                    return dict(base)
            if isinstance(base, str) and m == "lower":
                return base.lower()
            if isinstance(base, str) and not base.startswith("<") and m in ("split", "startswith", "endswith", "strip", "upper", "isdigit", "rsplit", "lstrip", "rstrip", "replace", "isprintable", "isspace", "isalnum", "isalpha", "count", "find", "splitlines") \
                    and all(isinstance(a, (str, int)) for a in args) and not kwargs:
                return getattr(base, m)(*args)
            if isinstance(base, str) and not base.startswith("<") and m == "format" and not kwargs and all(isinstance(a_, (str, int)) and not (isinstance(a_, str) and a_.startswith("<")) for a_ in args):
                try:
                    return base.format(*args)
                except (IndexError, KeyError, ValueError):
                    return TOP
            if isinstance(base, str) and not base.startswith("<") and m == "join" and len(args) == 1 and isinstance(args[0], (list, tuple)) \
                    and all(isinstance(a, str) and not a.startswith("<") for a in args[0]):
                return base.join(args[0])
            if self.strict_self_calls and isinstance(base, (list, dict, set)):
                raise Unsupported("method %s() of an abstract %s, whose effect the interpreter does not model" % (m, type(base).__name__))
            return TOP
        return TOP

    def _groupby(self, args, kwargs):
        """itertools.groupby on a known sequence: consecutive runs of equal keys."""
        keyf = kwargs.get("key", args[1] if len(args) > 1 else None)
        runs = []
        for item in args[0]:
            if keyf is None:
                k = item
            elif isinstance(keyf, Closure) and len(keyf.node.args.args) == 1:
                sub = dict(keyf.env)
                sub[keyf.node.args.args[0].arg] = item
                k = self.eval(keyf.node.body, sub, keyf.func)
            elif isinstance(keyf, PyFunc):
                k = keyf.fn(item)
            else:
                return TOP
            if k is TOP:
                return TOP
            if runs and (runs[-1][0] is k or (not isinstance(k, Obj) and runs[-1][0] == k)):
                runs[-1][1].append(item)
            else:
                runs.append((k, [item]))
        return runs

    def call_def_closure(self, c, args, kwargs):
        sub = dict(c.env)                      # late binding: the enclosing variables as they are now
        names = [a.arg for a in c.node.args.args]
        if c.node.args.vararg is not None:
            sub[c.node.args.vararg.arg] = tuple(args[len(names):])
            args = list(args[:len(names)])
        if c.node.args.kwarg is not None:
            extra = {k: v for k, v in kwargs.items() if k not in names}
            sub[c.node.args.kwarg.arg] = extra
            kwargs = {k: v for k, v in kwargs.items() if k in names}
        if len(args) > len(names):
            raise Unsupported("call of nested function %s with too many arguments" % c.node.name)
        for nme, v in zip(names, args):
            sub[nme] = v
        sub.update(kwargs)
        defaults = c.node.args.defaults
        for a_, d in zip(names[len(names) - len(defaults):], defaults):
            if a_ not in sub or (a_ in c.env and a_ not in kwargs and names.index(a_) >= len(args)):
                sub[a_] = self.eval(d, dict(c.env), c.func)
        try:
            self.exec_block(c.node.body, sub, c.func)
        except _Return as r:
            return r.value
        return None

    def call_container_method(self, cm, args, kwargs):
        if isinstance(cm.base, list):
            if cm.name == "append" and len(args) == 1:
                cm.base.append(args[0])
                return None
            return self.list_method(cm.base, cm.name, list(args))
        if isinstance(cm.base, dict):
            return self.dict_method(cm.base, cm.name, list(args), kwargs)
        raise Unsupported("method %s of %r through getattr" % (cm.name, cm.base))

    def suspend(self, node, env, f):
        """`yield` / `await`: a tree-walking interpreter cannot suspend, so the model supplies what happens
        while the function is suspended (the body of the `with`, the awaited completion, a concurrent step)
        as a hook; if the hook raises _Raise, the exception is thrown into the function at that point --
        exactly what generator.throw() / a failing await do."""
        hook = self.yield_hook if isinstance(node, ast.Yield) else self.await_hook
        if hook is None:
            raise Unsupported("%s without a model of what happens meanwhile" % type(node).__name__.lower())
        val = None if node.value is None else self.eval(node.value, env, f)
        return hook(val)

    # ------------------------------------------------------------ containers of abstract elements
    def same(self, a, b):
        """Python's `a == b` for container searches (identity first): True / False / TOP."""
        if a is b:
            return True
        r = self.compare(ast.Eq(), a, b)
        return r

    def _find(self, lst, x):
        for i, e in enumerate(lst):
            r = self.same(e, x)
            if r is TOP:
                if isinstance(e, Obj) and isinstance(x, Obj):
                    r = False          # plain abstract objects: equality is identity
                else:
                    raise Unsupported("cannot decide whether %r equals %r" % (e, x))
            if r:
                return i
        return None

    def list_method(self, base, m, args):
        if any(a is TOP for a in args):
            raise Unsupported("list.%s with an unknown argument" % m)
        if m == "insert" and len(args) == 2 and isinstance(args[0], int):
            base.insert(args[0], args[1])
            return None
        if m == "pop":
            i = args[0] if args else -1
            if not isinstance(i, int) or isinstance(i, bool):
                raise _Raise("TypeError")
            if not base or not (-len(base) <= i < len(base)):
                raise _Raise("IndexError")
            return base.pop(i)
        if m in ("remove", "index") and len(args) == 1:
            i = self._find(base, args[0])
            if i is None:
                raise _Raise("ValueError")
            if m == "index":
                return i
            del base[i]
            return None
        if m == "count" and len(args) == 1:
            n = 0
            rest = list(base)
            while True:
                i = self._find(rest, args[0])
                if i is None:
                    return n
                n += 1
                rest = rest[i + 1:]
        if m == "clear" and not args:
            del base[:]
            return None
        if m == "extend" and len(args) == 1 and isinstance(args[0], (list, tuple)):
            base.extend(args[0])
            return None
        if m == "copy" and not args:
            return list(base)
        raise Unsupported("list.%s%r" % (m, tuple(args)))

    def dict_method(self, base, m, args, kwargs):
        if any(a is TOP for a in args):
            raise Unsupported("dict.%s with an unknown argument" % m)
        if m == "pop" and args:
            k = args[0]
            if not isinstance(k, (str, int)):
                raise Unsupported("dict.pop with a non-constant key %r" % (k,))
            if k in base:
                return base.pop(k)
            if len(args) > 1:
                return args[1]
            raise _Raise("KeyError")
        if m == "clear" and not args:
            base.clear()
            return None
        if m == "update":
            for a in args:
                if isinstance(a, dict):
                    base.update(a)
                elif isinstance(a, (list, tuple)) and all(isinstance(x, (list, tuple)) and len(x) == 2 and isinstance(x[0], (str, int)) for x in a):
                    base.update((x[0], x[1]) for x in a)
                else:
                    raise Unsupported("dict.update(%r)" % (a,))
            base.update(kwargs)
            return None
        if m == "setdefault" and args and (isinstance(args[0], (str, int)) or (isinstance(args[0], tuple) and _hashable_key(args[0]))):
            return base.setdefault(args[0], args[1] if len(args) > 1 else None)
        raise Unsupported("dict.%s%r" % (m, tuple(args)))

    def invoke(self, tgt: Func, args, kwargs, self_val):
        a = tgt.node.args
        names = [x.arg for x in a.posonlyargs + a.args]
        env = {}
        if tgt.cls is not None and not tgt.has_decorator("staticmethod"):
            env[names[0]] = self_val
            names = names[1:]
        for n, v in zip(names, args):
            env[n] = v
        if a.vararg is not None:
            env[a.vararg.arg] = tuple(args[len(names):])
        elif len(args) > len(names):
            raise Unsupported("call of %s with more positional arguments than it takes" % tgt.qualname)
        if a.kwarg is not None:
            known = set(names) | {x.arg for x in a.kwonlyargs}
            env[a.kwarg.arg] = {k: v for k, v in kwargs.items() if k not in known}
            kwargs = {k: v for k, v in kwargs.items() if k in known}
        env.update(kwargs)
        return self.call_func(tgt, env)
