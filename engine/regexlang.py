"""Finite-language view of a regular expression, from its parse tree (re._parser.parse) -- nothing is matched or run.

`language(pattern, classify)` expands the tree into the set of words it accepts over an ABSTRACT alphabet: every
character set of the pattern is mapped by `classify(frozenset_of_chars)` to a label.  Unbounded repeats, look-arounds,
back-references and anything else outside the bounded fragment raise Unsupported (the caller reports "cannot decide")."""
from __future__ import annotations

import re._constants as C
import re._parser as P


class Unsupported(Exception):
    pass


def _charset(items, ignorecase=False):
    chars = set()
    negate = False
    for op, av in items:
        if op is C.NEGATE:
            negate = True
        elif op is C.LITERAL:
            chars.add(chr(av))
        elif op is C.RANGE:
            lo, hi = av
            if hi - lo > 256:
                raise Unsupported("character range too wide")
            chars.update(chr(c) for c in range(lo, hi + 1))
        elif op is C.CATEGORY:
            if av is C.CATEGORY_DIGIT:
                chars.update("0123456789")
            else:
                raise Unsupported("character category %s" % av)
        else:
            raise Unsupported("set item %s" % op)
    if negate:
        raise Unsupported("negated character set")
    if ignorecase:
        chars |= {c.swapcase() for c in chars}
    return frozenset(chars)


def language(pattern, classify, flags=0, max_words=500, max_len=16):
    """Returns (words, anchored_start, anchored_end): words is a set of tuples of labels."""
    tree = P.parse(pattern, flags)
    allflags = tree.state.flags | flags
    if allflags & ~(C.SRE_FLAG_IGNORECASE | C.SRE_FLAG_UNICODE | C.SRE_FLAG_ASCII):
        raise Unsupported("regex flags %s" % allflags)
    ic = bool(allflags & C.SRE_FLAG_IGNORECASE)
    anchors = {"start": False, "end": False}

    def seq(items):
        words = {()}
        for n, (op, av) in enumerate(items):
            nxt = expand(op, av, first=(n == 0), last=(n == len(items) - 1))
            words = {a + b for a in words for b in nxt}
            if len(words) > max_words or any(len(w) > max_len for w in words):
                raise Unsupported("language too large")
        return words

    def expand(op, av, first=False, last=False):
        if op is C.AT:
            if av in (C.AT_BEGINNING, C.AT_BEGINNING_STRING) and first:
                anchors["start"] = True
                return {()}
            if av in (C.AT_END, C.AT_END_STRING) and last:
                anchors["end"] = True
                return {()}
            raise Unsupported("anchor %s in the middle of the pattern" % av)
        if op is C.LITERAL:
            return {(classify(_charset([(C.LITERAL, av)], ic)),)}
        if op is C.IN:
            return {(classify(_charset(av, ic)),)}
        if op is C.SUBPATTERN:
            return seq(list(av[3]))
        if op is C.BRANCH:
            out = set()
            for alt in av[1]:
                out |= seq(list(alt))
            return out
        if op in (C.MAX_REPEAT, C.MIN_REPEAT):
            lo, hi, sub = av
            if hi is C.MAXREPEAT or hi > max_len:
                raise Unsupported("unbounded repeat")
            one = seq(list(sub))
            out = set()
            cur = {()}
            for k in range(0, hi + 1):
                if k >= lo:
                    out |= cur
                cur = {a + b for a in cur for b in one}
                if len(cur) > max_words:
                    raise Unsupported("language too large")
            return out
        raise Unsupported("regex construct %s" % op)

    items = list(tree)
    words = seq(items)
    return words, anchors["start"], anchors["end"]
