"""Loader: parse the shipped packages of the repository and index them.

Fail-closed conventions (DESIGN.md §2.1/§2.6): a syntax error, a missing file
or a missing *anchor* raises :class:`AnalysisError`, which the driver turns
into ``ANALYSIS-ERROR ... exit 2`` -- never a pass and never a VIOLATION.
"""
from __future__ import annotations

import ast
import hashlib
import os
from typing import Dict, List, Optional

PACKAGES = ("param", "numbergen")


class AnalysisError(Exception):
    """The checker cannot decide (vanished anchor, unsupported construct...)."""


def norm(node) -> str:
    """Normalised text of an AST node (whitespace/quote insensitive)."""
    if node is None:
        return ""
    if isinstance(node, str):
        return node
    try:
        return ast.unparse(node)
    except Exception:  # pragma: no cover
        return ast.dump(node)


def norm_stmt(node) -> str:
    """First line(s) of a statement, normalised; compound statements are cut
    at their header so the key does not depend on the body."""
    if isinstance(node, (ast.If, ast.While)):
        return ("if " if isinstance(node, ast.If) else "while ") + norm(node.test)
    if isinstance(node, (ast.For, ast.AsyncFor)):
        return "for %s in %s" % (norm(node.target), norm(node.iter))
    if isinstance(node, (ast.With, ast.AsyncWith)):
        return "with " + ", ".join(norm(i) for i in node.items)
    if isinstance(node, ast.Try):
        return "try"
    if isinstance(node, (ast.FunctionDef, ast.AsyncFunctionDef)):
        return "def " + node.name
    if isinstance(node, ast.ClassDef):
        return "class " + node.name
    return norm(node)


class Module:
    def __init__(self, name, path, relpath, src):
        self.name = name
        self.path = path
        self.relpath = relpath
        self.src = src
        self.sha256 = hashlib.sha256(src.encode("utf-8")).hexdigest()
        try:
            self.tree = ast.parse(src, filename=path)
        except SyntaxError as e:  # fail closed
            raise AnalysisError("syntax error in %s: %s" % (relpath, e))
        self.imports: Dict[str, str] = {}
        self.package = name.rsplit(".", 1)[0] if "." in name else name
        self._collect_imports()

    def _collect_imports(self):
        is_pkg = self.path.endswith("__init__.py")
        for node in ast.walk(self.tree):
            if isinstance(node, ast.Import):
                for a in node.names:
                    self.imports[a.asname or a.name.split(".")[0]] = a.name if a.asname else a.name.split(".")[0]
            elif isinstance(node, ast.ImportFrom):
                base = node.module or ""
                if node.level:
                    parts = self.name.split(".")
                    if not is_pkg:
                        parts = parts[:-1]
                    if node.level > 1:
                        parts = parts[: len(parts) - (node.level - 1)]
                    base = ".".join(parts + ([node.module] if node.module else []))
                for a in node.names:
                    if a.name == "*":
                        continue
                    self.imports[a.asname or a.name] = base + "." + a.name


class Func:
    def __init__(self, node, qualname, module, cls, parent):
        self.node = node
        self.qualname = qualname
        self.module: Module = module
        self.cls: Optional["Cls"] = cls
        self.parent: Optional["Func"] = parent
        self.name = node.name
        self.is_async = isinstance(node, ast.AsyncFunctionDef)
        self.decorators = [norm(d) for d in node.decorator_list]

    @property
    def file(self):
        return self.module.relpath

    @property
    def lineno(self):
        return self.node.lineno

    def has_decorator(self, *names):
        for d in self.decorators:
            base = d.split("(")[0]
            if base in names or base.split(".")[-1] in names:
                return True
        return False

    @property
    def is_overload(self):
        return self.has_decorator("overload")

    @property
    def params(self) -> List[str]:
        a = self.node.args
        out = [x.arg for x in a.posonlyargs + a.args]
        if a.vararg:
            out.append(a.vararg.arg)
        out += [x.arg for x in a.kwonlyargs]
        if a.kwarg:
            out.append(a.kwarg.arg)
        return out

    def __repr__(self):
        return "<Func %s>" % self.qualname


class Cls:
    def __init__(self, node, qualname, module):
        self.node = node
        self.qualname = qualname
        self.module: Module = module
        self.name = node.name
        self.methods: Dict[str, List[Func]] = {}
        self.base_quals: List[str] = []

    def method(self, name, kind="plain") -> Optional[Func]:
        """The real definition of ``name`` in this class body.

        ``@typing.overload`` stubs are skipped; for properties ``kind`` selects
        the getter ('plain') or the setter ('setter').
        """
        cands = [f for f in self.methods.get(name, []) if not f.is_overload]
        if kind == "setter":
            cands = [f for f in cands if any(d.endswith(".setter") for d in f.decorators)]
        else:
            c2 = [f for f in cands if not any(d.endswith(".setter") or d.endswith(".deleter") for d in f.decorators)]
            cands = c2 or cands
        return cands[-1] if cands else None

    def class_assign(self, name):
        """Value expression of a class-level ``name = <expr>`` (last one)."""
        val = None
        for st in self.node.body:
            if isinstance(st, ast.Assign):
                for t in st.targets:
                    if isinstance(t, ast.Name) and t.id == name:
                        val = st.value
            elif isinstance(st, ast.AnnAssign) and isinstance(st.target, ast.Name) and st.target.id == name:
                val = st.value
        return val

    def __repr__(self):
        return "<Cls %s>" % self.qualname


class Repo:
    """All parsed modules of the shipped packages, indexed by qualified name."""

    def __init__(self, root=None):
        self.root = os.path.abspath(root or os.environ.get("VERIF_REPO", "/repo"))
        self.modules: Dict[str, Module] = {}
        self.funcs: Dict[str, Func] = {}
        self.classes: Dict[str, Cls] = {}
        self.consulted = set()
        self._load()

    # ------------------------------------------------------------------ load
    def _load(self):
        for pkg in PACKAGES:
            pdir = os.path.join(self.root, pkg)
            if not os.path.isdir(pdir):
                raise AnalysisError("package directory missing: %s" % pdir)
            for dirpath, dirnames, filenames in os.walk(pdir):
                dirnames[:] = sorted(d for d in dirnames if d != "__pycache__")
                for fn in sorted(filenames):
                    if not fn.endswith(".py"):
                        continue
                    path = os.path.join(dirpath, fn)
                    rel = os.path.relpath(path, self.root)
                    modname = rel[:-3].replace(os.sep, ".")
                    if modname.endswith(".__init__"):
                        modname = modname[: -len(".__init__")]
                    with open(path, encoding="utf-8") as fh:
                        src = fh.read()
                    m = Module(modname, path, rel, src)
                    self.modules[modname] = m
                    self._index(m)
        if "param.parameterized" not in self.modules:
            raise AnalysisError("param/parameterized.py not found under %s" % self.root)

    def _index(self, m: Module):
        def visit(body, prefix, cls, parent):
            for st in body:
                if isinstance(st, (ast.FunctionDef, ast.AsyncFunctionDef)):
                    q = prefix + "." + st.name
                    f = Func(st, q, m, cls, parent)
                    if cls is not None and parent is None:
                        cls.methods.setdefault(st.name, []).append(f)
                    # plain lookup: the last real definition (overload stubs and
                    # property setters never shadow it)
                    if any(d.endswith(".setter") for d in f.decorators):
                        self.funcs[q + "@setter"] = f
                    elif any(d.endswith(".deleter") for d in f.decorators):
                        self.funcs[q + "@deleter"] = f
                    elif f.is_overload:
                        self.funcs.setdefault(q, f)
                    else:
                        self.funcs[q] = f
                    visit(st.body, q, None, f)
                elif isinstance(st, ast.ClassDef):
                    q = prefix + "." + st.name
                    c = Cls(st, q, m)
                    self.classes[q] = c
                    visit(st.body, q, c, None)
                elif isinstance(st, (ast.If, ast.Try, ast.With, ast.For, ast.While)):
                    for fld in ("body", "orelse", "finalbody"):
                        visit(getattr(st, fld, []) or [], prefix, cls, parent)
                    for h in getattr(st, "handlers", []) or []:
                        visit(h.body, prefix, cls, parent)
        visit(m.tree.body, m.name, None, None)

    # --------------------------------------------------------------- lookups
    def func(self, qualname) -> Func:
        """Anchor lookup: a vanished anchor is an analysis error, not a pass."""
        f = self.funcs.get(qualname)
        if f is None:
            raise AnalysisError("anchor function vanished: %s" % qualname)
        self.consulted.add(f.module.name)
        return f

    def cls(self, qualname) -> Cls:
        c = self.classes.get(qualname)
        if c is None:
            raise AnalysisError("anchor class vanished: %s" % qualname)
        self.consulted.add(c.module.name)
        return c

    def has_func(self, qualname):
        return qualname in self.funcs

    def method(self, clsqual, name, kind="plain") -> Func:
        c = self.cls(clsqual)
        f = c.method(name, kind)
        if f is None:
            raise AnalysisError("anchor method vanished: %s.%s" % (clsqual, name))
        return f

    def module(self, name) -> Module:
        m = self.modules.get(name)
        if m is None:
            raise AnalysisError("module vanished: %s" % name)
        self.consulted.add(name)
        return m

    def all_funcs(self, module_prefix=None):
        seen = set()
        for q, f in self.funcs.items():
            if id(f) in seen:
                continue
            seen.add(id(f))
            if module_prefix is None or f.module.name == module_prefix or f.module.name.startswith(module_prefix + "."):
                yield f

    def digests(self):
        return {m.relpath: m.sha256 for n, m in sorted(self.modules.items())}

    def where(self, f_or_node, node=None):
        """'file:line' for a report."""
        if isinstance(f_or_node, Func):
            ln = getattr(node, "lineno", f_or_node.lineno) if node is not None else f_or_node.lineno
            return "%s:%d" % (f_or_node.file, ln)
        return "?:%s" % getattr(f_or_node, "lineno", "?")
