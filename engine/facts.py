"""Repo-specific program facts: call resolution, the may-raise model, access
paths of the tracked state fields, def-use helpers (DESIGN.md §2.3/§2.4)."""
from __future__ import annotations

import ast
from typing import Dict, Iterable, List, Optional, Set, Tuple

from .cfg import CFG, Node, WithExit, walk_no_nested
from .hierarchy import Hierarchy, PARAMETER, PARAMETERIZED
from .loader import AnalysisError, Func, Repo, norm

PARAMETERS_CLS = "param.parameterized.Parameters"

# ---------------------------------------------------------------- may-raise
# Builtin operations that the model treats as non-raising (DESIGN §2.3).  The
# properties speak about rejected values and raising callbacks, not about
# MemoryError and friends.
PURE_BUILTINS = {
    "isinstance", "issubclass", "hasattr", "callable", "id", "type", "len", "any", "all",
    "zip", "enumerate", "sorted", "reversed", "range", "repr", "str", "bool", "iter",
    "min", "max", "sum", "print", "super", "vars", "dir", "partial", "chain", "reduce",
    "itemgetter", "attrgetter", "wraps", "classlist", "descendents", "get_logger",
    "get_all_slots", "get_occupied_slots", "iscoroutinefunction", "get_method_owner",
    "_is_mutable_container", "_is_auto_name", "_validate_error_prefix", "Event", "Watcher",
    "PInfo", "MInfo", "DInfo", "namedtuple", "format", "object", "isgeneratorfunction",
}
CONTAINER_CTORS = {"list", "dict", "set", "tuple", "frozenset", "OrderedDict", "defaultdict"}
PURE_METHODS = {
    "append", "extend", "items", "keys", "values", "get", "copy", "add", "discard",
    "setdefault", "pop", "remove", "index", "clear", "update", "insert", "split", "join",
    "strip", "lstrip", "rstrip", "startswith", "endswith", "format", "upper", "lower",
    "count", "replace", "union", "intersection", "difference", "issubset", "sort",
    "reverse", "popitem", "fromkeys", "partition", "rpartition", "title", "capitalize",
    # logging / warnings
    "debug", "info", "warning", "error", "critical", "log", "verbose", "message", "warn",
    "getEffectiveLevel", "setLevel", "cancel", "current_task",
    "mro", "__subclasses__", "isgeneratorfunction", "iscoroutinefunction", "ismethod", "group", "match",
}
# `.update`, `.pop` etc. are only pure on plain containers; a receiver that is
# the `.param` namespace (or unknown Parameterized API) is handled before this
# table is consulted.

TRACKED_STATE = ("_BATCH_WATCH", "_TRIGGER", "_events", "_state_watchers")
STATE_KEYS = {"BATCH_WATCH": "_BATCH_WATCH", "TRIGGER": "_TRIGGER", "events": "_events",
              "watchers": "_state_watchers"}


def call_name(call: ast.Call) -> str:
    return norm(call.func)


def attr_chain(expr) -> List[str]:
    """['obj', '_param__private', 'values'] for obj._param__private.values;
    a non-name root is rendered as '<expr>'."""
    out = []
    while isinstance(expr, ast.Attribute):
        out.append(expr.attr)
        expr = expr.value
    if isinstance(expr, ast.Name):
        out.append(expr.id)
    elif isinstance(expr, ast.Call):
        out.append(norm(expr.func) + "()")
    elif isinstance(expr, ast.Subscript):
        out.append(norm(expr))
    else:
        out.append("<expr>")
    return list(reversed(out))


class Facts:
    def __init__(self, repo: Repo, hier: Optional[Hierarchy] = None):
        self.repo = repo
        self.hier = hier or Hierarchy(repo)
        self._cfg: Dict[str, CFG] = {}
        self._raise_summary: Optional[Dict[str, bool]] = None
        self.unresolved_calls = 0
        self.resolved_calls = 0
        self._param_slots: Optional[Set[str]] = None
        self._computing = False

    # -------------------------------------------------------------- classes
    def enclosing_class(self, f: Func):
        g = f
        while g is not None:
            if g.cls is not None:
                return g.cls
            g = g.parent
        return None

    def is_parameterized_cls(self, clsq: str) -> bool:
        return self.hier.is_subclass(clsq, PARAMETERIZED)

    def is_parameter_cls(self, clsq: str) -> bool:
        return self.hier.is_subclass(clsq, PARAMETER)

    # ------------------------------------------------------ call resolution
    def resolve_call(self, call: ast.Call, f: Func) -> Optional[List[Func]]:
        """Repo functions a call may dispatch to; None = unresolved (external,
        builtin or user code)."""
        fn = call.func
        cls = self.enclosing_class(f)
        hier, repo = self.hier, self.repo
        if isinstance(fn, ast.Name):
            # nested function of an enclosing function
            g = f
            while g is not None:
                q = g.qualname + "." + fn.id
                if q in repo.funcs:
                    return [repo.funcs[q]]
                g = g.parent
            tgt = hier.resolve_name(f.module, fn.id)
            if tgt in repo.funcs:
                return [repo.funcs[tgt]]
            if tgt in repo.classes:
                init = hier.resolve(tgt, "__init__")
                return [init] if init is not None else []
            return None
        if isinstance(fn, ast.Attribute):
            m = fn.attr
            recv = fn.value
            # super().m(...)
            if isinstance(recv, ast.Call) and norm(recv.func) == "super" and cls is not None:
                t = hier.resolve(cls.qualname, m, after=cls.qualname)
                return [t] if t is not None else None
            rtxt = norm(recv)
            first = f.params[0] if f.params else None
            if cls is not None and isinstance(recv, ast.Name) and recv.id == first and not f.has_decorator("staticmethod"):
                # self.m(...): the static type is cls, dynamic type any subclass
                cands = []
                t = hier.resolve(cls.qualname, m)
                if t is not None:
                    cands.append(t)
                for sub in hier.descendants(cls.qualname, strict=True):
                    o = repo.classes[sub].method(m)
                    if o is not None and o not in cands:
                        cands.append(o)
                return cands or None
            # <x>.param.m(...) / <x>.param._m(...): the namespace object
            if isinstance(recv, ast.Attribute) and recv.attr == "param":
                t = hier.resolve(PARAMETERS_CLS, m)
                return [t] if t is not None else None
            # ClassName.m(...)
            tgt = hier.resolve_name(f.module, rtxt) if isinstance(recv, (ast.Name, ast.Attribute)) else None
            if tgt in repo.classes:
                t = hier.resolve(tgt, m)
                return [t] if t is not None else None
            if tgt in repo.modules:
                q = tgt + "." + m
                if q in repo.funcs:
                    return [repo.funcs[q]]
            # cls.m(...) inside a classmethod
            if cls is not None and isinstance(recv, ast.Name) and recv.id in ("cls", "mcs") and recv.id == first:
                t = hier.resolve(cls.qualname, m)
                return [t] if t is not None else None
            return None
        return None

    # ------------------------------------------------------------ may-raise
    def param_slots(self) -> Set[str]:
        if self._param_slots is None:
            s = set()
            for q in self.hier.parameter_classes():
                s.update(self.hier.own_slots(q))
            self._param_slots = s
        return self._param_slots

    def _is_safe_store_target(self, t, f: Optional[Func]) -> bool:
        if isinstance(t, ast.Name):
            return True
        if isinstance(t, (ast.Tuple, ast.List)):
            return all(self._is_safe_store_target(e, f) for e in t.elts)
        if isinstance(t, ast.Starred):
            return self._is_safe_store_target(t.value, f)
        if isinstance(t, ast.Subscript):
            return True  # container item store (dict/list of the repo's own state)
        if isinstance(t, ast.Attribute):
            if t.attr in TRACKED_STATE or t.attr in ("syncing", "constant", "_mode", "initialized"):
                return True
            chain = attr_chain(t)
            if len(chain) >= 2 and chain[-2] == "_param__private":
                return True
            if t.attr == "_param__private":
                return True
            cls = self.enclosing_class(f) if f is not None else None
            if cls is not None and isinstance(t.value, ast.Name) and f.params and t.value.id == f.params[0]:
                if not (self.is_parameterized_cls(cls.qualname)):
                    return True   # plain object / Parameter slot store on self
            if isinstance(t.value, ast.Name) and t.value.id in ("shared_parameters",):
                return True
            return False
        return False

    def expr_may_raise(self, node, f: Optional[Func]) -> bool:
        if node is None or isinstance(node, WithExit):
            return False
        for sub in walk_no_nested(node):
            if isinstance(sub, ast.Raise):
                return True
            if isinstance(sub, (ast.Await, ast.Yield, ast.YieldFrom)):
                return True
            if isinstance(sub, ast.Assert):
                return True
            if isinstance(sub, ast.Call):
                if self.call_may_raise(sub, f):
                    return True
            elif isinstance(sub, (ast.Assign, ast.AugAssign, ast.AnnAssign)):
                targets = sub.targets if isinstance(sub, ast.Assign) else [sub.target]
                for t in targets:
                    if not self._is_safe_store_target(t, f):
                        return True
            elif isinstance(sub, ast.Delete):
                pass
        return False

    def call_may_raise(self, call: ast.Call, f: Optional[Func]) -> bool:
        fn = call.func
        name = call_name(call)
        if isinstance(fn, ast.Name):
            if fn.id in CONTAINER_CTORS:
                # converting a caller-supplied value may raise
                params = set()
                if f is not None:
                    a = f.node.args
                    params = {x.arg for x in a.posonlyargs + a.args + a.kwonlyargs}
                    if f.params:
                        params.discard(f.params[0]) if f.cls is not None else None
                for a_ in call.args:
                    if isinstance(a_, ast.Name) and a_.id in params:
                        return True
                return False
            if fn.id == "getattr":
                return len(call.args) < 3
            if fn.id == "setattr":
                return True
            if fn.id in PURE_BUILTINS:
                return False
        if isinstance(fn, ast.Attribute):
            recv = fn.value
            is_ns = isinstance(recv, ast.Attribute) and recv.attr == "param"
            first = f.params[0] if (f is not None and f.params) else None
            is_self = isinstance(recv, ast.Name) and recv.id == first
            if name in ("type.__setattr__", "object.__setattr__", "copy.copy", "warnings.warn",
                        "asyncio.current_task", "inspect.isgeneratorfunction", "inspect.ismethod",
                        "inspect.getmro", "dict.fromkeys", "re.match"):
                return False
            if not is_ns and not is_self and fn.attr in PURE_METHODS:
                return False
            if is_self and fn.attr in ("warning", "message", "verbose", "debug", "log_", "warn"):
                return False
        if f is None:
            return True
        targets = self.resolve_call(call, f)
        if targets is None:
            self.unresolved_calls += 1
            return True
        self.resolved_calls += 1
        summ = self.raise_summary()
        return any(summ.get(t.qualname, True) for t in targets)

    def node_may_raise(self, f: Func):
        def pred(node, kind):
            if kind == "iter":
                return False
            return self.expr_may_raise(node, f)
        return pred

    def raise_summary(self) -> Dict[str, bool]:
        """Least fixpoint of 'the function has an escaping exceptional path'."""
        if self._raise_summary is not None:
            return self._raise_summary
        summ: Dict[str, bool] = {}
        funcs = list(self.repo.all_funcs())
        for fn in funcs:
            summ[fn.qualname] = False
        self._raise_summary = summ
        self._computing = True
        saved = (self.unresolved_calls, self.resolved_calls)
        try:
            pending = funcs
            for _ in range(12):
                changed = []
                for fn in pending:
                    if summ[fn.qualname]:
                        continue
                    try:
                        g = CFG(fn.node, self.node_may_raise(fn), fn.has_decorator("contextmanager"), fn.qualname)
                    except AnalysisError:
                        summ[fn.qualname] = True
                        changed.append(fn)
                        continue
                    if g.excexit.id in g.reach:
                        summ[fn.qualname] = True
                        changed.append(fn)
                if not changed:
                    break
                pending = [fn for fn in funcs if not summ[fn.qualname]]
            else:
                raise AnalysisError("may-raise summaries did not converge")
        finally:
            self._computing = False
            self.unresolved_calls, self.resolved_calls = saved
        return summ

    # ------------------------------------------------------------------ CFG
    def cfg(self, f: Func) -> CFG:
        g = self._cfg.get(f.qualname)
        if g is None:
            self.raise_summary()
            g = CFG(f.node, self.node_may_raise(f), f.has_decorator("contextmanager"), f.qualname)
            self._cfg[f.qualname] = g
        return g

    # ----------------------------------------------------- access-path facts
    def local_aliases(self, f: Func) -> Dict[str, ast.AST]:
        """Locals assigned exactly once from an attribute/subscript access path
        (``refs = obj._param__private.refs``) -> that expression."""
        counts: Dict[str, int] = {}
        vals: Dict[str, ast.AST] = {}
        for sub in ast.walk(f.node):
            if isinstance(sub, ast.Assign) and len(sub.targets) == 1 and isinstance(sub.targets[0], ast.Name):
                n = sub.targets[0].id
                counts[n] = counts.get(n, 0) + 1
                vals[n] = sub.value
            elif isinstance(sub, (ast.AugAssign, ast.AnnAssign)) and isinstance(sub.target, ast.Name):
                counts[sub.target.id] = counts.get(sub.target.id, 0) + 2
            elif isinstance(sub, (ast.For, ast.AsyncFor)):
                for t in ast.walk(sub.target):
                    if isinstance(t, ast.Name):
                        counts[t.id] = counts.get(t.id, 0) + 2
        out = {}
        for n, v in vals.items():
            if counts.get(n) != 1:
                continue
            if isinstance(v, ast.BoolOp) and isinstance(v.op, ast.Or):
                v = v.values[-1]      # `d = d or obj._param__private.values`
            if isinstance(v, (ast.Attribute, ast.Subscript)):
                out[n] = v
        return out

    def field_of(self, expr, aliases: Dict[str, ast.AST] = None) -> Optional[str]:
        """Tracked field denoted by an access path:

        * ``<x>._param__private.<slot>``            -> 'private.<slot>'
        * ``<x>._BATCH_WATCH`` etc. (namespace props) -> '_BATCH_WATCH'
        * ``<x>.parameters_state['BATCH_WATCH']``     -> '_BATCH_WATCH'
        * a local alias of one of these               -> same
        """
        aliases = aliases or {}
        seen = 0
        while isinstance(expr, ast.Name) and expr.id in aliases and seen < 5:
            expr = aliases[expr.id]
            seen += 1
        if isinstance(expr, ast.Attribute):
            if expr.attr in TRACKED_STATE:
                return expr.attr
            base = expr.value
            b_seen = 0
            while isinstance(base, ast.Name) and base.id in aliases and b_seen < 5:
                base = aliases[base.id]
                b_seen += 1
            if isinstance(base, ast.Attribute) and base.attr == "_param__private":
                return "private." + expr.attr
            if isinstance(base, ast.Name) and base.id in ("param_private", "private", "_param__private"):
                return "private." + expr.attr
        if isinstance(expr, ast.Subscript):
            v = expr.value
            if isinstance(v, ast.Attribute) and v.attr == "parameters_state":
                k = expr.slice
                if isinstance(k, ast.Constant) and k.value in STATE_KEYS:
                    return STATE_KEYS[k.value]
        return None


# ------------------------------------------------------------------ def-use
def assigned_names(node) -> Set[str]:
    """Names (re)bound by the statement/expression evaluated at a CFG node."""
    out = set()
    a = node.ast if isinstance(node, Node) else node
    if a is None or isinstance(a, WithExit):
        return out
    if isinstance(node, Node) and node.kind == "iter":
        for t in ast.walk(node.stmt.target):
            if isinstance(t, ast.Name):
                out.add(t.id)
        return out
    if isinstance(node, Node) and node.kind == "with_enter":
        if a.optional_vars is not None:
            for t in ast.walk(a.optional_vars):
                if isinstance(t, ast.Name):
                    out.add(t.id)
        return out
    for sub in walk_no_nested(a):
        if isinstance(sub, ast.Name) and isinstance(sub.ctx, (ast.Store, ast.Del)):
            out.add(sub.id)
        elif isinstance(sub, ast.NamedExpr) and isinstance(sub.target, ast.Name):
            out.add(sub.target.id)
    if isinstance(a, (ast.FunctionDef, ast.AsyncFunctionDef, ast.ClassDef)):
        out.add(a.name)
    return out


def used_names(expr) -> Set[str]:
    return {n.id for n in ast.walk(expr) if isinstance(n, ast.Name) and isinstance(n.ctx, ast.Load)}


def calls_in(node) -> List[ast.Call]:
    a = node.ast if isinstance(node, Node) else node
    if a is None or isinstance(a, WithExit):
        return []
    if isinstance(node, Node):
        if node.kind not in ("stmt", "test", "with_enter"):
            return []   # 'iter'/'br' nodes repeat an expression evaluated at another node
        if node.kind == "with_enter":
            a = a.context_expr
    return [s for s in walk_no_nested(a) if isinstance(s, ast.Call)]


def stores_in(node) -> List[ast.AST]:
    """Store targets (Attribute / Subscript / Name) of the node's statement,
    including ``del`` targets and augmented assignments."""
    a = node.ast if isinstance(node, Node) else node
    out = []
    if a is None or isinstance(a, WithExit) or (isinstance(node, Node) and node.kind != "stmt"):
        return out
    if isinstance(a, ast.Assign):
        for t in a.targets:
            out.extend(_flatten_target(t))
    elif isinstance(a, (ast.AugAssign, ast.AnnAssign)):
        out.extend(_flatten_target(a.target))
    elif isinstance(a, ast.Delete):
        for t in a.targets:
            out.extend(_flatten_target(t))
    return out


def _flatten_target(t):
    if isinstance(t, (ast.Tuple, ast.List)):
        out = []
        for e in t.elts:
            out.extend(_flatten_target(e))
        return out
    if isinstance(t, ast.Starred):
        return _flatten_target(t.value)
    return [t]


def no_redefinition_between(cfg: CFG, a: Node, b: Node, name: str) -> bool:
    """True iff no node on any path a -> b (exclusive) rebinds ``name``."""
    fwd = {n.id for n in cfg.reachable_from([a])}
    for n in cfg.live_nodes():
        if n is a or n is b or n.id not in fwd:
            continue
        if name in assigned_names(n):
            # is b reachable from n?
            if any(m is b for m in cfg.reachable_from([n])):
                return False
    return True


def reaching_defs(cfg: CFG, node: Node, name: str) -> List[Node]:
    """CFG nodes that (re)bind ``name`` and reach ``node`` without an
    intervening rebinding (backward walk over all edge kinds)."""
    out, seen = [], set()
    stack = [p for _, p in node.pred]
    while stack:
        n = stack.pop()
        if n.id in seen:
            continue
        seen.add(n.id)
        if name in assigned_names(n):
            out.append(n)
            continue
        stack.extend(p for _, p in n.pred)
    return out
