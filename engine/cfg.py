"""Statement-level control-flow graph with exceptional edges (DESIGN.md §2.3).

One node per simple statement and per branch test; explicit pseudo-nodes on
both arms of every test (kind ``br``) so that path conditions are plain
dominance facts; ``try/finally`` (and ``with``, modelled as try/finally with a
synthetic exit) bodies are duplicated per continuation kind (fall-through,
exception, return, break, continue).
"""
from __future__ import annotations

import ast
from typing import Callable, Dict, Iterable, List, Optional, Set, Tuple

from .loader import AnalysisError, norm, norm_stmt


class WithExit:
    """Synthetic statement: ``__exit__`` of one ``with`` item."""
    _fields = ()

    def __init__(self, with_node, item):
        self.with_node = with_node
        self.item = item
        self.lineno = getattr(with_node, "lineno", 0)
        self.end_lineno = getattr(with_node, "end_lineno", self.lineno)


class Node:
    __slots__ = ("id", "kind", "ast", "stmt", "succ", "pred", "may_raise", "suspend",
                 "lex", "polarity", "copy_of")

    def __init__(self, id, kind, astnode=None, stmt=None):
        self.id = id
        self.kind = kind          # entry exit excexit stmt test br iter with_enter with_exit handler
        self.ast = astnode        # statement or expression evaluated at this node
        self.stmt = stmt          # owning statement (for location)
        self.succ: List[Tuple[str, "Node"]] = []
        self.pred: List[Tuple[str, "Node"]] = []
        self.may_raise = False
        self.suspend = False
        self.lex: Tuple = ()      # lexical try/with context: ((ast Try|With, part), ...)
        self.polarity = None      # for 'br' nodes
        self.copy_of = None

    @property
    def lineno(self):
        for a in (self.ast, self.stmt):
            ln = getattr(a, "lineno", None)
            if ln:
                return ln
        return 0

    def text(self):
        if self.kind in ("entry", "exit", "excexit"):
            return "<%s>" % self.kind
        if self.kind == "br":
            return "[%s is %s]" % (norm(self.ast), "true" if self.polarity else "false")
        if self.kind == "with_exit":
            return "<exit of with %s>" % norm(self.ast.item.context_expr)
        if self.kind == "with_enter":
            return "with " + norm(self.ast)
        if self.kind == "iter":
            return "for %s in %s" % (norm(self.stmt.target), norm(self.stmt.iter))
        if self.kind == "handler":
            return "<except dispatch>"
        if self.kind == "test":
            return "test " + norm(self.ast)
        return norm_stmt(self.ast)

    def __repr__(self):
        return "<N%d %s L%d %s>" % (self.id, self.kind, self.lineno, self.text()[:60])


def _lazy(fn):
    cell = []

    def get():
        if not cell:
            cell.append(fn())
        return cell[0]
    return get


class _Ctx:
    __slots__ = ("ret", "brk", "cont", "exc")

    def __init__(self, ret, brk, cont, exc):
        self.ret, self.brk, self.cont, self.exc = ret, brk, cont, exc

    def replace(self, **kw):
        c = _Ctx(self.ret, self.brk, self.cont, self.exc)
        for k, v in kw.items():
            setattr(c, k, v)
        return c


CATCH_ALL = {"Exception", "BaseException"}


class CFG:
    def __init__(self, func_node, may_raise: Callable[[object, str], bool],
                 is_contextmanager=False, name="?"):
        self.func = func_node
        self.name = name
        self.nodes: List[Node] = []
        self._may_raise = may_raise
        self.is_cm = is_contextmanager
        self._lex: List = []
        self.entry = self._new("entry")
        self.exit = self._new("exit")
        self.excexit = self._new("excexit")
        ctx = _Ctx(ret=lambda: self.exit, brk=None, cont=None, exc=lambda: self.excexit)
        first = self._stmts(func_node.body, self.exit, ctx)
        self._edge(self.entry, first, "n")
        self._prune()
        self._dom = None
        self._pdom = None

    # ------------------------------------------------------------- plumbing
    def _new(self, kind, astnode=None, stmt=None):
        n = Node(len(self.nodes), kind, astnode, stmt if stmt is not None else astnode)
        n.lex = tuple(self._lex)
        self.nodes.append(n)
        return n

    def _edge(self, a: Node, b: Node, label: str):
        if b is None:
            raise AnalysisError("CFG: jump without target in %s" % self.name)
        if (label, b) not in a.succ:
            a.succ.append((label, b))
            b.pred.append((label, a))

    def _mark(self, n: Node, expr_or_stmt, ctx: _Ctx, kind=None):
        """Set may-raise/suspend flags and the exceptional edge."""
        k = kind or n.kind
        susp = _has_suspension(expr_or_stmt, self.is_cm)
        n.suspend = susp
        if self._may_raise(expr_or_stmt, k) or susp:
            n.may_raise = True
            self._edge(n, ctx.exc(), "e")

    def _prune(self):
        seen = set()
        stack = [self.entry]
        while stack:
            n = stack.pop()
            if n.id in seen:
                continue
            seen.add(n.id)
            stack.extend(s for _, s in n.succ)
        self.reach = seen
        for n in self.nodes:
            n.pred = [(l, p) for l, p in n.pred if p.id in seen]

    # ---------------------------------------------------------------- build
    def _stmts(self, stmts, k: Node, ctx: _Ctx) -> Node:
        for s in reversed(stmts):
            k = self._stmt(s, k, ctx)
        return k

    def _branch(self, test_node: Node, expr, polarity: bool, target: Node):
        b = self._new("br", expr, test_node.stmt)
        b.polarity = polarity
        self._edge(test_node, b, "t" if polarity else "f")
        self._edge(b, target, "n")
        return b

    def _stmt(self, s, k: Node, ctx: _Ctx) -> Node:
        if isinstance(s, WithExit):
            n = self._new("with_exit", s, s.with_node)
            self._edge(n, k, "n")
            return n
        if isinstance(s, ast.If):
            t = self._new("test", s.test, s)
            self._mark(t, s.test, ctx)
            body = self._stmts(s.body, k, ctx)
            orelse = self._stmts(s.orelse, k, ctx)
            self._branch(t, s.test, True, body)
            self._branch(t, s.test, False, orelse)
            return t
        if isinstance(s, ast.While):
            t = self._new("test", s.test, s)
            self._mark(t, s.test, ctx)
            after = self._stmts(s.orelse, k, ctx)
            lctx = ctx.replace(brk=lambda: k, cont=lambda: t)
            body = self._stmts(s.body, t, lctx)
            self._branch(t, s.test, True, body)
            if not (isinstance(s.test, ast.Constant) and s.test.value is True):
                self._branch(t, s.test, False, after)
            return t
        if isinstance(s, (ast.For, ast.AsyncFor)):
            ev = self._new("stmt", s.iter, s)       # evaluation of the iterable
            self._mark(ev, s.iter, ctx, kind="iterexpr")
            head = self._new("iter", s, s)
            if isinstance(s, ast.AsyncFor):
                head.suspend = True
                head.may_raise = True
                self._edge(head, ctx.exc(), "e")
            elif self._may_raise(s, "iter"):
                head.may_raise = True
                self._edge(head, ctx.exc(), "e")
            self._edge(ev, head, "n")
            after = self._stmts(s.orelse, k, ctx)
            lctx = ctx.replace(brk=lambda: k, cont=lambda: head)
            body = self._stmts(s.body, head, lctx)
            self._edge(head, body, "t")
            self._edge(head, after, "f")
            return ev
        if isinstance(s, (ast.With, ast.AsyncWith)):
            return self._with(s, list(s.items), k, ctx)
        if isinstance(s, ast.Try) or s.__class__.__name__ == "TryStar":
            return self._try(s, k, ctx)
        if isinstance(s, ast.Return):
            n = self._new("stmt", s)
            self._mark(n, s, ctx)
            self._edge(n, ctx.ret(), "n")
            return n
        if isinstance(s, ast.Raise):
            n = self._new("stmt", s)
            n.may_raise = True
            self._edge(n, ctx.exc(), "e")
            return n
        if isinstance(s, ast.Break):
            n = self._new("stmt", s)
            self._edge(n, ctx.brk(), "n")
            return n
        if isinstance(s, ast.Continue):
            n = self._new("stmt", s)
            self._edge(n, ctx.cont(), "n")
            return n
        if s.__class__.__name__ == "Match":
            raise AnalysisError("CFG: match statement not supported (%s line %s)" % (self.name, s.lineno))
        # simple statement (incl. nested def/class, which are not descended)
        n = self._new("stmt", s)
        self._mark(n, s, ctx)
        self._edge(n, k, "n")
        return n

    def _with(self, s, items, k: Node, ctx: _Ctx) -> Node:
        if not items:
            return self._stmts(s.body, k, ctx)
        item = items[0]
        enter = self._new("with_enter", item, s)
        self._mark(enter, item.context_expr, ctx, kind="with_enter")
        if isinstance(s, ast.AsyncWith):
            enter.suspend = True
            if not enter.may_raise:
                enter.may_raise = True
                self._edge(enter, ctx.exc(), "e")
        wx = WithExit(s, item)
        inner_entry = self._finally_region(
            lambda kk, cc: self._with(s, items[1:], kk, cc), [wx], k, ctx, lexkey=(s, "with:%d" % (len(s.items) - len(items))))
        self._edge(enter, inner_entry, "n")
        return enter

    def _finally_region(self, build_body, finalbody, k: Node, ctx: _Ctx, lexkey):
        """body with a finally: one copy of ``finalbody`` per continuation."""
        outer_lex = list(self._lex)

        def fin_copy(target_get, part):
            def make():
                saved = self._lex
                self._lex = outer_lex + [(lexkey[0], part)]
                try:
                    return self._stmts(finalbody, target_get(), ctx)
                finally:
                    self._lex = saved
            return _lazy(make)

        fin_normal = fin_copy(lambda: k, "finally")()
        # after the exceptional copy the exception propagates outwards
        fin_exc = fin_copy(ctx.exc, "finally-exc")
        bctx = _Ctx(
            ret=fin_copy(ctx.ret, "finally-ret") if ctx.ret else None,
            brk=fin_copy(ctx.brk, "finally-brk") if ctx.brk else None,
            cont=fin_copy(ctx.cont, "finally-cont") if ctx.cont else None,
            exc=fin_exc,
        )
        self._lex = outer_lex + [(lexkey[0], lexkey[1])]
        try:
            entry = build_body(fin_normal, bctx)
        finally:
            self._lex = outer_lex
        return entry

    def _try(self, s, k: Node, ctx: _Ctx) -> Node:
        def body_with_handlers(kk, cc):
            if not s.handlers:
                self._lex.append((s, "body"))
                try:
                    after_body = self._stmts(s.orelse, kk, cc) if s.orelse else kk
                    return self._stmts(s.body, after_body, cc)
                finally:
                    self._lex.pop()
            # handlers: exceptions raised inside handlers/orelse go to cc.exc
            self._lex.append((s, "handler"))
            try:
                disp = self._new("handler", s, s)
                catch_all = False
                for h in s.handlers:
                    hb = self._stmts(h.body, kk, cc.replace(exc=cc.exc))
                    self._edge(disp, hb, "h")
                    if h.type is None or norm(h.type) in CATCH_ALL:
                        catch_all = True
                if not catch_all:
                    self._edge(disp, cc.exc(), "e")
            finally:
                self._lex.pop()
            self._lex.append((s, "orelse"))
            try:
                after_body = self._stmts(s.orelse, kk, cc) if s.orelse else kk
            finally:
                self._lex.pop()
            self._lex.append((s, "body"))
            try:
                return self._stmts(s.body, after_body, cc.replace(exc=lambda: disp))
            finally:
                self._lex.pop()

        if s.finalbody:
            return self._finally_region(body_with_handlers, s.finalbody, k, ctx, lexkey=(s, "try"))
        return body_with_handlers(k, ctx)

    # ------------------------------------------------------------ analyses
    def live_nodes(self) -> List[Node]:
        return [n for n in self.nodes if n.id in self.reach]

    def _dominators(self, entry: Node, succ, pred) -> Dict[int, Optional[int]]:
        # Cooper-Harvey-Kennedy
        order: List[Node] = []
        seen = set()

        def dfs(n):
            stack = [(n, iter(succ(n)))]
            seen.add(n.id)
            while stack:
                node, it = stack[-1]
                for s in it:
                    if s.id not in seen:
                        seen.add(s.id)
                        stack.append((s, iter(succ(s))))
                        break
                else:
                    order.append(node)
                    stack.pop()
        dfs(entry)
        rpo = list(reversed(order))
        idx = {n.id: i for i, n in enumerate(rpo)}
        idom: Dict[int, Optional[int]] = {entry.id: entry.id}

        def intersect(a, b):
            while a != b:
                while idx[a] > idx[b]:
                    a = idom[a]
                while idx[b] > idx[a]:
                    b = idom[b]
            return a
        changed = True
        while changed:
            changed = False
            for n in rpo[1:]:
                ps = [p.id for p in pred(n) if p.id in idom and p.id in idx]
                if not ps:
                    continue
                new = ps[0]
                for p in ps[1:]:
                    new = intersect(p, new)
                if idom.get(n.id) != new:
                    idom[n.id] = new
                    changed = True
        return idom

    def dominators(self):
        if self._dom is None:
            self._dom = self._dominators(
                self.entry, lambda n: [s for _, s in n.succ], lambda n: [p for _, p in n.pred])
        return self._dom

    def dominates(self, a: Node, b: Node) -> bool:
        """a dominates b (every path entry->b passes a)."""
        idom = self.dominators()
        if b.id not in idom:
            return False
        x = b.id
        while True:
            if x == a.id:
                return True
            nx = idom.get(x)
            if nx is None or nx == x:
                return False
            x = nx

    def dominating(self, b: Node) -> List[Node]:
        idom = self.dominators()
        out = []
        x = b.id
        if x not in idom:
            return out
        while True:
            out.append(self.nodes[x])
            nx = idom.get(x)
            if nx is None or nx == x:
                break
            x = nx
        return out

    def postdominators(self):
        if self._pdom is None:
            end = Node(-1, "end")
            ends = [self.exit, self.excexit]

            def succ(n):
                if n is end:
                    return [e for e in ends if e.id in self.reach]
                return [p for _, p in n.pred]

            def pred(n):
                r = [s for _, s in n.succ]
                if n in ends:
                    r = r + [end]
                return r
            self._pdom = (self._dominators(end, succ, pred), end)
        return self._pdom

    def postdominates(self, a: Node, b: Node) -> bool:
        """a post-dominates b (every path b->any exit passes a)."""
        idom, end = self.postdominators()
        if b.id not in idom:
            return False
        x = b.id
        while True:
            if x == a.id:
                return True
            nx = idom.get(x)
            if nx is None or nx == x or nx == -1:
                return False
            x = nx

    def conditions(self, n: Node) -> List[Tuple[ast.AST, bool]]:
        """Must-conditions of n: (atomic test expr, truth) pairs that hold on
        every path from the entry to n (from dominating branch pseudo-nodes;
        ``and``/``or``/``not`` are decomposed)."""
        out = []
        for d in self.dominating(n):
            if d.kind == "br":
                out.extend(decompose(d.ast, d.polarity))
        return out

    def reachable_from(self, starts: Iterable[Node], stop: Callable[[Node], bool] = None,
                       labels: Optional[Set[str]] = None, include_start=False) -> List[Node]:
        """Nodes reachable from ``starts`` without passing *through* a node for
        which ``stop`` is true (stop nodes themselves are included)."""
        seen: Dict[int, Node] = {}
        stack = []
        for s in starts:
            if include_start:
                stack.append(s)
            else:
                stack.extend(t for l, t in s.succ if labels is None or l in labels)
        while stack:
            n = stack.pop()
            if n.id in seen:
                continue
            seen[n.id] = n
            if stop is not None and stop(n):
                continue
            for l, t in n.succ:
                if labels is None or l in labels:
                    stack.append(t)
        return list(seen.values())

    def path(self, a: Node, b: Node, avoid: Callable[[Node], bool] = None) -> Optional[List[Node]]:
        """A shortest path a -> b (witness), not passing through ``avoid`` nodes."""
        from collections import deque
        prev = {a.id: None}
        dq = deque([a])
        while dq:
            n = dq.popleft()
            if n is b and n is not a or (n is b and prev[n.id] is not None):
                break
            for _, t in n.succ:
                if t.id in prev:
                    continue
                if avoid is not None and t is not b and avoid(t):
                    continue
                prev[t.id] = n
                dq.append(t)
        if b.id not in prev:
            return None
        out = []
        x = b
        while x is not None:
            out.append(x)
            x = prev[x.id]
        return list(reversed(out))

    def nodes_of(self, astnode) -> List[Node]:
        return [n for n in self.live_nodes() if n.ast is astnode]

    def witness(self, path: List[Node]) -> List[str]:
        return ["L%d %s" % (n.lineno, n.text()) for n in path if n.kind not in ("entry",)]


def decompose(expr, truth: bool) -> List[Tuple[ast.AST, bool]]:
    """Atomic facts implied by ``expr`` having truth value ``truth``."""
    if isinstance(expr, ast.UnaryOp) and isinstance(expr.op, ast.Not):
        return decompose(expr.operand, not truth)
    if isinstance(expr, ast.BoolOp):
        if (isinstance(expr.op, ast.And) and truth) or (isinstance(expr.op, ast.Or) and not truth):
            out = []
            for v in expr.values:
                out.extend(decompose(v, truth))
            return out + [(expr, truth)]
        return [(expr, truth)]
    if isinstance(expr, ast.Compare) and len(expr.ops) == 1 and isinstance(expr.comparators[0], ast.Constant) \
            and expr.comparators[0].value in (True, False) and isinstance(expr.comparators[0].value, bool) \
            and isinstance(expr.ops[0], (ast.Is, ast.Eq, ast.IsNot, ast.NotEq)) and isinstance(expr.left, (ast.Call, ast.Compare, ast.BoolOp)):
        # `isinstance(x, T) is False`  ==  not isinstance(x, T)
        same = isinstance(expr.ops[0], (ast.Is, ast.Eq)) == expr.comparators[0].value
        return decompose(expr.left, truth if same else not truth) + [(expr, truth)]
    if isinstance(expr, ast.Compare) and len(expr.ops) == 1:
        op = expr.ops[0]
        flip = {ast.IsNot: ast.Is, ast.NotIn: ast.In, ast.NotEq: ast.Eq}
        for neg, pos in flip.items():
            if isinstance(op, neg):
                e2 = ast.Compare(left=expr.left, ops=[pos()], comparators=expr.comparators)
                return [(e2, not truth)]
    return [(expr, truth)]


def cond_holds(conds, text: str, truth: bool) -> bool:
    """Does the fact ``text`` (normalised source) with ``truth`` follow from
    the must-conditions ``conds``?  The fact itself may be listed, or every
    atomic fact it decomposes into (``not (a or b)`` == ``not a and not b``)."""
    expr = ast.parse(text, mode="eval").body
    want = norm(expr)
    have = {(norm(e), t) for e, t in conds}
    if (want, truth) in have:
        return True
    atoms = [(norm(e), t) for e, t in decompose(expr, truth) if norm(e) != want]
    return bool(atoms) and all(a in have for a in atoms)


def _has_suspension(node, in_cm: bool) -> bool:
    if node is None or isinstance(node, WithExit):
        return False
    for sub in _walk_no_nested(node):
        if isinstance(sub, (ast.Await, ast.Yield, ast.YieldFrom)):
            return True
    return False


def _walk_no_nested(node):
    """ast.walk that does not descend into nested function/class/lambda bodies
    (for a nested ``def`` statement only decorators and defaults are evaluated)."""
    if isinstance(node, (ast.FunctionDef, ast.AsyncFunctionDef)):
        roots = list(node.decorator_list) + list(node.args.defaults) + [d for d in node.args.kw_defaults if d is not None]
        yield node
    elif isinstance(node, ast.ClassDef):
        roots = list(node.decorator_list) + list(node.bases)
        yield node
    else:
        roots = [node]
    stack = list(roots)
    while stack:
        n = stack.pop()
        yield n
        for c in ast.iter_child_nodes(n):
            if isinstance(c, (ast.FunctionDef, ast.AsyncFunctionDef, ast.ClassDef, ast.Lambda)):
                continue
            stack.append(c)


walk_no_nested = _walk_no_nested
