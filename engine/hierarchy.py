"""Static class hierarchy: base resolution through import tables, C3 MRO,
method resolution, ``__slots__`` union and ``_slot_defaults`` chains."""
from __future__ import annotations

import ast
from typing import Dict, List, Optional

from .loader import AnalysisError, Cls, Func, Repo, norm

PARAMETER = "param.parameterized.Parameter"
PARAMETERIZED = "param.parameterized.Parameterized"


class Hierarchy:
    def __init__(self, repo: Repo):
        self.repo = repo
        self._mro: Dict[str, List[str]] = {}
        self.bases: Dict[str, List[str]] = {}
        for q, c in repo.classes.items():
            self.bases[q] = [b for b in (self._resolve_base(c, e) for e in c.node.bases) if b]
            c.base_quals = self.bases[q]
        self.subclasses: Dict[str, List[str]] = {q: [] for q in repo.classes}
        for q, bs in self.bases.items():
            for b in bs:
                if b in self.subclasses:
                    self.subclasses[b].append(q)

    # ------------------------------------------------------------ resolution
    def resolve_name(self, module, name: str) -> Optional[str]:
        """Qualified name of a repo class/function denoted by ``name`` in
        ``module`` (module-level definition or import), else None."""
        head, _, rest = name.partition(".")
        q = module.name + "." + head
        if q in self.repo.classes or q in self.repo.funcs:
            tgt = q
        elif head in module.imports:
            tgt = module.imports[head]
            # follow re-exports one hop at a time (param/__init__ re-exports)
            seen = set()
            while tgt not in self.repo.classes and tgt not in self.repo.funcs and tgt not in self.repo.modules:
                if tgt in seen:
                    break
                seen.add(tgt)
                mod, _, nm = tgt.rpartition(".")
                m = self.repo.modules.get(mod)
                if m is None or nm not in m.imports:
                    break
                tgt = m.imports[nm]
        else:
            return None
        if rest:
            tgt = tgt + "." + rest
        return tgt

    def _resolve_base(self, c: Cls, expr) -> Optional[str]:
        name = norm(expr)
        if isinstance(expr, ast.Call):  # e.g. metaclass helpers; not used by the repo's Parameter types
            return None
        tgt = self.resolve_name(c.module, name)
        if tgt in self.repo.classes:
            return tgt
        return None  # builtin / external base (object, list, namedtuple ...)

    # ------------------------------------------------------------------ MRO
    def mro(self, q: str) -> List[str]:
        if q in self._mro:
            return self._mro[q]
        if q not in self.repo.classes:
            raise AnalysisError("class vanished: %s" % q)
        seqs = [self.mro(b)[:] for b in self.bases[q]] + [self.bases[q][:]]
        res = [q]
        while True:
            seqs = [s for s in seqs if s]
            if not seqs:
                break
            for s in seqs:
                cand = s[0]
                if not any(cand in t[1:] for t in seqs):
                    break
            else:
                raise AnalysisError("inconsistent MRO for %s" % q)
            res.append(cand)
            for s in seqs:
                if s and s[0] == cand:
                    del s[0]
        self._mro[q] = res
        return res

    def is_subclass(self, q: str, base: str) -> bool:
        return q in self.repo.classes and base in self.mro(q)

    def descendants(self, base: str, strict=False) -> List[str]:
        out = [q for q in self.repo.classes if self.is_subclass(q, base) and (q != base or not strict)]
        return sorted(out, key=lambda q: (self.repo.classes[q].module.name, self.repo.classes[q].node.lineno))

    def parameter_classes(self) -> List[str]:
        return self.descendants(PARAMETER)

    def resolve(self, q: str, method: str, kind="plain", after: Optional[str] = None) -> Optional[Func]:
        """Defining function of ``method`` along the MRO of ``q``.  ``after``
        = class after which the search starts (``super()`` semantics)."""
        mro = self.mro(q)
        if after is not None:
            if after not in mro:
                return None
            mro = mro[mro.index(after) + 1:]
        for c in mro:
            f = self.repo.classes[c].method(method, kind)
            if f is not None:
                return f
        return None

    def overrides(self, base: str, method: str) -> List[Func]:
        """Every definition of ``method`` in ``base`` or a subclass."""
        out = []
        for q in self.descendants(base):
            f = self.repo.classes[q].method(method)
            if f is not None:
                out.append(f)
        return out

    # ---------------------------------------------------------------- slots
    def own_slots(self, q: str) -> List[str]:
        v = self.repo.classes[q].class_assign("__slots__")
        if v is None:
            return []
        if isinstance(v, (ast.List, ast.Tuple)):
            out = []
            for e in v.elts:
                if isinstance(e, ast.Constant) and isinstance(e.value, str):
                    out.append(e.value)
                else:
                    raise AnalysisError("non-literal __slots__ entry in %s" % q)
            return out
        raise AnalysisError("non-literal __slots__ in %s" % q)

    def all_slots(self, q: str) -> List[str]:
        out = []
        for c in reversed(self.mro(q)):
            for s in self.own_slots(c):
                if s not in out:
                    out.append(s)
        return out

    def slot_defaults(self, q: str) -> Dict[str, ast.AST]:
        """Evaluate the ``_slot_defaults = dict(Parent._slot_defaults, k=v)``
        literal chain; values are AST expressions."""
        for c in self.mro(q):
            v = self.repo.classes[c].class_assign("_slot_defaults")
            if v is None:
                continue
            return self._eval_slot_defaults(c, v)
        return {}

    def _eval_slot_defaults(self, c: str, v) -> Dict[str, ast.AST]:
        cls = self.repo.classes[c]
        if isinstance(v, ast.Call) and norm(v.func) == "dict":
            out: Dict[str, ast.AST] = {}
            for a in v.args:
                if isinstance(a, ast.Attribute) and a.attr == "_slot_defaults":
                    parent = self.resolve_name(cls.module, norm(a.value))
                    if parent not in self.repo.classes:
                        raise AnalysisError("cannot resolve _slot_defaults parent %s in %s" % (norm(a), c))
                    out.update(self.slot_defaults(parent))
                elif isinstance(a, ast.Call) and isinstance(a.func, ast.Attribute):
                    # e.g. _SignatureSelector._modified_slots_defaults()
                    parent = self.resolve_name(cls.module, norm(a.func.value))
                    if parent in self.repo.classes:
                        out.update(self.slot_defaults(parent))
                    else:
                        raise AnalysisError("unsupported _slot_defaults argument %s in %s" % (norm(a), c))
                else:
                    raise AnalysisError("unsupported _slot_defaults argument %s in %s" % (norm(a), c))
            for kw in v.keywords:
                if kw.arg is None:
                    raise AnalysisError("unsupported **kwargs in _slot_defaults of %s" % c)
                out[kw.arg] = kw.value
            return out
        if isinstance(v, ast.Dict):
            out = {}
            for k, val in zip(v.keys, v.values):
                if not (isinstance(k, ast.Constant) and isinstance(k.value, str)):
                    raise AnalysisError("non-literal _slot_defaults key in %s" % c)
                out[k.value] = val
            return out
        if isinstance(v, ast.Call):
            # computed (e.g. a classmethod); treat as opaque parent copy
            raise AnalysisError("unsupported _slot_defaults expression in %s: %s" % (c, norm(v)))
        raise AnalysisError("unsupported _slot_defaults expression in %s" % c)


    # ------------------------------------------------------- method closure
    def self_closure(self, dyn: str, entry: str, max_funcs: int = 200):
        """Functions reachable from ``dyn.entry`` through ``self.m(...)`` and
        ``super().m(...)`` calls when the dynamic type of ``self`` is ``dyn``.
        Returns a list of (Func, defining class qualname)."""
        start = self.resolve(dyn, entry)
        if start is None:
            return []
        out, seen, work = [], set(), [start]
        while work:
            f = work.pop()
            if f.qualname in seen:
                continue
            seen.add(f.qualname)
            out.append(f)
            if len(out) > max_funcs:
                raise AnalysisError("self-call closure of %s.%s too large" % (dyn, entry))
            owner = f.cls.qualname if f.cls is not None else None
            selfname = f.params[0] if f.params else "self"
            for sub in ast.walk(f.node):
                if not (isinstance(sub, ast.Call) and isinstance(sub.func, ast.Attribute)):
                    continue
                recv, m = sub.func.value, sub.func.attr
                t = None
                if isinstance(recv, ast.Name) and recv.id == selfname:
                    t = self.resolve(dyn, m)
                elif isinstance(recv, ast.Call) and norm(recv.func) == "super" and owner is not None:
                    t = self.resolve(dyn, m, after=owner)
                if t is not None:
                    work.append(t)
        return out

    def property_setter(self, q: str, name: str):
        return self.resolve(q, name, kind="setter")

    def is_property(self, q: str, name: str) -> bool:
        f = self.resolve(q, name)
        return f is not None and f.has_decorator("property")
