"""Path-condition dataflow over a finite set of boolean atoms (no solver: the valuations are enumerated).

Branch pseudo-nodes of the CFG carry their whole test expression and a polarity.  For a chosen set of ATOMS (normalised
source text of atomic conditions) the analysis propagates, from the entry, the set of truth assignments to those atoms
that are consistent with reaching each node; a branch node keeps the assignments under which its test has its
polarity (tests are evaluated with and / or / not; `a is not b`, `a != b`, `a not in b` are the negations of the atoms
`a is b`, `a == b`, `a in b`; a test that mentions no chosen atom does not filter).  Atoms are assumed not to change
their value inside the function (the caller chooses atoms over values that are not reassigned after they are tested).
"""
from __future__ import annotations

import ast
from typing import Callable, Dict, Iterable, List, Set

from engine.loader import norm

_NEG = {ast.IsNot: "is", ast.NotEq: "==", ast.NotIn: "in"}
_POS = {ast.Is: "is", ast.Eq: "==", ast.In: "in"}


def atom_of(e):
    """(text, positive) for an atomic condition."""
    if isinstance(e, ast.Compare) and len(e.ops) == 1:
        op = type(e.ops[0])
        if op in _NEG:
            return "%s %s %s" % (norm(e.left), _NEG[op], norm(e.comparators[0])), False
        if op in _POS:
            return "%s %s %s" % (norm(e.left), _POS[op], norm(e.comparators[0])), True
    return norm(e), True


def atoms_in(e) -> List[str]:
    if isinstance(e, ast.BoolOp):
        return [a for v in e.values for a in atoms_in(v)]
    if isinstance(e, ast.UnaryOp) and isinstance(e.op, ast.Not):
        return atoms_in(e.operand)
    return [atom_of(e)[0]]


def evaluate(e, val: Dict[str, bool]):
    """True / False / None (unknown: mentions an atom that is not tracked)."""
    if isinstance(e, ast.BoolOp):
        vs = [evaluate(v, val) for v in e.values]
        if isinstance(e.op, ast.And):
            if any(v is False for v in vs):
                return False
            return None if any(v is None for v in vs) else True
        if any(v is True for v in vs):
            return True
        return None if any(v is None for v in vs) else False
    if isinstance(e, ast.UnaryOp) and isinstance(e.op, ast.Not):
        v = evaluate(e.operand, val)
        return None if v is None else (not v)
    text, positive = atom_of(e)
    if text not in val:
        return None
    return val[text] if positive else (not val[text])


def reaching(cfg, atoms: List[str], stop: Callable = None, labels: Set[str] = None):
    """node id -> set of valuations (tuples of booleans, in the order of `atoms`) consistent with reaching the node from the
    entry without passing THROUGH a node for which `stop` holds."""
    import itertools
    allv = set(itertools.product([False, True], repeat=len(atoms)))
    state: Dict[int, Set[tuple]] = {cfg.entry.id: set(allv)}
    nodes = {cfg.entry.id: cfg.entry}
    work = [cfg.entry]
    while work:
        n = work.pop()
        cur = state[n.id]
        if stop is not None and stop(n) and n is not cfg.entry:
            continue
        for l, t in n.succ:
            if labels is not None and l not in labels:
                continue
            out = cur
            if t.kind == "br" and t.ast is not None:
                keep = set()
                for v in cur:
                    r = evaluate(t.ast, dict(zip(atoms, v)))
                    if r is None or r is t.polarity:
                        keep.add(v)
                out = keep
            old = state.get(t.id)
            if old is None or not out <= old:
                state[t.id] = (old or set()) | out
                nodes[t.id] = t
                work.append(t)
    return state
