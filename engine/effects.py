"""Recognisers for the observable effects of the setter path (value store,
links, watcher tables, dispatch) and transitive effect summaries."""
from __future__ import annotations

import ast
from typing import Dict, List, Optional, Set, Tuple

from .cfg import Node, walk_no_nested
from .facts import Facts, calls_in, stores_in
from .loader import Func, norm

LINK_FIELDS = {"private.refs", "private.ref_watchers", "private.async_refs"}
STORE_FIELDS = {"private.values"}
WATCH_FIELDS = {"private.watchers", "private.dynamic_watchers"}
EFFECT_FIELDS = LINK_FIELDS | STORE_FIELDS | WATCH_FIELDS

# calls that are observable effects by themselves (by attribute name)
DISPATCH_CALLS = {"_call_watcher", "_batch_call_watchers", "_execute_watcher", "_trigger_event", "trigger"}
LINK_CALLS = {"_update_ref", "_setup_refs", "cancel", "unwatch", "_watch", "watch", "watch_values"}
DEPS_CALLS = {"_update_deps", "_post_setter"}
EFFECT_CALLS = DISPATCH_CALLS | LINK_CALLS | DEPS_CALLS


class Effect:
    __slots__ = ("kind", "what", "node")

    def __init__(self, kind, what, node):
        self.kind, self.what, self.node = kind, what, node

    def __repr__(self):
        return "<%s %s>" % (self.kind, self.what)


def store_field(facts: Facts, target, aliases) -> Optional[str]:
    """Field written by a store/del target: ``X.private.F[...]``, ``X.private.F``,
    an alias of F subscripted, or ``self.default``."""
    t = target
    if isinstance(t, ast.Name):
        return None
    if isinstance(t, ast.Subscript):
        fld = facts.field_of(t.value, aliases)
        if fld:
            return fld
        return None
    if isinstance(t, ast.Attribute):
        fld = facts.field_of(t, aliases)
        if fld:
            return fld
        if t.attr == "default" and isinstance(t.value, ast.Name) and t.value.id == "self":
            return "self.default"
    return None


# wide mode (R02.a): every slot of the instance-private state counts, except
WIDE_EXCLUDED = {
    "private.params": "lazy creation of the per-instance Parameter copy on first access is not a change of state the property talks about",
}


def _is_effect_field(fld, wide):
    if fld in EFFECT_FIELDS:
        return True
    return bool(wide and fld and fld.startswith("private.") and fld not in WIDE_EXCLUDED)


def primitive_effects(facts: Facts, f: Func, node, aliases=None, wide=False) -> List[Effect]:
    """Effects performed directly by the statement/expression at ``node``
    (a CFG Node or an AST statement)."""
    if aliases is None:
        aliases = facts.local_aliases(f)
    out: List[Effect] = []
    for t in stores_in(node):
        fld = store_field(facts, t, aliases)
        if _is_effect_field(fld, wide) or fld == "self.default":
            a = node.ast if isinstance(node, Node) else node
            kind = "delete" if isinstance(a, ast.Delete) else "store"
            out.append(Effect(kind, fld, node))
    for c in calls_in(node):
        if isinstance(c.func, ast.Attribute):
            if c.func.attr in EFFECT_CALLS:
                out.append(Effect("call", c.func.attr, node))
            elif c.func.attr in ("pop", "clear", "update", "append", "remove", "setdefault", "extend", "insert", "popitem"):
                fld = facts.field_of(c.func.value, aliases)
                if _is_effect_field(fld, wide):
                    out.append(Effect("mutate", "%s.%s" % (fld, c.func.attr), node))
        elif isinstance(c.func, ast.Name) and c.func.id == "setattr":
            out.append(Effect("call", "setattr", node))
    return out


class EffectSummaries:
    """Does a repo function (transitively, through resolved calls, to a stated
    depth) perform one of the effects?  Used so that moving an effect into a
    helper (``_relink``) keeps the rule exact."""

    def __init__(self, facts: Facts, depth: int = 3, wide: bool = False):
        self.facts = facts
        self.depth = depth
        self.wide = wide
        self._memo: Dict[Tuple[str, int], List[str]] = {}

    def effects_of(self, f: Func, depth: Optional[int] = None) -> List[str]:
        depth = self.depth if depth is None else depth
        key = (f.qualname, depth)
        if key in self._memo:
            return self._memo[key]
        self._memo[key] = []  # cycle guard
        out: List[str] = []
        aliases = self.facts.local_aliases(f)
        for st in walk_stmts(f.node):
            for part in own_exprs(st):
                for e in primitive_effects(self.facts, f, part, aliases, self.wide):
                    out.append("%s %s" % (e.kind, e.what))
                if depth > 0:
                    for c in (x for x in walk_no_nested(part) if isinstance(x, ast.Call)):
                        for t in self.facts.resolve_call(c, f) or []:
                            if t is f or self._constructs_fresh_object(c, t):
                                continue
                            sub = self.effects_of(t, depth - 1)
                            if sub:
                                out.append("via %s: %s" % (t.qualname.split(".")[-1], sub[0]))
        self._memo[key] = out
        return out

    @staticmethod
    def _constructs_fresh_object(call: ast.Call, target: Func) -> bool:
        """``ClassName(...)`` resolves to ``__init__``: what a constructor does
        to the object it is building is not an effect on existing state."""
        if target.name != "__init__":
            return False
        fn = call.func
        return not (isinstance(fn, ast.Attribute) and fn.attr == "__init__")

    def call_effects(self, call: ast.Call, f: Func) -> List[str]:
        out = []
        for t in self.facts.resolve_call(call, f) or []:
            if self._constructs_fresh_object(call, t):
                continue
            sub = self.effects_of(t)
            if sub:
                out.append("%s -> %s" % (t.qualname.split(".")[-1], sub[0]))
        return out


def own_exprs(st):
    """The parts of a statement evaluated at its own level (headers of
    compound statements, the whole of a simple statement)."""
    if isinstance(st, (ast.If, ast.While)):
        return [st.test]
    if isinstance(st, (ast.For, ast.AsyncFor)):
        return [st.iter]
    if isinstance(st, (ast.With, ast.AsyncWith)):
        return [i.context_expr for i in st.items]
    if isinstance(st, ast.Try):
        return []
    if isinstance(st, (ast.FunctionDef, ast.AsyncFunctionDef, ast.ClassDef)):
        return []
    return [st]


def walk_stmts(fnode):
    """All statements of a function body, not descending into nested defs."""
    stack = list(reversed(fnode.body))
    while stack:
        s = stack.pop()
        yield s
        if isinstance(s, (ast.FunctionDef, ast.AsyncFunctionDef, ast.ClassDef)):
            continue
        for fld in ("body", "orelse", "finalbody"):
            stack.extend(reversed(getattr(s, fld, []) or []))
        for h in getattr(s, "handlers", []) or []:
            stack.extend(reversed(h.body))
