#!/venv/bin/python
"""Driver: /venv/bin/python /verif/bin/check.py <Cnn> [--tier quick|thorough] [--replay FILE]

exit 0  every obligation discharged (KNOWN-FINDING lines possible)
exit 1  VIOLATION property=<id> replay=<path>   (an unlisted violation)
exit 2  ANALYSIS-ERROR ...                      (the checker cannot decide)
"""
import importlib
import json
import os
import sys
import time
import traceback

VERIF = os.path.dirname(os.path.dirname(os.path.abspath(__file__)))
sys.path.insert(0, VERIF)

from engine.loader import AnalysisError, Repo  # noqa: E402
from engine.report import Ctx, Known, write_evidence, write_replay  # noqa: E402


def run_check(prop, root=None, tier="quick", seed=0):
    """Run the rules of one property on the tree at ``root``; returns the Ctx."""
    mod = importlib.import_module("checks.%s" % prop.lower())
    repo = Repo(root)
    ctx = Ctx(prop, repo, tier, seed)
    try:
        mod.run(ctx)
    except AnalysisError as e:
        # keep what was established before the checker had to give up: an
        # unlisted violation found so far is still a violation (exit 1)
        if not ctx.violations:
            raise
        ctx.partial = str(e)
    return ctx


def main(argv):
    if len(argv) < 2:
        print(__doc__)
        return 2
    prop = argv[1].upper()
    tier = os.environ.get("VERIF_TIER", "quick")
    replay = None
    i = 2
    while i < len(argv):
        if argv[i] == "--tier":
            tier = argv[i + 1]
            i += 2
        elif argv[i] == "--replay":
            replay = argv[i + 1]
            i += 2
        else:
            print("unknown argument", argv[i])
            return 2
    try:
        seed = int(os.environ.get("VERIF_SEED", "0"))
    except ValueError:
        seed = 0
    t0 = time.time()
    try:
        ctx = run_check(prop, None, tier, seed)
        known = Known()
        if replay:
            want = json.load(open(replay))["finding"]
            hits = [o for o in ctx.obligations if o.rule == want["rule"] and (o.key == want.get("key") or o.instance == want.get("instance"))]
            print("REPLAY property=%s rule=%s: %s" % (prop, want["rule"], ctx.rules.get(want["rule"], "")))
            if not hits:
                print("  the construct named in the replay file is no longer reported on the current tree")
                return 0
            for o in hits:
                print(json.dumps(o.as_dict(), indent=1))
            return 1 if any(o.verdict == "violation" for o in hits) else 0
        selftest = None
        if tier == "thorough":
            from selftest.runner import run_selftest
            selftest = run_selftest(prop, ctx.repo.root, seed)
            if selftest["failed"]:
                raise AnalysisError("self-validation failed on the current tree: %s" % "; ".join(selftest["failed"][:5]))
        unlisted, known_hits = [], []
        for o in ctx.violations:
            what = known.match(prop, o)
            if what is not None:
                known_hits.append({"rule": o.rule, "key": o.key, "what": what})
                print("KNOWN-FINDING: property=%s %s [%s at %s]" % (prop, what, o.rule, o.where))
            else:
                unlisted.append(o)
        write_evidence(ctx, time.time() - t0, len(unlisted), known_hits, selftest)
        print("%s: %d rule instance(s) over %d rule(s), %d abstract case(s), %d violation(s) (%d known), tier=%s, %.2fs" % (
            prop, sum(ctx.count(r) for r in ctx.rules), len(ctx.rules), ctx.abstract_cases,
            len(ctx.violations), len(known_hits), tier, time.time() - t0))
        if getattr(ctx, "partial", None):
            print("ANALYSIS-ERROR (partial) property=%s %s" % (prop, ctx.partial))
            if not unlisted:
                return 2
        if unlisted:
            for n, o in enumerate(unlisted):
                p = write_replay(ctx, o, n)
                print("  %s %s in %s: %s" % (o.rule, o.where, o.func, o.detail))
                print("    construct: %s" % o.instance)
                for w in o.witness[-8:]:
                    print("      | %s" % w)
                print("VIOLATION property=%s replay=%s" % (prop, p))
            return 1
        # vacuity floors: only meaningful when no violation explains a missing instance
        ctx.check_floors()
        return 0
    except AnalysisError as e:
        print("ANALYSIS-ERROR property=%s %s" % (prop, e))
        return 2
    except Exception:  # a traceback must never look like exit 1
        traceback.print_exc()
        print("ANALYSIS-ERROR property=%s internal error in the checker" % prop)
        return 2


if __name__ == "__main__":
    sys.exit(main(sys.argv))
