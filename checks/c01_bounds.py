"""R01.f -- bound comparisons are exact on the whole ordering domain.

The validators touch the candidate value only through comparisons with the
declared bounds, so evaluating them on the finite set of ordering classes
(below / at-min / inside / at-max / above / unordered) x bound presence x
inclusivity is exhaustive for all values.  The oracle below is written from the
property statement, independently of the code.
"""
from __future__ import annotations

import itertools

from engine.absint import CLASSES, HI, LO, Interp, Obj, Sized, Unsupported, Val
from engine.loader import AnalysisError

BOUNDS_CFGS = [None, (None, None), (LO, None), (None, HI), (LO, HI)]
INCL = list(itertools.product([True, False], repeat=2))

NUMBER_FAMILY = ["param.parameters.Number", "param.parameters.Integer", "param.parameters.Magnitude",
                 "param.parameters.Date", "param.parameters.CalendarDate"]
RANGE_FAMILY = ["param.parameters.Range", "param.parameters.DateRange", "param.parameters.CalendarDateRange"]
LIST_FAMILY = ["param.parameters.List", "param.parameters.HookList"]
# dates are totally ordered: no unordered class
TOTALLY_ORDERED = {"param.parameters.Date", "param.parameters.CalendarDate", "param.parameters.DateRange",
                   "param.parameters.CalendarDateRange"}


def side_ok(v: Val, bound, inclusive: bool, lower: bool) -> bool:
    """Does v satisfy one present bound?  (the property: a boundary value is
    accepted exactly when that side is inclusive; NaN is never inside)."""
    if v.cls == "U":
        return False
    if lower:
        return v.pos >= bound.pos if inclusive else v.pos > bound.pos
    return v.pos <= bound.pos if inclusive else v.pos < bound.pos


def oracle_accepts(bounds, incl, vals) -> bool:
    if bounds is None:
        return True
    lo, hi = bounds
    for v in vals:
        if lo is not None and not side_ok(v, lo, incl[0], True):
            return False
        if hi is not None and not side_ok(v, hi, incl[1], False):
            return False
    return True


def bstr(b):
    return "None" if b is None else "(%s, %s)" % (b[0], b[1])


def run_family(ctx, q, kind, rule="R01.f"):
    hier = ctx.hier
    f = hier.resolve(q, "_validate")
    vb = hier.resolve(q, "_validate_bounds")
    if f is None or vb is None:
        raise AnalysisError("%s has no _validate/_validate_bounds" % q)
    classes = [0, 1, 2, 3, 4] + ([] if (q in TOTALLY_ORDERED or kind == "list") else ["U"])
    mismatches = []
    n = 0
    incls = INCL if kind != "list" else [(True, True)]
    for bounds in BOUNDS_CFGS:
        for incl in incls:
            for allow_none in (True, False):
                if kind == "number":
                    cands = [("cls", (Val(c),)) for c in classes] + ([("none", None)] if allow_none else [])
                elif kind == "range":
                    cands = [("cls", (Val(a), Val(b))) for a in classes for b in classes] + ([("none", None)] if allow_none else [])
                else:
                    cands = [("cls", (Val(c),)) for c in classes] + ([("none", None)] if allow_none else [])
                for tag, vals in cands:
                    self_obj = Obj(q.rsplit(".", 1)[-1], allow_None=allow_none, bounds=bounds, inclusive_bounds=incl,
                                   softbounds=None, step=None, length=2, item_type=None, is_instance=True, class_=None)
                    if tag == "none":
                        arg = None
                        expect = True
                    elif kind == "number":
                        arg = vals[0]
                        expect = oracle_accepts(bounds, incl, vals)
                    elif kind == "range":
                        arg = tuple(vals)
                        expect = oracle_accepts(bounds, incl, vals)
                    else:
                        arg = Sized(vals[0].cls)
                        expect = oracle_accepts(bounds, (True, True), vals)
                    it = Interp(hier, dyn=q, inline=lambda m: m == "_validate_bounds", self_obj=self_obj)
                    try:
                        outs = it.run_all(f, {f.params[0]: self_obj, f.params[1]: arg})
                    except Unsupported as e:
                        raise AnalysisError("absint cannot interpret %s (reached from %s._validate): %s -- the validator was "
                                            "rewritten outside the supported subset; R01.f cannot decide" % (vb.qualname, q, e))
                    n += 1
                    for o in outs:
                        if o.imprecise:
                            raise AnalysisError("absint outcome imprecise for %s on bounds=%s incl=%s val=%s: %s" % (
                                vb.qualname, bstr(bounds), incl, arg, "; ".join(o.notes[:3])))
                    accepted = all(o.kind == "return" for o in outs)
                    if accepted != expect:
                        mismatches.append((bounds, incl, allow_none, arg, expect, outs[0]))
    ctx.abstract_cases += n
    name = q.rsplit(".", 1)[-1]
    if not mismatches:
        ctx.ok(rule, vb, vb.node, "%s: %d abstract cases (bounds x inclusivity x allow_None x ordering class%s), validator == oracle on all" % (
            name, n, "" if kind != "range" else " pairs"))
        return
    # one finding per (resolved validator, kind of disagreement)
    seen = set()
    for bounds, incl, allow_none, arg, expect, out in mismatches:
        vals = arg if isinstance(arg, tuple) else (arg,)
        vv = [v.length if isinstance(v, Sized) else v for v in vals if v is not None]
        if not expect:   # which element class does the specification exclude?
            off = [v for v in vv if not oracle_accepts(bounds, incl if kind != "list" else (True, True), [v])]
        else:
            off = vv
        cls = CLASSES[off[0].cls] if off else "None"
        kindtxt = "accepts a value the declared bounds exclude" if not expect else "rejects a value the declared bounds allow"
        key = "%s::%s::%s" % (vb.qualname, cls, "accept" if not expect else "reject")
        if key in seen:
            continue
        seen.add(key)
        ctx.fail(rule, vb, vb.node,
                 "%s (dynamic type %s): %s: value class %s with bounds=%s inclusive_bounds=%s allow_None=%s -> validator %s, "
                 "specification %s (%d disagreeing abstract cases of this kind)" % (
                     vb.qualname.rsplit(".", 2)[-2] + "." + vb.name, name, kindtxt, cls, bstr(bounds), incl, allow_none,
                     "accepts" if not expect else "rejects", "rejects" if not expect else "accepts",
                     sum(1 for m in mismatches if m[4] == expect)),
                 key=key,
                 input="param.%s(bounds=%s, inclusive_bounds=%s) <- value in class %s" % (name, bstr(bounds), incl, cls))


def rule_f(ctx, rule="R01.f"):
    for q in NUMBER_FAMILY:
        ctx.repo.cls(q)
        run_family(ctx, q, "number", rule)
    for q in RANGE_FAMILY:
        ctx.repo.cls(q)
        run_family(ctx, q, "range", rule)
    for q in LIST_FAMILY:
        ctx.repo.cls(q)
        run_family(ctx, q, "list", rule)
    ctx.exhaustive = True
    ctx.assumptions.append("R01.f: declared bounds are well typed and LO < HI; `_to_datetime` is order preserving; "
                           "validators not named _validate_bounds are treated as passing (only the bounds clause is decided); callable(value) is False")
