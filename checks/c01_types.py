"""R01.h -- None / type-predicate exactness of the validators.

For every built-in type in the table the complete validator (``_validate`` with
all ``_validate_*`` helpers inlined) is interpreted abstractly on
allow_None x {None, a well-typed value, an ill-typed value}, with the library
type predicates (isinstance, _is_number, callable) as abstract boolean inputs
and every other constraint switched off (bounds None, regex None, ...).
Specification (from the property): None is accepted iff allow_None; any other
value is accepted iff it has the declared value type.
"""
from __future__ import annotations

import ast
import itertools

from engine.absint import HI, LO, TOP, Interp, Obj, Unsupported, _Raise
from engine.loader import AnalysisError, norm

# type -> how the validator recognises a well-typed value
TABLE = {
    "param.parameterized.String": "isinstance",
    "param.parameters.Bytes": "isinstance",
    "param.parameters.Boolean": "isinstance",
    "param.parameters.Number": "_is_number",
    "param.parameters.Integer": "isinstance",
    "param.parameters.Magnitude": "_is_number",
    "param.parameters.Date": "isinstance",
    "param.parameters.CalendarDate": "isinstance",
    "param.parameters.Tuple": "isinstance",
    "param.parameters.List": "isinstance",
    "param.parameters.HookList": "isinstance",
    "param.parameters.Callable": "callable",
    "param.parameters.Action": "callable",
    "param.parameters.Color": "isinstance",
    "param.parameters.ClassSelector": "isinstance",
    "param.parameters.Dict": "isinstance",
}


# numeric Dynamic parameters accept a callable as a dynamic value generator (by design);
# every other type treats a callable like any other ill-typed value
DYNAMIC_NUMERIC = {"param.parameters.Number", "param.parameters.Integer", "param.parameters.Magnitude"}


def run_type(ctx, q, rule="R01.h"):
    hier = ctx.hier
    f = hier.resolve(q, "_validate")
    name = q.rsplit(".", 1)[-1]
    n = 0
    bad = []
    accepts_callables = TABLE[q] == "callable" or q in DYNAMIC_NUMERIC
    kinds = ["none", "ok", "falsy", "bad", "callable"]
    if q == "param.parameters.CalendarDate":
        kinds.append("datetime")       # a datetime is a date by subclassing, but not a calendar date: rejected like any ill-typed value
    has_length = hier.resolve(q, "_validate_length") is not None
    if has_length:
        kinds += ["wronglen", "empty-wronglen"]      # a tuple of the right type but not of the declared length (a non-empty one, and ())
    for allow_none, kind0 in itertools.product([True, False], kinds):
        # "falsy": a well-typed value whose truth value is False ('' / 0 / () / [] / {}): typed like any other
        kind = "ok" if kind0 in ("falsy", "wronglen", "empty-wronglen") else kind0
        val = None if kind == "none" else Obj("value_" + kind0, __iter__=[] if kind0 == "falsy" else [Obj("element")])
        if kind0 in ("falsy", "empty-wronglen"):
            val.attrs["__bool__"] = False
        self_obj = Obj(name, allow_None=allow_none, bounds=None, inclusive_bounds=(True, True), softbounds=None, step=None,
                       regex=None, length=LO, item_type=None, is_instance=True, class_=Obj("declared_class"), allow_named=True,
                       _named_colors=[], check_on_set=True)

        def hook(fn, args, kwargs, val=val, kind=kind, kind0=kind0):
            subject = args[0] if args else None
            if fn == "len" and subject is val and kind0 in ("wronglen", "empty-wronglen"):
                return HI
            if fn == "callable" and (subject is val or subject is None):
                return kind == "callable" or (kind == "ok" and TABLE[q] == "callable")
            if fn == "isinstance" and kind == "datetime" and subject is val and len(args) == 2:
                if args[1] == "<datetime>":
                    return True
                if args[1] == "<date>":
                    return True
                raise Unsupported("isinstance(value, %r) for a datetime value" % (args[1],))
            if fn == "isinstance" and q == "param.parameters.CalendarDate" and subject is val and len(args) == 2 and args[1] == "<datetime>":
                return False        # a well-typed / ill-typed non-datetime value
            if fn in ("isinstance", "_is_number", "callable", "issubclass"):
                if subject is val or subject is None:
                    return kind == "ok"
                return True    # elements / helper objects of a well-formed value
            if fn == "len" and subject is val:
                return LO
            if fn in ("re.match",):
                return Obj("match")
            if fn == "inspect.isgeneratorfunction":
                return False
            if fn.endswith(".lower"):
                return "name"
            return NotImplemented
        it = Interp(hier, dyn=q, inline=lambda m: m.startswith("_validate"), call_hook=hook,
                    globals={"dt": Obj("datetime_module", date="<date>", datetime="<datetime>")} if q == "param.parameters.CalendarDate" else None)
        try:
            outs = it.run_all(f, {f.params[0]: self_obj, f.params[1]: val})
        except Unsupported as e:
            raise AnalysisError("absint cannot interpret the validators of %s: %s -- R01.h cannot decide" % (name, e))
        n += 1
        want = allow_none if kind == "none" else (accepts_callables if kind == "callable" else kind == "ok")
        if kind == "datetime" or kind0 in ("wronglen", "empty-wronglen"):
            want = False
        for o in outs:
            if o.imprecise:
                raise AnalysisError("absint imprecise on the validators of %s (allow_None=%s, value %s): %s" % (name, allow_none, kind, o.notes[:2]))
            got = o.kind == "return"
            if got != want:
                bad.append((allow_none, kind0, got))
    ctx.abstract_cases += n
    if bad:
        an, kind, got = bad[0]
        what = {"none": "None", "ok": "a value of the declared type", "falsy": "an empty/zero (falsy) value of the declared type", "bad": "a value of a different type",
                "callable": "a callable that is not of the declared type",
                "datetime": "a datetime (a date by subclassing, but not a calendar date)",
                "wronglen": "a tuple that is not of the declared length", "empty-wronglen": "the empty tuple (not of the declared length)"}[kind]
        ctx.fail(rule, f, f.node, "%s with allow_None=%s %s %s (specification: %s)" % (
            name, an, "accepts" if got else "rejects", what, "reject" if got else "accept"),
            key="%s::type-none-table::%s::%s" % (q, kind, "accept" if got else "reject"),
            input="param.%s(allow_None=%s) <- %s" % (name, an, what))
    else:
        ctx.ok(rule, f, f.node, "%s: %d/%d abstract cases agree (None iff allow_None; otherwise iff well typed)" % (name, n, n))


def class_selector_model(ctx, rule="R01.h"):
    """ClassSelector(class_=T, is_instance=False): the value must be a CLASS that is a subclass of T.  Kinds of value: None, a
    subclass of T, an unrelated class, an INSTANCE of T (not a class: `issubclass` raises TypeError on it -- rejected either
    way), an instance of something else."""
    from engine.absint import _Raise
    hier = ctx.hier
    q = "param.parameters.ClassSelector"
    f = hier.resolve(q, "_validate")
    n, bad = 0, []
    for allow_none, kind in itertools.product([True, False], ["none", "subclass", "otherclass", "instance-of-T", "other-instance"]):
        declared = Obj("declared_class", __name__="T")
        val = None if kind == "none" else Obj("value_" + kind)
        me = Obj("ClassSelector", allow_None=allow_none, is_instance=False, class_=declared, check_on_set=True, name="p", owner=None)

        def hook(fn, args, kwargs, val=val, kind=kind, declared=declared):
            subject = args[0] if args else None
            if fn == "isinstance" and subject is declared:
                return False            # T is one class, not a tuple of classes
            if fn == "isinstance" and subject is val and len(args) == 2:
                if args[1] == "<type type>":
                    return kind in ("subclass", "otherclass")
                if args[1] is declared:
                    return kind == "instance-of-T"
                raise Unsupported("isinstance(value, %r)" % (args[1],))
            if fn == "isinstance" and subject is None and len(args) == 2:
                return False
            if fn == "issubclass" and len(args) == 2 and args[1] is declared:
                if subject is None or kind in ("instance-of-T", "other-instance"):
                    raise _Raise("TypeError")      # issubclass() arg 1 must be a class
                return kind == "subclass"
            if fn == "_validate_error_prefix":
                return "prefix"
            return NotImplemented
        it = Interp(hier, dyn=q, inline=lambda m: m.startswith("_validate"), call_hook=hook)
        try:
            outs = it.run_all(f, {f.params[0]: me, f.params[1]: val})
        except Unsupported as e:
            raise AnalysisError("absint cannot interpret the validators of ClassSelector(is_instance=False): %s -- %s cannot decide" % (e, rule))
        n += 1
        want = allow_none if kind == "none" else kind == "subclass"
        for o in outs:
            if o.imprecise:
                raise AnalysisError("absint imprecise on the validators of ClassSelector(is_instance=False, allow_None=%s, value %s): %s" % (allow_none, kind, o.notes[:2]))
            if (o.kind == "return") != want:
                bad.append((allow_none, kind, o.kind == "return"))
    ctx.abstract_cases += n
    if bad:
        an, kind, got = bad[0]
        what = {"none": "None", "subclass": "a subclass of T", "otherclass": "a class that is not a subclass of T", "instance-of-T": "an INSTANCE of T (not a class)",
                "other-instance": "an instance of an unrelated class"}[kind]
        ctx.fail(rule, f, f.node, "ClassSelector(class_=T, is_instance=False, allow_None=%s) %s %s (specification: %s)" % (an, "accepts" if got else "rejects", what, "reject" if got else "accept"),
                 key="%s::is-instance-false-table::%s::%s" % (q, kind, "accept" if got else "reject"), input="param.ClassSelector(class_=T, is_instance=False, allow_None=%s) <- %s" % (an, what))
    else:
        ctx.ok(rule, f, f.node, "ClassSelector(is_instance=False): %d/%d abstract cases agree (None iff allow_None; otherwise iff a class that is a subclass of T)" % (n, n))


REGEX_TYPES = ("param.parameterized.String", "param.parameters.Bytes")


def rule_regex(ctx):
    """R01.j: with a regex set, a well-typed value is accepted iff the regex matches it; None iff allow_None."""
    hier = ctx.hier
    for q in REGEX_TYPES:
        f = hier.resolve(q, "_validate")
        name = q.rsplit(".", 1)[-1]
        n, bad = 0, []
        for allow_none, has_regex, kind in itertools.product([True, False], [True, False], ["none", "match", "nomatch", "empty-match", "empty-nomatch"]):
            val = None if kind == "none" else Obj("value_" + kind)
            if kind.startswith("empty"):
                val.attrs["__bool__"] = False
            rx = Obj("regex") if has_regex else None
            self_obj = Obj(name, allow_None=allow_none, regex=rx)
            seen_match = []

            def hook(fn, args, kwargs, val=val, kind=kind, rx=rx, seen_match=seen_match):
                if fn == "isinstance":
                    return args[0] is not None
                if fn in ("re.match", "re.fullmatch", "re.search") or fn.endswith(".match"):
                    if rx is None or val is None:
                        raise Unsupported("regex matching attempted with regex=%r value=%r" % (rx, val))
                    seen_match.append(1)
                    return Obj("match") if kind.endswith("-match") or kind == "match" else None
                return NotImplemented
            it = Interp(hier, dyn=q, inline=lambda m: m.startswith("_validate"), call_hook=hook)
            try:
                outs = it.run_all(f, {f.params[0]: self_obj, f.params[1]: val})
            except Unsupported as e:
                raise AnalysisError("absint cannot interpret the validators of %s: %s -- R01.j cannot decide" % (name, e))
            n += 1
            want = allow_none if kind == "none" else (not has_regex or kind in ("match", "empty-match"))
            for o in outs:
                if o.imprecise:
                    raise AnalysisError("absint imprecise on the validators of %s (R01.j): %s" % (name, o.notes[:2]))
                if (o.kind == "return") != want:
                    bad.append((allow_none, has_regex, kind, o.kind == "return"))
        ctx.abstract_cases += n
        if bad:
            an, hr, kind, got = bad[0]
            what = {"none": "None", "match": "a string the regex matches", "nomatch": "a string the regex does not match",
                    "empty-match": "an empty string that the regex matches", "empty-nomatch": "an empty string that the regex does not match"}[kind]
            ctx.fail("R01.j", f, f.node, "%s(allow_None=%s, regex %s) %s %s (specification: %s)" % (
                name, an, "set" if hr else "None", "accepts" if got else "rejects", what, "reject" if got else "accept"),
                key="%s::regex-table::%s::%s" % (q, kind, "accept" if got else "reject"),
                input="param.%s(regex=..., allow_None=%s) <- %s" % (name, an, what))
        else:
            ctx.ok("R01.j", f, f.node, "%s: %d/%d abstract cases agree (regex x allow_None x None/matching/non-matching/empty)" % (name, n, n))


def rule_h(ctx):
    for q in TABLE:
        ctx.repo.cls(q)
        run_type(ctx, q)
    class_selector_model(ctx)
    numeric_tuple_items(ctx)
    ctx.assumptions.append("R01.h: isinstance/_is_number/callable are abstract boolean inputs (their library semantics are trusted); other constraints are switched off")


def list_item_model(ctx, rule):
    """List._validate_item_type interpreted abstractly: item_type given, is_instance True / False, lists of one to three items
    in which the ill-typed item (an instance of another class / a class that is not a subclass / an instance where a
    class is wanted) sits at every position.  Specification: accepted iff every item is well typed -- each item is
    checked, whatever came before it (with is_instance=False all items are classes and share one `type`)."""
    q = "param.parameters.List"
    f = ctx.hier.resolve(q, "_validate_item_type")
    problems, n = [], 0
    for is_instance in (True, False):
        shapes = [["ok"], ["bad"], ["ok", "bad"], ["bad", "ok"], ["ok", "ok"], ["ok", "ok", "bad"], ["ok", "bad", "ok"]]
        if not is_instance:
            shapes += [["ok", "notaclass"], ["notaclass"]]
        for shape in shapes:
            TYPE = "<type type>"
            items = []
            for i, k in enumerate(shape):
                o = Obj("item%d_%s" % (i, k), __kindtag__=k)
                items.append(o)
            item_type = Obj("declared_item_type")
            me = Obj("List", allow_None=False, name="l", owner=None)

            def hook(fn, args, kwargs):
                subject = args[0] if args else None
                if fn == "isinstance" and len(args) == 2 and args[1] is item_type:
                    return subject.attrs["__kindtag__"] == "ok"
                if fn == "issubclass" and len(args) == 2 and args[1] is item_type:
                    if subject.attrs["__kindtag__"] == "notaclass":
                        raise _Raise("TypeError")
                    return subject.attrs["__kindtag__"] == "ok"
                if fn == "type" and len(args) == 1 and isinstance(subject, Obj):
                    if is_instance:
                        return Obj("class_of_%s" % subject.attrs["__kindtag__"], __eqclass__="cls:" + subject.attrs["__kindtag__"])
                    return "<type type>" if subject.attrs["__kindtag__"] != "notaclass" else Obj("some_class")
                if fn == "_validate_error_prefix":
                    return "List parameter"
                if fn in ("repr", "str", "obj_display"):
                    return "x"
                return NotImplemented
            it = Interp(ctx.hier, dyn=q, inline=lambda m: False, call_hook=hook, globals={"type": "<type type>"})
            try:
                outs = it.run_all(f, {f.params[0]: me, f.params[1]: list(items), f.params[2]: item_type, f.params[3]: is_instance})
            except Unsupported as e:
                raise AnalysisError("absint cannot interpret List._validate_item_type: %s -- %s cannot decide" % (e, rule))
            if len(outs) != 1 or outs[0].imprecise:
                raise AnalysisError("absint imprecise on List._validate_item_type (%s) -- %s cannot decide" % (outs[0].notes[:2] if outs else "no outcome", rule))
            n += 1
            want = all(k == "ok" for k in shape)
            got = outs[0].kind == "return"
            if got != want:
                problems.append("List(item_type=T, is_instance=%s) %s the list [%s]" % (is_instance, "accepts" if got else "rejects", ", ".join(
                    {"ok": "a well-typed item", "bad": "an item of another type" if is_instance else "a class that is not a subclass of T", "notaclass": "an instance (not a class)"}[k] for k in shape)))
    ctx.abstract_cases += n
    if problems:
        ctx.fail(rule, f, f.node, "list-item model: %s (%d disagreeing case(s))" % (problems[0], len(problems)), key=f.qualname + "::list-item-model")
    else:
        ctx.ok(rule, f, f.node, "list-item model, %d abstract cases: a list is accepted iff every item has the declared type (instances / subclasses), whatever its position" % n)


def rule_color_pattern(ctx, rule="R01.r"):
    """Color: the hex test is a regular expression; its LANGUAGE is computed from the parse tree of the literal pattern
    (re._parser.parse -- nothing is matched) over the abstract alphabet {'#', hex digit, anything else} and compared with
    the declared value set: an optional '#' followed by exactly 3 or exactly 6 hex digits, anchored at both ends."""
    import re as _re
    from engine.regexlang import language, Unsupported as RxUnsupported
    f = ctx.repo.func("param.parameters.Color._validate_allow_named")
    HEX = frozenset("0123456789abcdefABCDEF")

    def classify(chars):
        return "H" if chars == HEX else "#" if chars == frozenset("#") else "other(%s)" % "".join(sorted(chars))[:12]
    sites = []
    for c in ast.walk(f.node):
        if isinstance(c, ast.Call) and norm(c.func) in ("re.match", "re.fullmatch", "re.search", "re.compile") and c.args:
            sites.append(c)
    if not sites:
        raise AnalysisError("%s: the hex test of Color._validate_allow_named is no longer a call of re.match / re.fullmatch / re.search / re.compile -- cannot decide" % rule)
    want = {tuple(p) + ("H",) * n for p in ((), ("#",)) for n in (3, 6)}
    for c in sites:
        pat = c.args[0]
        if not (isinstance(pat, ast.Constant) and isinstance(pat.value, str)):
            raise AnalysisError("%s: the pattern of Color's hex test is not a string literal -- cannot decide" % rule)
        flags = 0
        for extra in list(c.args[2:]) + [k.value for k in c.keywords if k.arg == "flags"]:
            if norm(extra) in ("re.I", "re.IGNORECASE"):
                flags |= _re.IGNORECASE
            else:
                raise AnalysisError("%s: flags `%s` of Color's hex test are not modelled -- cannot decide" % (rule, norm(extra)))
        try:
            words, a_start, a_end = language(pat.value, classify, flags)
        except RxUnsupported as e:
            raise AnalysisError("%s: the pattern %r of Color's hex test is outside the bounded regex fragment (%s) -- cannot decide" % (rule, pat.value, e))
        kind = norm(c.func)
        start_ok = a_start or kind in ("re.match", "re.fullmatch")
        end_ok = a_end or kind == "re.fullmatch"
        if kind == "re.compile":
            raise AnalysisError("%s: Color's hex pattern is compiled separately from its use -- cannot decide" % rule)
        ctx.abstract_cases += len(words)
        extra, missing = sorted(words - want, key=len), sorted(want - words, key=len)

        def show(w):
            return "".join("#" if x == "#" else "h" if x == "H" else "<%s>" % x for x in w)
        if extra or missing or not start_ok or not end_ok:
            what = []
            if extra:
                what.append("accepts %s (h = one hex digit)" % ", ".join(repr(show(w)) for w in extra[:4]))
            if missing:
                what.append("rejects %s" % ", ".join(repr(show(w)) for w in missing[:4]))
            if not start_ok or not end_ok:
                what.append("is not anchored at the %s" % ("start" if not start_ok else "end"))
            ctx.fail(rule, f, c, "Color: the hex pattern %r %s; the declared value set is an optional '#' followed by exactly 3 or exactly 6 hex digits" % (pat.value, "; ".join(what)),
                     key="param.parameters.Color::hex-language", input="param.Color() <- '#ffff'")
        else:
            ctx.ok(rule, f, c, "Color: the language of %r is exactly {#?hhh, #?hhhhhh} over hex digits, anchored at both ends" % pat.value)


def numeric_tuple_items(ctx, rule="R01.h"):
    """NumericTuple._validate_value (inherited by XYCoordinates and Range) interpreted on tuples of one to three items with
    a non-numeric item -- or None -- at every position, allow_None on and off.

    Specification: accepted iff every item is a number; allow_None admits the WHOLE value being None, never a None item."""
    q = "param.parameters.NumericTuple"
    f = ctx.hier.resolve(q, "_validate_value")
    n, bad = 0, []
    for allow_none in (True, False):
        for shape in [s for r in (1, 2, 3) for s in itertools.product(["num", "none", "other"], repeat=r)]:
            items = tuple(None if k == "none" else Obj("item_%s_%d" % (k, i), __number__=(k == "num")) for i, k in enumerate(shape))
            me = Obj("NumericTuple", allow_None=allow_none, name="t", owner=None)

            def hook(fn, args, kwargs):
                if fn == "_is_number" and len(args) == 1:
                    return isinstance(args[0], Obj) and bool(args[0].attrs.get("__number__"))
                if fn == "isinstance" and len(args) == 2 and args[0] is items:
                    return True          # the value is a tuple
                if fn == "_validate_error_prefix":
                    return "prefix"
                return NotImplemented
            it = Interp(ctx.hier, dyn=q, inline=lambda m: m.startswith("_validate"), call_hook=hook)
            try:
                outs = it.run_all(f, {f.params[0]: me, f.params[1]: items, f.params[2]: allow_none})
            except Unsupported as e:
                raise AnalysisError("absint cannot interpret NumericTuple._validate_value: %s -- %s cannot decide" % (e, rule))
            if len(outs) != 1 or outs[0].imprecise:
                raise AnalysisError("absint imprecise on NumericTuple._validate_value (%s): %s" % (shape, outs[0].notes[:2] if outs else "no outcome"))
            n += 1
            want = all(k == "num" for k in shape)
            if (outs[0].kind == "return") != want:
                bad.append((allow_none, shape, outs[0].kind == "return"))
    ctx.abstract_cases += n
    if bad:
        an, shape, got = bad[0]
        ctx.fail(rule, f, f.node, "NumericTuple(allow_None=%s) %s the tuple (%s) (specification: %s -- allow_None admits the whole value being None, not a None item)" % (
            an, "accepts" if got else "rejects", ", ".join({"num": "a number", "none": "None", "other": "a non-number"}[k] for k in shape), "reject" if got else "accept"),
            key="%s::item-table::%s" % (q, "accept" if got else "reject"), input="param.NumericTuple(allow_None=True) <- (1, None, 3); param.Range() <- (None, 5)")
    else:
        ctx.ok(rule, f, f.node, "NumericTuple items: %d/%d abstract cases agree (every item a number; a None item is rejected whatever allow_None says)" % (n, n))
