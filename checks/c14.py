"""C14 -- constant / read-only parameters cannot be rebound (DESIGN §3/C14)."""
from __future__ import annotations

import ast

from engine.cfg import cond_holds, decompose
from engine.effects import store_field
from engine.facts import stores_in
from engine.hierarchy import PARAMETER
from engine.loader import AnalysisError, norm


def has(conds, text, truth):
    return cond_holds(conds, text, truth)


def run(ctx):
    ctx.rule("R14.x", "context-manager model: _batch_call_watchers, batch_call_watchers, discard_events, _syncing and edit_constant interpreted abstractly with the body of the `with` supplied at the `yield` (62 cases: entry state x body ends normally / raises x nesting x queues replaced in the body x Parameter copies made in the body): flag, queues, syncing set and constant flags are, after the block, what they were before; the flush runs iff outermost, after the restore, also when the body raised", floor=1)
    ctx.rule("R14.n", "the per-instance Parameter table is one dict for the life of the instance: after construction `<instance>._param__private.params` is only mutated in place, never rebound -- edit_constant (and the descriptor wrapper) hold on to that dict across their work, so Parameter copies put into a replacement dict are never re-locked", floor=3)
    ctx.rule("R14.o", "Parameterized.__getstate__, interpreted abstractly, saves every ordinary attribute and the complete per-instance value store -- entries that are still the class default object included (that entry pins a constant to the instance; a copy without it follows later class-level sets)", floor=1)
    ctx.rule("R14.v", "instance or class is decided by identity: no boolean-context use (if / and / or / not / conditional expression) of the namespace's instance (`self_.self` or a local alias) in "
                      "class Parameters, nor of `obj` in the descriptor methods of Parameter types -- an instance of a class defining __len__ / __bool__ may be falsy and is still an instance", floor=40)
    ctx.rule("R14.w", "namespace model (shared with R13.h), linear and diamond hierarchies: `.param[name]` is the Parameter that governs attribute access -- the constructor pins constants and "
                      "edit_constant unlocks through that lookup, so a lookup that finds another class's (non-constant) Parameter leaves the constant unguarded", floor=1)
    ctx.rule("R14.s", "slot-set model (shared with R03.v), with a watcher of the slot that raises: Parameter.__setattr__ keeps the value it stored -- edit_constant re-locks with "
                      "`pobj.constant = True` on its way out, and a store undone because a watcher of `constant` failed would leave the parameter unlocked after the block", floor=1)
    ctx.rule("R14.a", "in Parameter.__set__ every value store is control-dependent on the constant/readonly test; no store lies on a path where "
                      "self.readonly holds, nor where the parameter is constant and the instance is initialized; on that arm the only "
                      "non-raising continuation is the identity case", floor=5)
    ctx.rule("R14.b", "edit_constant: every constant flag cleared before the yield is set again in the finally, on the class Parameter and on the instance Parameter", floor=2)
    ctx.rule("R14.e", "inside param only the two sanctioned routes (_sync_refs, Time.__call__) unlock constants with edit_constant; no other internal route lifts the guard", floor=1)
    ctx.rule("R14.f", "no assignment route through Parameter.__set__ returns normally without having passed the constant/readonly test (incl. the early return for asynchronous references)", floor=1)
    ctx.rule("R14.g", "the class-level parameter mapping that edit_constant holds across its body is never mutated in place by cache invalidation", floor=1)
    ctx.rule("R14.h", "only edit_constant clears a constant flag: no other function of param/numbergen assigns `<parameter>.constant = False`", floor=1)
    ctx.rule("R14.i", "edit_constant restores the very Parameter objects it unlocked (by identity), not only whatever a by-name lookup finds on exit", floor=1)
    ctx.rule("R14.c", "Parameterized.name is declared constant; Parameter.__init__ sets constant whenever readonly is true", floor=2)
    ctx.rule("R14.l", "as_uninitialized (the decorator behind _setup_params, _set_name, _generate_name) leaves the `initialized` flag as it found it: its wrapper, interpreted abstractly with the flag "
                      "set / cleared on entry, restores exactly that value after the wrapped call (an object left uninitialized accepts assignments to its constants)", floor=1)
    ctx.rule("R14.m", "setter model: Parameter.__set__ interpreted abstractly on every combination (576) of route x constant/readonly x validation outcome x identity x reference mode x watchers x batching agrees with the specification of this property (see checks/setter_model.py)", floor=1)
    ctx.rule("R14.k", "constructor model: Parameters._setup_params (with _instantiate_param) interpreted abstractly on 288 combinations of keywords x reference modes (plain value / reference with a value / reference without a value yet / asynchronous reference) x an unknown keyword: own copy of every instantiate=True default and pinned constants before any keyword is applied (and still there when a keyword assigns nothing), exactly the specified assignments, every reference and only references recorded", floor=1)
    ctx.not_decided += ["histories involving per-instance Parameter copies created earlier", "as_uninitialized (deliberately not armed, see C05 exclusions)"]

    f = ctx.repo.method(PARAMETER, "__set__")
    cfg = ctx.facts.cfg(f)
    aliases = ctx.facts.local_aliases(f)
    stores = [n for n in cfg.live_nodes() for t in stores_in(n)
              if store_field(ctx.facts, t, aliases) in ("private.values", "self.default") and not isinstance(n.ast, ast.Delete)]
    ctx.require(len(stores) >= 4, "fewer than 4 value stores recognised in Parameter.__set__")
    GUARD = "self.constant or self.readonly"
    for s in stores:
        conds = cfg.conditions(s)
        guarded_t = has(conds, GUARD, True) or has(conds, "self.constant", True)
        guarded_f = has(conds, GUARD, False) or (has(conds, "self.constant", False) and has(conds, "self.readonly", False))
        if not (guarded_t or guarded_f):
            partial = has(conds, "self.constant", False) and not has(conds, "self.readonly", False)
            ctx.fail("R14.a", f, s, "the store `%s` %s" % (s.text(), (
                "is reachable when self.constant is false without self.readonly having been tested: a read-only parameter whose constant flag is "
                "temporarily cleared (edit_constant) can be assigned") if partial else
                "is not control-dependent on the constant/readonly test: it happens whatever the flags say"),
                input="readonly parameter assigned inside `with edit_constant(obj)`")
            continue
        if has(conds, "self.readonly", True):
            ctx.fail("R14.a", f, s, "the store `%s` is reachable on a path where self.readonly holds" % s.text())
            continue
        if guarded_t:
            cls_level = has(conds, "obj is None", True)
            uninit = has(conds, "obj._param__private.initialized", False)
            if cls_level or uninit:
                ctx.ok("R14.a", f, s, "store on the constant arm only %s" % ("at class level" if cls_level else "while the instance is not initialized"))
            else:
                ctx.fail("R14.a", f, s, "the store `%s` is reachable for a constant parameter on an initialized instance" % s.text(),
                         input="p = P(); p.c = other  (c constant) rebinds instead of raising")
        else:
            ctx.ok("R14.a", f, s, "store on the non-constant arm")
    raises = [n for n in cfg.live_nodes() if n.kind == "stmt" and isinstance(n.ast, ast.Raise)]
    ro = [r for r in raises if has(cfg.conditions(r), "self.readonly", True)]
    main_ro = [r for r in ro if not (has(cfg.conditions(r), "obj is None", True) or has(cfg.conditions(r), "obj is None", False))]
    if main_ro:
        ctx.ok("R14.a", f, main_ro[0], "read-only raise is unconditional on the readonly arm (instance and class level)")
    elif ro:
        ctx.fail("R14.a", f, ro[0], "the read-only raise is restricted to instance or class level only")
    else:
        ctx.fail("R14.a", f, f.node, "no raise on the self.readonly arm: a read-only parameter can be assigned", key="%s::no-readonly-raise" % f.qualname)
    cr = []
    for r in raises:
        c = cfg.conditions(r)
        if (has(c, GUARD, True) or has(c, "self.constant", True)) and has(c, "self.readonly", False) and has(c, "obj is None", False) \
                and has(c, "obj._param__private.initialized", True):
            cr.append((r, c))
    if not cr:
        ctx.fail("R14.a", f, f.node, "no raise on the constant arm for an initialized instance", key="%s::no-constant-raise" % f.qualname)
    # The decision itself -- is the refusal skipped only for the very object already held? -- is taken on path conditions
    # (enumerated valuations of the atoms constant / readonly / class route / initialised / `val is <current>`):
    # no NORMAL exit of the setter for a constant parameter of an initialised instance unless an identity atom holds.
    from engine import pathcond
    atoms = sorted({a for n in cfg.live_nodes() if n.kind == "br" and n.ast is not None for a in pathcond.atoms_in(n.ast)
                    if a.startswith("val is ") or a in ("self.constant", "self.readonly", "obj is None", "obj._param__private.initialized")})
    need = ("self.constant", "obj is None", "obj._param__private.initialized")
    if len(atoms) > 12 or any(a not in atoms for a in need):
        raise AnalysisError("R14.a: the path atoms of Parameter.__set__ are not the expected ones (%s)" % atoms)
    ident_i = [i for i, a in enumerate(atoms) if a.startswith("val is ") and a not in ("val is None", "val is Undefined")]
    state = pathcond.reaching(cfg, atoms, labels={"n", "t", "f"})
    at_exit = state.get(cfg.exit.id, set())
    ix = {a: i for i, a in enumerate(atoms)}
    loose = [v for v in at_exit if v[ix["self.constant"]] and not v[ix["obj is None"]] and v[ix["obj._param__private.initialized"]]
             and not (("self.readonly" in ix) and v[ix["self.readonly"]]) and not any(v[i] for i in ident_i)]
    decided_by_paths = True
    if loose:
        ctx.fail("R14.a", f, cr[0][0] if cr else f.node, "an assignment to a constant parameter of an initialised instance can return normally although the assigned object is not the object "
                                                         "already held (path conditions that allow it: %s)" % ", ".join("%s=%s" % (a, x) for a, x in zip(atoms, loose[0])),
                 key="%s::constant-normal-exit" % f.qualname)
    else:
        ctx.ok("R14.a", f, cr[0][0] if cr else f.node, "no normal exit for a constant parameter of an initialised instance unless the assigned object is the very object already held")
    for r, c in ([] if decided_by_paths else cr):
        # conditions established inside the constant/readonly arm only
        inner = []
        for d in cfg.dominating(r):
            if d.kind != "br":
                continue
            if norm(d.ast) in (GUARD, "self.constant"):
                break
            inner.extend(decompose(d.ast, d.polarity))
        known = ("self.readonly", "obj is None", "obj._param__private.initialized", "not obj._param__private.initialized")
        rest = [(e, t) for e, t in inner if norm(e) not in known]
        ident = [(e, t) for e, t in rest if isinstance(e, ast.Compare) and isinstance(e.ops[0], ast.Is) and "val" in {norm(e.left), norm(e.comparators[0])}]
        other = [x for x in rest if x not in ident]
        if len(ident) == 1 and ident[0][1] is False and not other:
            ctx.ok("R14.a", f, r, "constant raise is skipped only when `%s` (identity with the current value)" % norm(ident[0][0]))
        elif not ident and not other:
            ctx.ok("R14.a", f, r, "constant raise is unconditional on the arm")
        else:
            ctx.fail("R14.a", f, r, "the constant raise is skipped under a condition other than identity with the current value: %s" % (
                ", ".join("%s is %s" % (norm(e), t) for e, t in ident + other)))

    # ---------------------------------------------------------------- R14.b
    from checks.c05 import find_scopes
    ec = [s for s in find_scopes(ctx) if s.f.qualname == "param.parameterized.edit_constant" and s.fld == "attr.constant"]
    ctx.require(ec, "edit_constant no longer toggles `constant`")
    s = ec[0]
    g = s.f
    gc = s.cfg
    if not s.is_temp_scope:
        ctx.fail("R14.b", g, g.node, "edit_constant clears constant flags but never sets them again", key="%s::no-restore" % g.qualname)
    else:
        bad = []
        for wt in s.temp:
            orig_ids = {w.id for w in s.orig}
            for r in gc.reachable_from([wt], stop=lambda n: n.id in orig_ids, labels={"n", "t", "f"}):
                if r.may_raise and r.id not in orig_ids and s.protected(r) is None:
                    bad.append(r)
        if bad:
            ctx.fail("R14.b", g, bad[0], "after a constant flag was cleared `%s` may raise and no finally sets the flag again" % bad[0].text(),
                     key="%s::unprotected::%s" % (g.qualname, bad[0].text()))
        else:
            ctx.ok("R14.b", g, s.temp[0], "every exit after clearing a flag passes the restoring finally")
        recv = {norm(t.value) for w in s.orig for t in stores_in(w) if isinstance(t, ast.Attribute)}
        cls_level = any("type(" in r for r in recv)
        inst_level = any("type(" not in r for r in recv)
        if cls_level and inst_level:
            ctx.ok("R14.b", g, s.orig[0], "flags restored on the class Parameter and on the instance Parameter (%s)" % ", ".join(sorted(recv)))
        else:
            ctx.fail("R14.b", g, s.orig[0], "flags are restored only at %s level (%s)" % ("class" if cls_level else "instance", ", ".join(sorted(recv))),
                     key="%s::one-level-restore" % g.qualname)

    # ---------------------------------------------------------------- R14.c
    pz = ctx.repo.cls("param.parameterized.Parameterized")
    decl = pz.class_assign("name")
    ok = isinstance(decl, ast.Call) and any(k.arg == "constant" and isinstance(k.value, ast.Constant) and k.value.value is True for k in decl.keywords)
    (ctx.ok if ok else ctx.fail)("R14.c", "param.parameterized.Parameterized", decl,
                                 "Parameterized.name declared with constant=True" if ok else "Parameterized.name is not declared constant=True")
    init = ctx.repo.method(PARAMETER, "__init__")
    ic = ctx.facts.cfg(init)
    cstores = [n for n in ic.live_nodes() for t in stores_in(n) if isinstance(t, ast.Attribute) and t.attr == "constant" and norm(t.value) == "self"]
    ctx.require(cstores, "Parameter.__init__ no longer stores self.constant")
    good = True
    for n in cstores:
        val = n.ast.value
        conds = ic.conditions(n)
        if isinstance(val, ast.Constant) and val.value is True:
            continue
        # a non-True store must exclude readonly
        if not (has(conds, "readonly is True", False) or has(conds, "readonly", False)):
            good = False
            ctx.fail("R14.c", init, n, "`%s` can run when readonly is true: a read-only parameter is not constant" % n.text())
    if good:
        ctx.ok("R14.c", init, cstores[0], "constant is forced to True whenever readonly is True")

    # R14.d (a whitelist of atoms allowed in the selection of constants to pin) was replaced by the constructor
    # model R14.k, which interprets _setup_params incl. a constant whose default is None.
    # ---------------------------------------------------------------- R14.e
    # frozen who-may-unlock table, one reason each
    UNLOCKERS = {
        "param.parameterized.Parameters._sync_refs": "a linked constant mirrors its reference",
        "param.parameters.Time.__call__": "documented way to change the constant time_type of a Time object, together with the time value",
    }
    n_unl = 0
    for g in ctx.repo.all_funcs("param"):
        for w in ast.walk(g.node):
            if isinstance(w, (ast.With, ast.AsyncWith)):
                for it in w.items:
                    if isinstance(it.context_expr, ast.Call) and norm(it.context_expr.func).split(".")[-1] == "edit_constant":
                        n_unl += 1
                        if g.qualname in UNLOCKERS:
                            ctx.ok("R14.e", g, w, "sanctioned internal unlock: %s" % UNLOCKERS[g.qualname])
                        else:
                            ctx.fail("R14.e", g, w, "%s lifts the constant guard with edit_constant: values arriving on this route rebind constant parameters of a constructed object "
                                                    "without TypeError" % g.qualname, key="%s::internal-unlock" % g.qualname,
                                     input="obj.c = coroutine_function on a constant allow_refs parameter rebinds c when the coroutine completes")
    ctx.require(n_unl >= 1, "the edit_constant use in _sync_refs was not found")

    # ---------------------------------------------------------------- R14.f
    tests = {n.id for n in cfg.live_nodes() if n.kind == "test" and any(
        isinstance(a, ast.Attribute) and a.attr in ("constant", "readonly") and norm(a.value) == "self" for a in ast.walk(n.ast))}
    reach = cfg.reachable_from([cfg.entry], stop=lambda n: n.id in tests, labels={"n", "t", "f"})
    if any(r is cfg.exit for r in reach):
        p_ = cfg.path(cfg.entry, cfg.exit, avoid=lambda n: n.id in tests) or [cfg.entry, cfg.exit]
        ctx.fail("R14.f", f, p_[-2] if len(p_) > 1 else f.node,
                 "Parameter.__set__ can return normally without testing self.constant / self.readonly: on this route a constant or read-only parameter is (re)linked without TypeError",
                 witness=cfg.witness(p_), key=f.qualname + "::guard-bypass",
                 input="p.c = coroutine_function on a constant/readonly allow_refs parameter: no TypeError, the link is installed")
    else:
        ctx.ok("R14.f", f, f.node, "every normal return has passed the constant/readonly test")

    from checks.shared import memo_not_mutated_in_place
    memo_not_mutated_in_place(ctx, "R14.g")

    # ---------------------------------------------------------------- R14.h
    n_clear = 0
    for g in ctx.repo.all_funcs():
        for st in ast.walk(g.node):
            if isinstance(st, ast.Assign) and isinstance(st.value, ast.Constant) and st.value.value is False \
                    and any(isinstance(t, ast.Attribute) and t.attr == "constant" for t in st.targets):
                n_clear += 1
                if g.qualname == "param.parameterized.edit_constant":
                    ctx.ok("R14.h", g, st, "the sanctioned unlock")
                else:
                    ctx.fail("R14.h", g, st, "%s clears a constant flag by hand (`%s`) instead of using edit_constant: the flag of a per-instance copy created in between is never set again" % (
                        g.qualname, norm(st)), key="%s::ad-hoc-unlock" % g.qualname,
                        input="t = param.Time(); t(5, time_type=float); t.time_type = int is accepted afterwards")
    ctx.require(n_clear >= 1, "the unlock in edit_constant was not found")

    # ---------------------------------------------------------------- R14.i
    ec_ = ctx.repo.func("param.parameterized.edit_constant")
    unl = [st for st in ast.walk(ec_.node) if isinstance(st, ast.Assign) and isinstance(st.value, ast.Constant) and st.value.value is False
           and any(isinstance(t, ast.Attribute) and t.attr == "constant" and isinstance(t.value, ast.Name) for t in st.targets)]
    ok_i = False
    if unl:
        objvar = unl[0].targets[0].value.id
        recorded = [c for c in ast.walk(ec_.node) if isinstance(c, ast.Call) and isinstance(c.func, ast.Attribute) and c.func.attr == "append"
                    and any(isinstance(n_, ast.Name) and n_.id == objvar for a in c.args for n_ in ast.walk(a))]
        if recorded:
            lst = norm(recorded[0].func.value)
            for t_ in ast.walk(ec_.node):
                if isinstance(t_, ast.Try):
                    for lp in (x for s_ in t_.finalbody for x in ast.walk(s_) if isinstance(x, ast.For)):
                        if norm(lp.iter) == lst:
                            bound = {n_.id for n_ in ast.walk(lp.target) if isinstance(n_, ast.Name)}
                            if any(isinstance(st, ast.Assign) and isinstance(st.value, ast.Constant) and st.value.value is True
                                   and any(isinstance(tg, ast.Attribute) and tg.attr == "constant" and isinstance(tg.value, ast.Name) and tg.value.id in bound for tg in st.targets)
                                   for st in ast.walk(lp)):
                                ok_i = True
    if ok_i:
        ctx.ok("R14.i", ec_, unl[0], "the unlocked Parameter objects are recorded and set constant again themselves")
    else:
        ctx.fail("R14.i", ec_, unl[0] if unl else ec_.node,
                 "edit_constant restores only `type(obj).param[name]` / `obj.param[name]` looked up on exit; if the body replaced one of them (e.g. a class-level set on a subclass "
                 "copies the inherited Parameter), the object that was unlocked -- the ancestor's Parameter -- stays constant=False for good",
                 key=ec_.qualname + "::restore-by-name-only",
                 input="class B(A) inherits constant x; with edit_constant(B()): B.x = 5  ->  A.param.x.constant is False afterwards")

    from checks.shared import getstate_complete
    getstate_complete(ctx, "R14.o")

    # ---------------------------------------------------------------- R14.n
    ALLOWED_REBINDERS = {
        "param.parameterized._InstancePrivate.__init__": "construction of the private namespace",
        "param.parameterized._ClassPrivate.__init__": "construction of the class-level namespace",
        "param.parameterized.Parameters._cls_parameters": "class-level memo (rebinding is how it is invalidated, R13.f)",
        "param.parameterized.ParameterizedMetaclass._clear_params_cache": "class-level memo (taken from cls.__dict__)",
    }
    n_reb = 0
    for g in ctx.repo.all_funcs("param"):
        al_ = ctx.facts.local_aliases(g)
        for st in ast.walk(g.node):
            if not isinstance(st, (ast.Assign, ast.AugAssign)):
                continue
            for t in (st.targets if isinstance(st, ast.Assign) else [st.target]):
                if isinstance(t, ast.Attribute) and t.attr == "params":
                    base = t.value
                    if isinstance(base, ast.Name) and base.id in al_:
                        base = al_[base.id]
                    root = norm(base)
                    if not (root.endswith("_param__private") or root in ("private", "self", "param_private") or "_param__private" in root):
                        continue
                    n_reb += 1
                    if g.qualname in ALLOWED_REBINDERS:
                        ctx.ok("R14.n", g, st, "allowed: %s" % ALLOWED_REBINDERS[g.qualname])
                    else:
                        ctx.fail("R14.n", g, st, "`%s` replaces the per-instance Parameter table by another dict: code that took the table before (edit_constant does, for the length of its block) "
                                                 "no longer sees the Parameter copies created from then on, so copies born unlocked inside an edit_constant block stay unlocked for good" % norm(st)[:60],
                                 key="%s::params-table-rebound" % g.qualname, input="with edit_constant(p): p.param.objects()   -> afterwards p.c = 1 is accepted")
    ctx.require(n_reb >= 3, "fewer than 3 writers of a `.params` table found (%d)" % n_reb)

    # ---------------------------------------------------------------- R14.l
    from engine.absint import Interp as _I, Obj as _O, PyFunc as _PF, Unsupported as _U
    wrappers = [g for g in ctx.repo.all_funcs("param.parameterized") if g.qualname.startswith("param.parameterized.as_uninitialized.")]
    ctx.require(wrappers, "as_uninitialized no longer defines a wrapper function")
    wf = wrappers[0]
    badl = None
    for before in (True, False):
        priv = _O("private", initialized=before)
        nsl = _O("ns", self=_O("instance", _param__private=priv))
        seen_flag = []
        it_l = _I(ctx.hier)
        env_l = {wf.params[0]: nsl, "fn": _PF("wrapped", lambda *a, **k: seen_flag.append(priv.attrs["initialized"]))}
        if wf.node.args.vararg:
            env_l[wf.node.args.vararg.arg] = ()
        if wf.node.args.kwarg:
            env_l[wf.node.args.kwarg.arg] = {}
        try:
            outs = it_l.run_all(wf, env_l)
        except _U as e:
            raise AnalysisError("absint cannot interpret the wrapper of as_uninitialized: %s -- R14.l cannot decide" % e)
        ctx.abstract_cases += 1
        if len(outs) != 1 or outs[0].imprecise or outs[0].kind != "return":
            raise AnalysisError("absint imprecise on the wrapper of as_uninitialized -- R14.l cannot decide")
        if seen_flag != [False]:
            badl = "the wrapped function runs %d time(s) with initialized=%s (specification: once, with the flag cleared)" % (len(seen_flag), seen_flag[:1])
        elif priv.attrs["initialized"] is not before:
            badl = "an object that was %s before the call is left %s: %s" % (
                "initialized" if before else "uninitialized", "initialized" if priv.attrs["initialized"] else "uninitialized",
                "all its constants (including name) accept plain assignments from then on" if before else "it is marked constructed too early")
        if badl:
            break
    if badl:
        ctx.fail("R14.l", wf, wf.node, "as_uninitialized: " + badl, key=wf.qualname + "::flag-not-restored",
                 input="a Parameterized value of an instantiate=True parameter is renamed through _generate_name on every new owner: the copy stays uninitialized")
    else:
        ctx.ok("R14.l", wf, wf.node, "2/2: the wrapped call sees the flag cleared, the flag is put back as found")

    # model-level rule, run last (see DESIGN §10)
    from checks import setter_model
    setter_model.report(ctx, "C14", "R14.m")
    from checks import cm_model
    cm_model.report(ctx, "C14", "R14.x")
    from checks import ctor_model
    ctor_model.report(ctx, "C14", "R14.k")
    from checks.shared import instance_tested_by_identity
    instance_tested_by_identity(ctx, "R14.v")
    from checks import namespace_model
    namespace_model.report(ctx, "R14.w")
    ctx.rule("R14.p", "the class route reaches the guard on every path: in ParameterizedMetaclass.__setattr__, once the attribute names a Parameter and the value is not a Parameter object, "
                      "every path to a normal exit passes a call of the descriptor's __set__ (must-pass-through on the CFG)", floor=1)
    class_route_reaches_the_setter(ctx, "R14.p")
    ctx.rule("R14.q", "descriptor lookup model: ParameterizedMetaclass.get_param_descriptor interpreted on a diamond D(B, C) where only C re-declares the Parameter (read-only / constant): a "
                      "class-level set on D is handed to C's Parameter -- the nearest declaring class of the MRO -- whose guard then applies", floor=1)
    namespace_model.descriptor_lookup_model(ctx, "R14.q")
    ctx.rule("R14.d", "who may rebind the class-level value: every store to `<x>.default` in param is a Parameter's own (`self.default = ...` inside a Parameter class: constructors, the "
                      "descriptor's __set__ behind its guard, compute_default, state fix-ups); nothing writes the `default` of another object", floor=1)
    default_rebound_by_the_parameter_only(ctx, "R14.d")
    ctx.rule("R14.u", "the update route reaches the guard for every key: the loop of Parameters._update that assigns the keys has no `continue` and no conditional setattr", floor=1)
    update_route_reaches_the_setter(ctx, "R14.u")
    from checks.shared import slot_set_model
    slot_set_model(ctx, "R14.s")


def class_route_reaches_the_setter(ctx, rule):
    """Must-pass-through on the CFG of ParameterizedMetaclass.__setattr__: once the attribute names a Parameter and the
    value is not a Parameter object, every path to a NORMAL exit passes a call of the descriptor's `__set__` -- the
    only place where the read-only guard (and validation) lives.  A shortcut that returns earlier (e.g. 'the very object
    the inherited Parameter already holds') lets `Sub.ro = Sub.ro` through without the TypeError."""
    f = ctx.repo.func("param.parameterized.ParameterizedMetaclass.__setattr__")
    cfg = ctx.facts.cfg(f)
    brs = [n for n in cfg.live_nodes() if n.kind == "br" and n.polarity is True and "isinstance(value, Parameter)" in norm(n.ast) and "parameter" in norm(n.ast).split("isinstance")[0]]
    if not brs:
        raise AnalysisError("%s: the branch `parameter and not isinstance(value, Parameter)` of the metaclass __setattr__ is no longer found" % rule)
    setters = {n.id for n in cfg.live_nodes() if n.kind != "br" and n.ast is not None and any(
        isinstance(c, ast.Call) and isinstance(c.func, ast.Attribute) and c.func.attr == "__set__" for c in ast.walk(n.ast))}
    if not setters:
        ctx.fail(rule, f, f.node, "the class route no longer goes through the descriptor's __set__: nothing rejects an assignment to a read-only parameter at class level", key=f.qualname + "::no-setter-call")
        return
    for br in brs:
        p = cfg.path(br, cfg.exit, avoid=lambda n: n.id in setters)
        if p is not None:
            off = [n for n in p if n.ast is not None and n.kind != "br"]
            at = off[-1] if off else br
            ctx.fail(rule, f, at, "a class-level assignment of a plain value to a Parameter attribute can leave ParameterizedMetaclass.__setattr__ normally without having called the descriptor's "
                                  "__set__ (path: %s): the read-only guard and the validation are skipped on that path -- `Sub.ro = <the object it already holds>` no longer raises TypeError" % (
                                      " -> ".join(cfg.witness(p))[:300]), key=f.qualname + "::setter-bypassed", input="class Sub(Base): pass; Sub.ro = Sub.ro   # ro = param.Number(1, readonly=True) on Base")
            return
    ctx.ok(rule, f, brs[0], "every normal exit of the class route passes the descriptor's __set__ (read-only guard, validation)")


def default_rebound_by_the_parameter_only(ctx, rule):
    """Who may rebind the class-level value: a store to `<x>.default` is found only where <x> is the function's own
    first parameter inside a Parameter class (constructors, the descriptor's __set__ behind its constant / read-only
    test, compute_default, state fix-ups).  A store to the `default` of ANOTHER object -- e.g. the namespace writing
    `pobj.default = value` -- rebinds the value behind the guard."""
    n_self, bad = 0, []
    for f in ctx.repo.all_funcs("param"):
        own = f.params[0] if f.params else None
        for st in ast.walk(f.node):
            targets = st.targets if isinstance(st, ast.Assign) else [st.target] if isinstance(st, (ast.AugAssign, ast.AnnAssign)) else []
            for t in targets:
                for x in ast.walk(t):
                    if isinstance(x, ast.Attribute) and isinstance(x.ctx, ast.Store) and x.attr == "default":
                        in_param_class = f.cls is not None and ctx.hier.is_subclass(f.cls.qualname, PARAMETER)
                        if isinstance(x.value, ast.Name) and x.value.id == own and in_param_class:
                            n_self += 1
                        else:
                            bad.append((f, st, norm(x)))
            if isinstance(st, ast.Call) and norm(st.func) in ("setattr", "object.__setattr__") and len(st.args) == 3 and isinstance(st.args[1], ast.Constant) and st.args[1].value == "default":
                bad.append((f, st, norm(st)))
    ctx.require(n_self >= 8, "fewer than 8 `self.default = ...` stores inside Parameter classes (%d): the rule lost its instances" % n_self)
    if bad:
        f, st, text = bad[0]
        ctx.fail(rule, f, st, "`%s` in %s rebinds the class-level value of a Parameter from outside the Parameter: the constant / read-only test of the descriptor's __set__ is not on that route "
                              "(a read-only parameter is silently rebound; on a subclass the Parameter shared with the declaring class is rewritten)" % (text[:70], f.qualname.rsplit(".", 2)[-1]),
                 key="%s::default-written-from-outside" % f.qualname, input="Cls.param.set_default('ro', v)   # ro = param.Number(1, readonly=True)")
    else:
        ctx.ok(rule, ctx.repo.func("param.parameterized.Parameter.__set__"), None, "all %d stores to `.default` are a Parameter's own (`self.default = ...` inside a Parameter class)" % n_self)


def update_route_reaches_the_setter(ctx, rule):
    """The update route: Parameters._update hands EVERY key it is given to `setattr` -- the only place where the constant /
    read-only guard lives.  The loop that assigns the keys contains no `continue` and no other way round the `setattr`:
    a key skipped because its value "is already in force" (equal, not identical) is accepted where a plain assignment of
    the same object raises TypeError."""
    f = ctx.repo.func("param.parameterized.Parameters._update")
    loops = [st for st in ast.walk(f.node) if isinstance(st, ast.For) and any(isinstance(c, ast.Call) and norm(c.func) == "setattr" for c in ast.walk(st))]
    ctx.require(loops, "Parameters._update no longer assigns its keys with setattr in a loop")
    lp = loops[0]
    skips = [n for n in ast.walk(lp) if isinstance(n, ast.Continue)]
    # a setattr nested under a condition other than the unknown-name test is a way round as well
    guarded = []
    for st in lp.body:
        if isinstance(st, ast.If) and any(isinstance(c, ast.Call) and norm(c.func) == "setattr" for c in ast.walk(st)):
            guarded.append(st)
    if skips or guarded:
        at = (skips or guarded)[0]
        ctx.fail(rule, f, at, "the key loop of Parameters._update can pass a key by without calling setattr (`%s`): the constant / read-only guard of the setter is never consulted for it -- "
                              "`p.param.update(const=<an equal but distinct object>)` returns normally where `p.const = <that object>` raises TypeError" % norm(at)[:70],
                 key=f.qualname + "::key-passes-the-setter-by", input="p.param.update(c=(1, 2)) on a constant c holding another (1, 2)")
    else:
        ctx.ok(rule, f, lp, "every key given to update is handed to setattr (no `continue`, no conditional setattr in the key loop)")
