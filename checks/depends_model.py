"""depends model (C06 / C07): how `depends(watch=True)` methods are registered.

(a) Registration table.  The tail of ParameterizedMetaclass.__init__ that
computes `param._depends['watch']` is interpreted abstractly for a new class B
below A (below A0): A's table holds an entry for method m (and A0's as well,
where A0 exists).  B either does not define m, overrides it decorated with
watch=True, overrides it decorated with watch=False, or overrides it
undecorated; B may also add a new watched method n.

  Specification: B's table holds exactly one entry per watched method name;
  for m it is B's own entry when B overrides it with watch=True, the inherited
  one when B does not define m, and none at all when B's override is not a
  watching one (an undecorated override is not called automatically).

(b) Installation.  Parameters._update_deps is interpreted with the resolution
of dependencies abstract:
  * init=True: one watcher is installed per (object, class, what) group of the
    method's constant dependencies, covering all of the group's dependencies;
    dynamic dependencies are installed per group too and recorded under the
    method in dynamic_watchers; an on_init method is called exactly once, at
    the end, however many entries name it;
  * attribute='sub' (a sub-object was replaced): only the methods with a
    dynamic dependency through `sub` are touched; every watcher recorded for
    such a method is unwatched exactly once on the object it was installed on
    and forgotten; watchers for the dependencies as they resolve NOW are
    installed and recorded; methods without such a dependency keep theirs.
"""
from __future__ import annotations

import ast
import itertools

from engine.absint import TOP, Interp, Obj, PyFunc, Unsupported, _Raise
from engine.loader import AnalysisError, norm

P = "param.parameterized."
META = P + "ParameterizedMetaclass"


def registration_table(ctx):
    f = ctx.repo.func(META + ".__init__")
    body = f.node.body
    start = next((i for i, st in enumerate(body) if isinstance(st, ast.Assign) and any(isinstance(t, ast.Name) and t.id == "dependers" for t in st.targets)), None)
    end = next((i for i, st in enumerate(body) if isinstance(st, ast.Assign) and any(norm(t).endswith("param._depends") for t in st.targets)), None)
    if start is None or end is None or end < start:
        raise AnalysisError("depends model: the computation of param._depends was not found in ParameterizedMetaclass.__init__")
    stmts = body[start:end + 1]
    problems, n = [], 0
    for override, adds_n, has_a0 in itertools.product(["none", "watch", "nowatch", "undecorated"], [False, True], [False, True]):
        entry_a0 = ("m", False, False, [Obj("deps_declared_on_A0")], [])
        entry_a = ("m", False, False, [Obj("deps_declared_on_A")], [])
        a0 = Obj("A0", param=Obj("A0.param", _depends={"watch": [entry_a0]}), _param__parameters=True)
        a = Obj("A", param=Obj("A.param", _depends={"watch": [entry_a]}), _param__parameters=True)
        meths = {}
        m_a = Obj("A.m", _dinfo={"watch": True})
        if override == "watch":
            meths["m"] = Obj("B.m", _dinfo={"watch": True, "dependencies": ["x"]})
        elif override == "nowatch":
            meths["m"] = Obj("B.m", _dinfo={"watch": False, "dependencies": ["x"]})
        elif override == "undecorated":
            meths["m"] = Obj("B.m_plain")
        if adds_n:
            meths["n"] = Obj("B.n", _dinfo={"watch": True, "dependencies": ["y"]})
        b_param = Obj("B.param")
        b = Obj("B", param=b_param, _param__parameters=True, m=meths.get("m", m_a))
        if adds_n:
            b.attrs["n"] = meths["n"]
        dict_ = dict(meths)
        dict_["some_attribute"] = Obj("not_a_method")
        a0.attrs["__dict__"] = {"m": Obj("A0.m", _dinfo={"watch": True})}
        a.attrs["__dict__"] = {"m": m_a}
        b.attrs["__dict__"] = dict_
        own_deps = {}

        def hook(fn, args, kwargs):
            if fn == "hasattr" and len(args) == 2:
                return isinstance(args[0], Obj) and args[1] in args[0].attrs
            if fn == "MInfo":
                return Obj("minfo", **kwargs)
            if fn == "_params_depended_on" and args:
                nme = args[0].attrs.get("name")
                own_deps[nme] = [Obj("deps_declared_on_B_for_" + str(nme))]
                return (own_deps[nme], [])
            if fn == "classlist":
                return ([a0] if has_a0 else []) + [a, b]
            return NotImplemented
        it = Interp(ctx.hier, call_hook=hook)
        env = {"mcs": b, "dict_": dict_, "name": "B"}
        try:
            it.choices, it.cursor, it.imprecise, it.notes = [], 0, False, []
            for st in stmts:
                it.exec(st, env, f)
        except Unsupported as e:
            raise AnalysisError("depends model: absint cannot interpret the registration table code: %s" % e)
        if it.imprecise:
            raise AnalysisError("depends model: the registration table code is not interpretable precisely (%s)" % it.notes[:2])
        n += 1
        table = b_param.attrs.get("_depends", {}).get("watch") if isinstance(b_param.attrs.get("_depends"), dict) else None
        if not isinstance(table, list):
            raise AnalysisError("depends model: param._depends['watch'] is not a list the model can read (%r)" % (table,))
        desc = "class B(A)%s: %s%s" % (" with A(A0)" if has_a0 else "", {"none": "does not define m", "watch": "overrides m with depends(watch=True)", "nowatch": "overrides m with depends(watch=False)",
                                                                            "undecorated": "overrides m without decorating it"}[override], ", adds a watched method n" if adds_n else "")
        names = [e[0] for e in table if isinstance(e, tuple)]
        want_m = override in ("none", "watch")
        if names.count("m") != (1 if want_m else 0):
            problems.append("%s: the table lists m %d time(s), specification %d: %s" % (desc, names.count("m"), 1 if want_m else 0,
                            "the method runs once per inherited registration in addition to its own" if names.count("m") > 1 else
                            "an override that does not watch is called automatically through the inherited registration" if not want_m else "the inherited dependency is no longer watched"))
        elif want_m:
            e = [x for x in table if x[0] == "m"][0]
            if override == "watch" and (len(e) < 4 or e[3] is not own_deps.get("m")):
                problems.append("%s: the entry for m is not the one computed from B's own declaration" % desc)
            if override == "none" and e is not entry_a:
                problems.append("%s: the entry for m is not the one of the nearest ancestor (A re-declared m; an entry from further up carries a stale dependency list)" % desc)
        if names.count("n") != (1 if adds_n else 0):
            problems.append("%s: the table lists n %d time(s)" % (desc, names.count("n")))
    n2, p2 = _registration_shapes(ctx, f, stmts)
    return n + n2, problems + p2


def _registration_shapes(ctx, f, stmts):
    """Further hierarchies: classes that inherit an entry without declaring the method, and a diamond.

    chain:   A0 declares m;  A(A0) does not (its table holds A0's entry);  B(A) does not define m
    diamond: A declares m;  B2(A) overrides it (own entry);  C2(A) does not (its table holds A's entry);  D(C2, B2)
             -- Python resolves D.m to B2.m, so D must carry B2's entry, exactly once
    diamond, undecorated: as above but B2's override is undecorated -> D.m is not called automatically
    """
    problems, n = [], 0
    for shape in ("chain", "diamond", "diamond-undecorated", "diamond-both"):
        entry_a = ("m", False, False, [Obj("deps_declared_on_A")], [])
        entry_b2 = ("m", False, False, [Obj("deps_declared_on_B2")], [])
        entry_c2 = ("m", False, False, [Obj("deps_declared_on_C2")], [])
        m_a = Obj("A.m", _dinfo={"watch": True})
        m_b2 = Obj("B2.m", _dinfo={"watch": True}) if shape != "diamond-undecorated" else Obj("B2.m_plain")
        m_c2 = Obj("C2.m", _dinfo={"watch": True})
        new_param = Obj("new.param")
        if shape == "chain":
            a0 = Obj("A0", param=Obj("A0.param", _depends={"watch": [entry_a]}), _param__parameters=True, m=m_a)
            a0.attrs["__dict__"] = {"m": m_a}
            a = Obj("A", param=Obj("A.param", _depends={"watch": [entry_a]}), _param__parameters=True, m=m_a)
            a.attrs["__dict__"] = {}
            new = Obj("B", param=new_param, _param__parameters=True, m=m_a)
            new.attrs["__dict__"] = {}
            classes = [a0, a, new]
            want, desc = entry_a, "B(A(A0)): only A0 declares m (A carries the inherited entry), B does not define m"
        else:
            a = Obj("A", param=Obj("A.param", _depends={"watch": [entry_a]}), _param__parameters=True, m=m_a)
            a.attrs["__dict__"] = {"m": m_a}
            b2 = Obj("B2", param=Obj("B2.param", _depends={"watch": [entry_b2] if shape != "diamond-undecorated" else []}), _param__parameters=True, m=m_b2)
            b2.attrs["__dict__"] = {"m": m_b2}
            c2_declares = shape == "diamond-both"
            c2 = Obj("C2", param=Obj("C2.param", _depends={"watch": [entry_c2] if c2_declares else [entry_a]}), _param__parameters=True, m=m_c2 if c2_declares else m_a)
            c2.attrs["__dict__"] = {"m": m_c2} if c2_declares else {}
            resolved = m_c2 if c2_declares else m_b2            # MRO: D, C2, B2, A
            new = Obj("D", param=new_param, _param__parameters=True, m=resolved)
            new.attrs["__dict__"] = {}
            classes = [a, b2, c2, new]                         # classlist: base first (the reversed MRO)
            want = None if shape == "diamond-undecorated" else (entry_c2 if c2_declares else entry_b2)
            desc = {"diamond": "D(C2, B2) with B2(A) overriding m and C2(A) not: D.m is B2.m",
                    "diamond-undecorated": "D(C2, B2) with B2(A) overriding m undecorated and C2(A) not: D.m is B2's plain method",
                    "diamond-both": "D(C2, B2) with both B2(A) and C2(A) overriding m: D.m is C2.m"}[shape]

        def hook(fn, args, kwargs):
            if fn == "hasattr" and len(args) == 2:
                return isinstance(args[0], Obj) and args[1] in args[0].attrs
            if fn == "MInfo":
                return Obj("minfo", **kwargs)
            if fn == "_params_depended_on" and args:
                return ([Obj("deps_of_new_class")], [])
            if fn == "classlist":
                return list(classes)
            return NotImplemented
        it = Interp(ctx.hier, call_hook=hook)
        env = {"mcs": new, "dict_": {"some_attribute": Obj("not_a_method")}, "name": new.name}
        try:
            it.choices, it.cursor, it.imprecise, it.notes = [], 0, False, []
            for st in stmts:
                it.exec(st, env, f)
        except Unsupported as e:
            raise AnalysisError("depends model: absint cannot interpret the registration table code: %s" % e)
        if it.imprecise:
            raise AnalysisError("depends model: the registration table code is not interpretable precisely (%s)" % it.notes[:2])
        n += 1
        table = new_param.attrs.get("_depends", {}).get("watch") if isinstance(new_param.attrs.get("_depends"), dict) else None
        if not isinstance(table, list):
            raise AnalysisError("depends model: param._depends['watch'] is not a list the model can read (%r)" % (table,))
        ms = [e for e in table if isinstance(e, tuple) and e[0] == "m"]
        if len(ms) != (0 if want is None else 1):
            problems.append("%s: the table lists m %d time(s), specification %d" % (desc, len(ms), 0 if want is None else 1))
        elif want is not None and ms[0] is not want:
            problems.append("%s: the entry registered for m carries %s, specification %s: the method runs on changes of parameters it does not depend on and misses its own" % (
                desc, ms[0][3][0].name if ms[0][3] else "?", want[3][0].name))
    return n, problems


def installation(ctx):
    f = ctx.repo.func(P + "Parameters._update_deps")
    problems, n = [], 0
    for mode in ("init", "sub", "other"):
        old_sub, new_sub, top = Obj("old_sub_object"), Obj("new_sub_object"), Obj("instance")
        for o in (old_sub, new_sub, top):
            o.attrs["param"] = Obj("param_of_" + o.name, owner_obj=o, _state_watchers=[])
        the_cls = Obj("Cls")
        cA = Obj("constant_dep_a", inst=None, cls=the_cls, what="value", name="a")
        cB = Obj("constant_dep_b", inst=None, cls=the_cls, what="value", name="b")
        cC = Obj("constant_dep_c_bounds", inst=None, cls=the_cls, what="bounds", name="c")
        dyn_sub = Obj("dynamic_dep_sub.x", spec="sub.x")
        dyn_other = Obj("dynamic_dep_other.y", spec="other.y")
        dyn_two_sub = Obj("dynamic_dep_sub.y", spec="sub.y")
        dyn_two_other = Obj("dynamic_dep_other.w", spec="other.w")
        table = [("meth_sub", False, True, [cA, cB, cC], [dyn_sub]), ("meth_other", False, False, [cA], [dyn_other]), ("meth_plain", False, True, [cB], []),
                 ("meth_two", False, False, [], [dyn_two_sub, dyn_two_other])]
        w_old_sub = Obj("watcher_on_old_sub", inst=old_sub, cls=None, what="value", parameter_names=("x",))
        other_object = Obj("other_object")
        other_object.attrs["param"] = Obj("param_of_other", owner_obj=other_object, _state_watchers=[])
        w_old_other = Obj("watcher_on_other", inst=other_object, cls=None, what="value", parameter_names=("y",))
        w2_sub = Obj("watcher_of_meth_two_on_old_sub", inst=old_sub, cls=None, covers=[dyn_two_sub], what="value", parameter_names=("y",))
        w2_other = Obj("watcher_of_meth_two_on_other", inst=other_object, cls=None, covers=[dyn_two_other], what="value", parameter_names=("w",))
        import collections
        dyn_watchers = collections.defaultdict(list)
        if mode != "init":
            dyn_watchers["meth_sub"].append(w_old_sub)
            dyn_watchers["meth_other"].append(w_old_other)
            dyn_watchers["meth_two"] += [w2_sub, w2_other]
        calls = {"meth_sub": 0, "meth_other": 0, "meth_plain": 0, "meth_two": 0}
        bound = {k: Obj("bound_" + k, __name__=k) for k in calls}
        for k, v in bound.items():
            top.attrs[k] = v
        top.attrs["_param__private"] = Obj("private", dynamic_watchers=dyn_watchers)
        cls_param = Obj("class_namespace", _depends={"watch": table})
        top.attrs["__type__"] = Obj("Cls", param=cls_param)
        ns = Obj("ns", self=top)
        log = []

        def hook(fn, args, kwargs):
            it_ = hook.it
            if fn == "type" and args and args[0] is top:
                return top.attrs["__type__"]
            if fn == "_resolve_mcs_deps" and len(args) == 3:
                out = []
                for d in args[1]:
                    out.append(Obj("resolved_" + d.name, inst=top, cls=d.attrs["cls"], what=d.attrs["what"], name=d.attrs["name"], src=d))
                for d in args[2]:
                    tgt = new_sub if d in (dyn_sub, dyn_two_sub) else other_object
                    out.append(Obj("resolved_" + d.name, inst=tgt, cls=Obj("SubCls"), what="value", name=d.attrs["spec"].split(".")[-1], src=d))
                return out
            if fn == "self_._watch_group":
                w = Obj("installed_watcher_%d" % len(log), group=list(args[3]) if len(args) > 3 and isinstance(args[3], list) else None, method=args[1] if len(args) > 1 else None)
                if len(args) > 3 and isinstance(args[3], list) and args[3]:
                    d0 = args[3][0][1]
                    w.attrs.update(inst=d0.attrs["inst"], cls=d0.attrs["cls"], what=d0.attrs["what"], parameter_names=tuple(g[1].attrs["name"] for g in args[3]))
                log.append(("watch", w))
                return w
            if fn.endswith(".param.unwatch") and len(args) == 1:
                log.append(("unwatch", getattr(it_, "current_receiver", None), args[0]))
                return None
            if fn == "getattr" and len(args) == 2 and args[0] is top and args[1] in bound:
                return bound[args[1]]
            if fn == "m" and not args:
                return None
            return NotImplemented
        hook.needs_receiver = True
        it = Interp(ctx.hier, dyn=P + "Parameters", inline=lambda m: False, call_hook=hook)
        hook.it = it
        # calling a bound on_init method: record it
        orig_call = it.eval_call

        def eval_call(c, env, f_):
            if isinstance(c.func, ast.Name) and isinstance(env.get(c.func.id), Obj) and env[c.func.id] in bound.values():
                calls[env[c.func.id].attrs["__name__"]] += 1
                log.append(("call", env[c.func.id].attrs["__name__"]))
                return None
            return orig_call(c, env, f_)
        it.eval_call = eval_call
        try:
            outs = it.run_all(f, {"self_": ns, "attribute": None if mode == "init" else ("sub" if mode == "sub" else "zzz"), "init": mode == "init"})
        except Unsupported as e:
            raise AnalysisError("depends model: absint cannot interpret Parameters._update_deps: %s" % e)
        n += 1
        if len(outs) != 1 or outs[0].imprecise or outs[0].kind != "return":
            raise AnalysisError("depends model: Parameters._update_deps is not interpretable precisely (%s)" % (outs[0].notes[:2] if outs else "no outcome"))
        watches = [e[1] for e in log if e[0] == "watch"]
        unw = [e for e in log if e[0] == "unwatch"]
        if mode == "init":
            for meth, want_groups in (("meth_sub", 3), ("meth_other", 2), ("meth_plain", 1), ("meth_two", 2)):
                got = [w for w in watches if w.attrs["method"] == meth]
                if len(got) != want_groups:
                    problems.append("construction: %d watcher(s) installed for %s, specification %d (one per (object, what) group of its dependencies): %s" % (
                        len(got), meth, want_groups, "the method runs more than once per change" if len(got) > want_groups else "a dependency is not watched"))
            ab = [w for w in watches if w.attrs["method"] == "meth_sub" and w.attrs["group"] and len(w.attrs["group"]) == 2]
            if len(ab) != 1:
                problems.append("construction: the two value dependencies a and b of one method on the same object are not watched by ONE watcher (an update of both would run the method twice)")
            if calls != {"meth_sub": 1, "meth_other": 0, "meth_plain": 1, "meth_two": 0}:
                problems.append("construction: on_init methods are called %s, specification: each on_init method exactly once" % calls)
            first_call = next((i for i, e in enumerate(log) if e[0] == "call"), None)
            last_watch = max([i for i, e in enumerate(log) if e[0] == "watch"] or [-1])
            if first_call is not None and first_call < last_watch:
                problems.append("construction: the on_init method %s runs before the watchers of the methods registered after it are installed: what it assigns is missed by them" % log[first_call][1])
            rec = top.attrs["_param__private"].attrs["dynamic_watchers"]
            if len(rec.get("meth_sub", [])) != 1 or len(rec.get("meth_other", [])) != 1 or len(rec.get("meth_two", [])) != 2:
                problems.append("construction: the watchers of dynamic dependencies are not recorded under their method (they can never be moved to a newly attached sub-object)")
            if unw:
                problems.append("construction: watchers are removed")
        elif mode == "sub":
            mine = [e for e in unw if e[2] is w_old_sub]
            if len(mine) != 1 or not (isinstance(mine[0][1], Obj) and mine[0][1].attrs.get("owner_obj") is old_sub):
                problems.append("replacing `sub`: the watcher installed on the detached sub-object is unwatched %d time(s) (on %r): the detached object keeps a watcher on the parent's behalf" % (
                    len(mine), mine[0][1] if mine else None))
            if any(e[2] is w_old_other for e in unw):
                problems.append("replacing `sub`: the watcher of a dependency that does not pass through `sub` is removed")
            new_w = [w for w in watches if w.attrs["method"] == "meth_sub"]
            if len(new_w) != 1 or not (new_w[0].attrs["group"] and all(x[1].attrs["inst"] is new_sub for x in new_w[0].attrs["group"])):
                problems.append("replacing `sub`: %d watcher(s) installed for the dependency through `sub` (specification: one, on the object now attached)" % len(new_w))
            rec = top.attrs["_param__private"].attrs["dynamic_watchers"]
            if [w for w in rec.get("meth_sub", [])] != new_w or rec.get("meth_other") != [w_old_other]:
                problems.append("replacing `sub`: dynamic_watchers is %s afterwards, specification {meth_sub: [the new watcher], meth_other: [unchanged]}" % {k: [x.name for x in v] for k, v in rec.items()})
            if any(w.attrs["method"] not in ("meth_sub", "meth_two") for w in watches) or any(calls.values()):
                problems.append("replacing `sub`: methods that do not depend on `sub` are re-registered or called")
            # a method with dependencies under two different roots: afterwards every dependency has exactly one live, recorded watcher
            if len([e for e in unw if e[2] is w2_sub]) != 1:
                problems.append("replacing `sub`: the watcher a method with two path roots had on the detached sub-object is unwatched %d time(s)" % len([e for e in unw if e[2] is w2_sub]))
            removed = [e[2] for e in unw]
            live = list(rec.get("meth_two", []))
            for ddep, what_ in ((dyn_two_sub, "the dependency through `sub`"), (dyn_two_other, "the dependency through ANOTHER root attribute")):
                cover = []
                for w in live:
                    if any(w is r for r in removed):
                        continue
                    cov = w.attrs.get("covers") or [x[0] for x in (w.attrs.get("group") or [])]
                    if any(c is ddep for c in cov):
                        cover.append(w)
                if len(cover) != 1:
                    problems.append("replacing `sub`: for a method that also depends on a path through another attribute, %s has %d live recorded watcher(s) afterwards, specification 1%s" % (
                        what_, len(cover), ": that dependency is never noticed again" if not cover else ": the method runs once per watcher"))
            stale = [w for w in live if any(w is r for r in removed)]
            if stale:
                problems.append("replacing `sub`: a watcher that was removed is still recorded (%s)" % stale[0].name)
            kept_unrecorded = [w for w in (w2_sub, w2_other) if not any(w is r for r in removed) and not any(w is x for x in live)]
            if kept_unrecorded:
                problems.append("replacing `sub`: %s is neither removed nor recorded any more: it can never be cleaned up" % kept_unrecorded[0].name)
        else:
            if watches or unw or any(calls.values()):
                problems.append("a change of an attribute no dynamic dependency passes through re-registers or removes watchers")
    return n, problems


def report(ctx, rule_a, rule_b):
    n1, p1 = registration_table(ctx)
    f = ctx.repo.func(META + ".__init__")
    ctx.abstract_cases += n1
    if p1:
        ctx.fail(rule_a, f, f.node, "depends model (registration table): %s (%d disagreeing case(s))" % (p1[0], len(p1)), key=f.qualname + "::depends-table")
    else:
        ctx.ok(rule_a, f, f.node, "depends model: %d class shapes (B below A, optionally A0; m not defined / overridden watching / overridden not watching / overridden undecorated; a new method n): "
                                  "exactly one table entry per watched method, none for a non-watching override" % n1)
    n2, p2 = installation(ctx)
    p2 = [x for x in p2 if not x.startswith("replacing")]          # the rebinding step belongs to C07 (R07.b)
    g = ctx.repo.func(P + "Parameters._update_deps")
    ctx.abstract_cases += n2
    if p2:
        ctx.fail(rule_b, g, g.node, "depends model (installation): %s (%d problem(s))" % (p2[0], len(p2)), key=g.qualname + "::depends-installation")
    else:
        ctx.ok(rule_b, g, g.node, "depends model: _update_deps at construction, after replacing a sub-object and after an unrelated change: one watcher per dependency group, on_init once, "
                                  "old dynamic watchers removed from the detached object, new ones installed on the attached one")


# --------------------------------------------------------------------------------------------------
# (c) sub-path change filter: Parameters._watch_group + _resolve_dynamic_deps + _m_caller +
#     _sync_caller + _skip_event interpreted together
# --------------------------------------------------------------------------------------------------
SPECS = ["sub.x", "sub.y", "sub.x:bounds", "sub.subsub.z", "sub.param", "sub.subsub.param", "sub.subsub.leaf.w"]
_REF = {k: Obj("value_of_" + k) for k in ("x", "y", "z", "w", "bx", "by", "bz", "bw", "sname", "tname", "uname")}


def _mk_u(w=None):
    u = Obj("U", w=w or _REF["w"], name=_REF["uname"])
    u.attrs["param"] = {"name": Obj("U.param.name", bounds=None), "w": Obj("U.param.w", bounds=_REF["bw"])}
    return u


def _mk_t(z=None, leaf=None):
    t = Obj("T", z=z or _REF["z"], leaf=leaf or _mk_u(), name=_REF["tname"])
    t.attrs["param"] = {"name": Obj("T.param.name", bounds=None), "z": Obj("T.param.z", bounds=_REF["bz"]), "leaf": Obj("T.param.leaf", bounds=None)}
    return t


def _mk_s(x=None, y=None, bx=None, subsub=None):
    s = Obj("S", x=x or _REF["x"], y=y or _REF["y"], subsub=subsub or _mk_t(), name=_REF["sname"])
    s.attrs["param"] = {"name": Obj("S.param.name", bounds=None), "x": Obj("S.param.x", bounds=bx or _REF["bx"]), "y": Obj("S.param.y", bounds=_REF["by"]),
                        "subsub": Obj("S.param.subsub", bounds=None)}
    return s


def _resolved(spec, top):
    """What _resolve_mcs_deps(obj, [], [DInfo(spec)]) yields: every intermediate object's parameter, then the leaves."""
    def pinfo(inst, name, what="value"):
        return Obj("PInfo(%s.%s:%s)" % (inst.name, name, what), inst=inst, cls=Obj("cls_of_" + inst.name), name=name, what=what, pobj=None, mode="instance")
    path, _, what = spec.partition(":")
    parts = path.split(".")
    out, cur = [], top
    for p in parts[:-1]:
        out.append(pinfo(cur, p))
        cur = cur.attrs[p]
    if parts[-1] == "param":
        out += [pinfo(cur, n) for n in cur.attrs["param"]]
    else:
        out.append(pinfo(cur, parts[-1], what or "value"))
    return out


def _reach(obj, tail, what):
    """The values reached from `obj` through the rest of a dependency path (identity of abstract values stands for equality)."""
    cur = obj
    for p in tail[:-1]:
        cur = cur.attrs[p]
    if tail[-1] == "param":
        return [cur.attrs[n] for n in cur.attrs["param"]]
    if what != "value":
        return [cur.attrs["param"][tail[-1]].attrs[what]]
    return [cur.attrs[tail[-1]]]


def path_filter(ctx):
    import collections
    f_group = ctx.repo.func(P + "Parameters._watch_group")
    f_caller = ctx.repo.func(P + "_sync_caller")
    for q in ("Parameters._resolve_dynamic_deps", "_m_caller", "_skip_event"):
        ctx.repo.func(P + q)
    UNDEF = Obj("Undefined")
    problems, n = [], 0
    combos = [c for r in (1, 2, 3) for c in itertools.permutations(SPECS, r)]
    for specs in combos:
        top = Obj("top", cb=Obj("bound_method_cb"))
        u_old = _mk_u()
        t_old = _mk_t(leaf=u_old)
        s_old = _mk_s(subsub=t_old)
        top.attrs["sub"] = s_old
        top.attrs["param"] = {"sub": Obj("top.param.sub", bounds=None)}
        owner_of = {id(o.attrs["param"]): o for o in (top, s_old, t_old, u_old)}
        ddeps = {sp: Obj("DInfo(%s)" % sp, spec=sp) for sp in specs}
        grouped = collections.OrderedDict()
        for sp in specs:
            for dep in _resolved(sp, top):
                grouped.setdefault((id(dep.attrs["inst"]), dep.attrs["what"]), []).append((ddeps[sp], dep))
        # replacement objects: each differs from the attached one in exactly one value (new holders are built down to it)
        s_variants = [("equal in every value reached", _mk_s(subsub=t_old)), ("that differs in x", _mk_s(x=Obj("other_x"), subsub=t_old)), ("that differs in y", _mk_s(y=Obj("other_y"), subsub=t_old)),
                      ("that differs in the bounds of x", _mk_s(bx=Obj("other_bounds"), subsub=t_old)), ("with another subsub object (same z, same leaf)", _mk_s(subsub=_mk_t(leaf=u_old))),
                      ("whose subsub.z differs", _mk_s(subsub=_mk_t(z=Obj("other_z"), leaf=u_old))), ("whose subsub.leaf.w differs", _mk_s(subsub=_mk_t(leaf=_mk_u(w=Obj("other_w")))))]
        t_variants = [("with the same z and the same leaf", _mk_t(leaf=u_old)), ("with another z", _mk_t(z=Obj("other_z"), leaf=u_old)), ("whose leaf.w differs", _mk_t(leaf=_mk_u(w=Obj("other_w"))))]
        u_variants = [("with the same w", _mk_u()), ("with another w", _mk_u(w=Obj("other_w")))]
        for group in grouped.values():
            installed, rebinds, fired = [], [], []

            def hook(fn, args, kwargs):
                recv = getattr(hook.it, "current_receiver", None)
                if fn == "iscoroutinefunction":
                    return False
                if fn == "partial" and args:
                    return Obj("partial", func=args[0], kwargs=dict(kwargs))
                if fn.endswith(".param._watch") and len(args) >= 2:
                    installed.append((owner_of.get(id(recv)), args[0], list(args[1]) if isinstance(args[1], list) else args[1], args[2] if len(args) > 2 else kwargs.get("what", "value")))
                    return Obj("watcher")
                if fn.endswith(".param._update_deps"):
                    rebinds.append((owner_of.get(id(recv)), args[0] if args else kwargs.get("attribute")))
                    return None
                if fn == "isinstance" and len(args) == 2:
                    if args[1] == "<type dict>":
                        return isinstance(args[0], dict)
                    if args[1] == "<type list>":
                        return isinstance(args[0], list)
                    return NotImplemented
                if fn == "_getattrr" and len(args) >= 2 and isinstance(args[1], str):
                    cur = args[0]
                    for a in args[1].split("."):
                        if isinstance(cur, Obj) and a in cur.attrs:
                            cur = cur.attrs[a]
                        elif len(args) > 2:
                            cur = args[2]
                        else:
                            raise Unsupported("_getattrr(%r, %r)" % (args[0], args[1]))
                    return cur
                if fn == "Comparator.is_equal" and len(args) == 2:
                    return args[0] is args[1]
                return NotImplemented
            hook.needs_receiver = True
            it = Interp(ctx.hier, dyn=P + "Parameters", inline=lambda m: m == "_resolve_dynamic_deps", call_hook=hook, inline_module_functions=True,
                        globals={"Undefined": UNDEF, "_sync_caller": Obj("_sync_caller"), "_async_caller": Obj("_async_caller")}, strict_self_calls=True)
            hook.it = it
            try:
                outs = it.run_all(f_group, {"self_": Obj("ns", self=top), "obj": top, "name": "cb", "queued": False, "group": list(group), "attribute": "sub"})
            except Unsupported as e:
                raise AnalysisError("depends model: absint cannot interpret Parameters._watch_group: %s" % e)
            if len(outs) != 1 or outs[0].imprecise or outs[0].kind != "return" or len(installed) != 1:
                raise AnalysisError("depends model: Parameters._watch_group is not interpretable precisely (%s; %d watcher(s) installed)" % (outs[0].notes[:2] if outs else "no outcome", len(installed)))
            dep_obj, mcaller, params, _what = installed[0]
            inst = group[0][1].attrs["inst"]
            names_wanted = []
            for _, d in group:
                if d.attrs["name"] not in names_wanted:
                    names_wanted.append(d.attrs["name"])
            gdesc = "depends(%s, watch=True), watcher on %s for %s" % (", ".join(repr(x) for x in specs), inst.name, "/".join(names_wanted))
            if dep_obj is not inst or not isinstance(params, list) or sorted(params) != sorted(names_wanted) or _what != group[0][1].attrs["what"]:
                problems.append("%s: installed on %r for %r (%r)" % (gdesc, dep_obj, params, _what))
                continue
            if not (isinstance(mcaller, Obj) and mcaller.name == "partial" and isinstance(mcaller.attrs["func"], Obj) and mcaller.attrs["func"].name == "_sync_caller"):
                raise AnalysisError("depends model: the watcher callback built by _m_caller is not partial(_sync_caller, ...) (%r)" % (mcaller,))
            pk = dict(mcaller.attrs["kwargs"])
            if pk.get("function") is not top.attrs["cb"]:
                problems.append("%s: the watcher does not call the dependent method" % gdesc)
                continue
            # ---- events this watcher can receive
            holder_path = {id(top): [], id(s_old): ["sub"], id(t_old): ["sub", "subsub"], id(u_old): ["sub", "subsub", "leaf"]}[id(inst)]
            events = []
            for nme in names_wanted:
                here = [sp for (dd, d) in group for sp in [dd.attrs["spec"]] if d.attrs["name"] == nme]
                variants = {("top", "sub"): s_variants, ("S", "subsub"): t_variants, ("T", "leaf"): u_variants}.get((inst.name, nme))
                old_obj = inst.attrs.get(nme)
                if variants is None or group[0][1].attrs["what"] != "value":
                    events.append(("%s.%s assigned" % (inst.name, nme), Obj("Event", name=nme, old=Obj("old_leaf_value"), new=Obj("new_leaf_value")), True, False))
                    continue
                for vdesc, new_obj in variants:
                    want, passes_through = False, False
                    for sp in here:
                        path, _, what_ = sp.partition(":")
                        parts = path.split(".")
                        depth = len(holder_path)
                        if parts[:depth] != holder_path or not (parts[depth] == nme or (parts[depth] == "param" and depth == len(parts) - 1)):
                            raise AnalysisError("depends model: internal inconsistency for %s at %s.%s" % (sp, inst.name, nme))
                        tail = parts[depth + 1:]
                        if not tail:
                            want = True          # the object held here IS the value depended on (a leaf of `...param`)
                            continue
                        passes_through = True
                        a, b = _reach(old_obj, tail, what_ or "value"), _reach(new_obj, tail, what_ or "value")
                        if len(a) != len(b) or any(x is not y for x, y in zip(a, b)):
                            want = True
                    events.append(("%s.%s replaced by an object %s" % (inst.name, nme, vdesc), Obj("Event", name=nme, old=old_obj, new=new_obj), want, passes_through and inst is not top))
            for edesc, ev, want_fire, want_rebind in events:
                del rebinds[:]
                del fired[:]
                kw = dict(pk)
                kw["function"] = PyFunc("cb", lambda: fired.append(1))
                try:
                    it.choices, it.cursor, it.imprecise, it.notes, it.steps = [], 0, False, [], 0
                    it.invoke(f_caller, [ev], kw, None)
                except Unsupported as e:
                    raise AnalysisError("depends model: absint cannot interpret _sync_caller/_skip_event: %s" % e)
                except _Raise as r:
                    problems.append("%s: %s: the watcher callback raises %s" % (gdesc, edesc, r.what))
                    continue
                if it.imprecise or it.choices:
                    raise AnalysisError("depends model: _sync_caller/_skip_event not interpretable precisely for %s (%s)" % (gdesc, it.notes[:2]))
                n += 1
                if len(fired) != (1 if want_fire else 0):
                    problems.append("%s: %s: the method runs %d time(s), specification %d (%s)" % (
                        gdesc, edesc, len(fired), 1 if want_fire else 0,
                        "a value reached through one of the dependencies changed" if want_fire else "no value reached through a dependency watched here changed"))
                if want_rebind and not any(o is top and a == "sub" for o, a in rebinds):
                    problems.append("%s: %s: the object that owns the method is not told to re-resolve its dependencies (%s): the watchers below stay on the detached object" % (
                        gdesc, edesc, "told instead: %s" % ", ".join("%s._update_deps(%r)" % (getattr(o, "name", o), a) for o, a in rebinds) if rebinds else "nobody is told"))
    return n, problems


def report_filter(ctx, rule):
    n, problems = path_filter(ctx)
    f = ctx.repo.func(P + "Parameters._watch_group")
    ctx.abstract_cases += n
    if problems:
        ctx.fail(rule, f, f.node, "depends model (sub-path filter): %s (%d disagreeing case(s))" % (problems[0], len(problems)), key=f.qualname + "::sub-path-filter")
    else:
        ctx.ok(rule, f, f.node, "depends model: %d (dependency list, watcher, event) cases over ordered lists of 1..3 of %s: the method runs iff a value reached through one of the "
                                "dependencies sharing the watcher changed; an intermediate replacement tells the parent to re-resolve" % (n, SPECS))


# --------------------------------------------------------------------------------------------------
# (d) resolution of a path dependency: Parameters._spec_to_obj interpreted on chains with a detached link
# --------------------------------------------------------------------------------------------------
def resolution(ctx):
    import re as _re
    f = ctx.repo.func(P + "Parameters._spec_to_obj")
    problems, n = [], 0

    def parse(spec):          # what _parse_dependency_spec documents: (".path" or None, attribute, what)
        spec = spec.strip()
        m = _re.match("(?P<path>[^:]*):?(?P<what>.*)", spec)
        what, path = m.group("what"), "." + m.group("path")
        m = _re.match(r"(?P<obj>.*)(\.)(?P<attr>.*)", path)
        return (m.group("obj") or None, m.group("attr"), what or "value")

    chain = ["a", "b", "c"]
    for spec, cut in [(sp, cut) for sp in ("a.x", "a.b.x", "a.b.c.x", "a.b.c.x:bounds", "a.b.param") for cut in range(0, sp.split(":")[0].count(".") + 1)]:
        # cut = number of sub-objects attached along the path (the next link holds None)
        names = spec.split(":")[0].split(".")
        depth = len(names) - 1
        objs = []
        for i in range(depth + 1):
            o = Obj("top" if i == 0 else "obj_" + "_".join(names[:i]))
            o.attrs["__type__"] = Obj("type_of_" + o.name)
            objs.append(o)
        for i in range(depth + 1):
            o = objs[i]
            pnames = ([names[i]] if i < depth else (["x", "y"] if names[-1] == "param" else [names[-1]]))
            pobjs = {k: Obj("%s.param.%s" % (o.name, k)) for k in pnames}
            ns = Obj("namespace_of_" + o.name, __cls__=P + "Parameters", self_or_cls=o, self=o, cls=o.attrs["__type__"], __contains__=list(pobjs), __getitem__=dict(pobjs), __iter__=list(pobjs))
            o.attrs["param"] = ns
            for k in pnames:
                o.attrs[k] = None
            if i < depth:
                o.attrs[names[i]] = objs[i + 1] if i < cut else None

        def hook(fn, args, kwargs):
            if fn == "_parse_dependency_spec" and len(args) == 1 and isinstance(args[0], str):
                return parse(args[0])
            if fn == "isinstance" and len(args) == 2:
                if isinstance(args[0], str):
                    return False                       # a spec string is not a Parameter
                return False                           # the objects of this world are plain instances: neither classes nor Parameterized / functions
            if fn == "hasattr" and len(args) == 2:
                return isinstance(args[0], Obj) and args[1] in args[0].attrs
            if fn == "type" and len(args) == 1 and isinstance(args[0], Obj):
                return args[0].attrs.get("__type__")
            if fn == "_getattrr" and len(args) >= 2 and isinstance(args[1], str):
                cur = args[0]
                for a in args[1].split("."):
                    if isinstance(cur, Obj) and a in cur.attrs:
                        cur = cur.attrs[a]
                    elif len(args) > 2:
                        return args[2]
                    else:
                        raise Unsupported("_getattrr(%r, %r)" % (args[0], args[1]))
                return cur
            return NotImplemented
        it = Interp(ctx.hier, dyn=P + "Parameters", inline=lambda m: m == "_spec_to_obj", call_hook=hook, strict_self_calls=True, max_steps=60000)
        try:
            outs = it.run_all(f, {"self_": objs[0].attrs["param"], "spec": spec, "dynamic": True, "intermediate": True})
        except Unsupported as e:
            raise AnalysisError("depends model: absint cannot interpret Parameters._spec_to_obj: %s" % e)
        if len(outs) != 1 or outs[0].imprecise:
            raise AnalysisError("depends model: Parameters._spec_to_obj is not interpretable precisely on %r (%s)" % (spec, outs[0].notes[:2] if outs else "no outcome"))
        n += 1
        desc = "dependency %r with %s" % (spec, "the whole path attached" if cut == depth else "%s holding None" % ".".join(["self"] + names[:cut + 1]))
        if outs[0].kind != "return" or not (isinstance(outs[0].value, tuple) and len(outs[0].value) == 2 and isinstance(outs[0].value[0], list)):
            problems.append("%s: resolution %s" % (desc, "raises %s" % outs[0].value if outs[0].kind == "raise" else "returns %r" % (outs[0].value,)))
            continue
        got = []
        for d in outs[0].value[0]:
            kw = getattr(d, "kwargs", None)
            if not isinstance(kw, dict):
                raise AnalysisError("depends model: _spec_to_obj returned something that is not a keyword-built PInfo (%r)" % (d,))
            got.append((kw.get("inst"), kw.get("name"), kw.get("what")))
        want = []
        what = spec.partition(":")[2] or "value"
        # with the root attribute itself holding None nothing needs watching: every assignment of the root re-resolves (R07.c)
        for i in range(0 if cut == 0 else min(cut, depth - 1) + 1):
            want.append((objs[i], names[i], "value"))
        if cut == depth:
            leafs = ["x", "y"] if names[-1] == "param" else [names[-1]]
            want += [(objs[depth], k, what) for k in leafs]
        miss = [w for w in want if not any(g[0] is w[0] and g[1] == w[1] and g[2] == w[2] for g in got)]
        extra = [g for g in got if not any(g[0] is w[0] and g[1] == w[1] and g[2] == w[2] for w in want) and not (cut == 0 and g[0] is objs[0] and g[1] == names[0])]
        dup = len(got) > len(want) + (1 if cut == 0 else 0) and not miss and not extra
        if miss:
            problems.append("%s: %s.%s is not among the parameters to watch: %s" % (desc, miss[0][0].name, miss[0][1],
                            "attaching an object there later is never noticed" if miss[0][0] is not objs[depth] or cut < depth else "the leaf is not watched"))
        elif extra or dup:
            problems.append("%s: the resolution yields %s, specification %s" % (desc, [(getattr(g[0], "name", g[0]), g[1], g[2]) for g in got], [(w[0].name, w[1], w[2]) for w in want]))
    return n, problems


def class_level_resolution(ctx):
    """Parameters._spec_to_obj on a CLASS B(A) (this is what the metaclass records) for the plain specs 'a' -- a Parameter
    inherited from A, so its `owner` is A -- and 'b' -- declared on B.

    Specification: both dependencies carry inst=None and cls=B, the class the spec was resolved on: _update_deps groups the
    dependencies of a method by (instance, class, kind) and installs ONE watcher per group; two groups for one object mean
    two watchers, i.e. the method runs twice for one update / batch that changes both."""
    f = ctx.repo.func(P + "Parameters._spec_to_obj")
    A, B = Obj("class_A", __is_class__=True), Obj("class_B", __is_class__=True)
    pa, pb = Obj("Parameter_a_declared_on_A", owner=A, name="a"), Obj("Parameter_b_declared_on_B", owner=B, name="b")
    ns = Obj("namespace_of_B", __cls__=P + "Parameters", self_or_cls=B, self=None, cls=B, __contains__=["a", "b"], __getitem__={"a": pa, "b": pb}, __iter__=["a", "b"])
    B.attrs["param"] = ns
    got = {}
    for spec in ("a", "b", "a:bounds"):
        def hook(fn, args, kwargs):
            if fn == "_parse_dependency_spec" and len(args) == 1:
                nm, _, what = args[0].partition(":")
                return (None, nm, what or "value")
            if fn == "isinstance" and len(args) == 2:
                if isinstance(args[0], str):
                    return False
                if args[1] == "<type type>":
                    return isinstance(args[0], Obj) and bool(args[0].attrs.get("__is_class__"))
                return False
            if fn == "hasattr" and len(args) == 2:
                return isinstance(args[0], Obj) and args[1] in args[0].attrs
            if fn == "type" and len(args) == 1:
                return Obj("metaclass")
            return NotImplemented
        it = Interp(ctx.hier, dyn=P + "Parameters", inline=lambda m: m == "_spec_to_obj", call_hook=hook, strict_self_calls=True)
        try:
            outs = it.run_all(f, {"self_": ns, "spec": spec, "dynamic": False, "intermediate": True})
        except Unsupported as e:
            raise AnalysisError("depends model: absint cannot interpret Parameters._spec_to_obj at class level: %s" % e)
        if len(outs) != 1 or outs[0].imprecise or outs[0].kind != "return" or not (isinstance(outs[0].value, tuple) and isinstance(outs[0].value[0], list) and len(outs[0].value[0]) == 1):
            raise AnalysisError("depends model: Parameters._spec_to_obj is not interpretable precisely at class level on %r (%s)" % (spec, outs[0].notes[:2] if outs else "no outcome"))
        kw = getattr(outs[0].value[0][0], "kwargs", None)
        if not isinstance(kw, dict):
            raise AnalysisError("depends model: _spec_to_obj returned something that is not a keyword-built PInfo")
        got[spec] = kw
    problems = []
    for spec, kw in got.items():
        if kw.get("inst") is not None or kw.get("cls") is not B:
            problems.append("on class B(A) the dependency %r resolves to (inst=%s, cls=%s), specification (inst=None, cls=B -- the class it was resolved on, also for a Parameter inherited from A): "
                            "with another class in the group key a method depending on an inherited and a locally declared parameter gets two watchers and runs twice for one update of both" % (
                                spec, getattr(kw.get("inst"), "name", kw.get("inst")), getattr(kw.get("cls"), "name", kw.get("cls"))))
    return len(got), problems


def report_resolution(ctx, rule):
    n, problems = resolution(ctx)
    n2, p2 = class_level_resolution(ctx)
    n, problems = n + n2, problems + p2
    f = ctx.repo.func(P + "Parameters._spec_to_obj")
    ctx.abstract_cases += n
    if problems:
        ctx.fail(rule, f, f.node, "depends model (path resolution): %s (%d disagreeing case(s))" % (problems[0], len(problems)), key=f.qualname + "::path-resolution")
    else:
        ctx.ok(rule, f, f.node, "depends model: %d (path, detached link) cases: every parameter on the path whose holder exists is among the parameters to watch, the leaves iff the whole path is attached" % n)


# --------------------------------------------------------------------------------------------------
# (e) the function form: depends(<Parameter objects>, watch=True)(func)
# --------------------------------------------------------------------------------------------------
def function_form(ctx):
    """param.depends interpreted for a function with Parameter-object dependencies given in interleaved order
    (a.x, b.y, a.z positional, w=a.w as keyword), watch=True.  Specification: exactly one watcher per owner object,
    watching all of that owner's dependency names, all with the same callback (so that one update / batch changing
    several of them runs the function once); _dinfo records dependencies / kw / watch / on_init."""
    f = ctx.repo.func("param.depends.depends")
    problems, n = [], 0
    for order in (("ax", "by", "az"), ("ax", "az", "by"), ("by", "ax", "az")):
        A, B = Obj("object_a"), Obj("object_b")
        for o in (A, B):
            o.attrs["param"] = Obj("namespace_of_" + o.name, owner_obj=o)
        P_ = {"ax": Obj("a.param.x", owner=A, name="x", __kind__="Parameter"), "az": Obj("a.param.z", owner=A, name="z", __kind__="Parameter"),
              "by": Obj("b.param.y", owner=B, name="y", __kind__="Parameter"), "aw": Obj("a.param.w", owner=A, name="w", __kind__="Parameter")}
        func = Obj("user_function", __callable__=True)
        watched = []

        def hook(fn, args, kwargs):
            recv = getattr(hook.it, "current_receiver", None)
            if fn == "transform_reference" and args:
                return args[0]
            if fn in ("inspect.isgeneratorfunction", "inspect.isasyncgenfunction", "iscoroutinefunction"):
                return False
            if fn == "isinstance" and len(args) == 2:
                subj, spec = args
                if spec == "<type str>":
                    return isinstance(subj, str)
                if isinstance(subj, Obj) and subj.attrs.get("__kind__") == "Parameter":
                    return spec in ("Parameter", "<Parameter>")
                if subj is A or subj is B:
                    return spec in ("Parameterized", "<Parameterized>")
                return False
            if fn == "hasattr" and len(args) == 2:
                return isinstance(args[0], Obj) and args[1] in args[0].attrs
            if fn == "wraps":
                return PyFunc("wraps_decorator", lambda g: g)
            if fn.endswith(".param.watch") and len(args) >= 2:
                watched.append((recv.attrs.get("owner_obj") if isinstance(recv, Obj) else None, args[0], list(args[1]) if isinstance(args[1], (list, tuple)) else args[1]))
                return Obj("watcher")
            return NotImplemented
        hook.needs_receiver = True
        it = Interp(ctx.hier, call_hook=hook, globals={"Parameter": "Parameter", "Parameterized": "Parameterized", "ParameterizedMetaclass": "ParameterizedMetaclass"})
        hook.it = it
        try:
            outs = it.run_all(f, {"func": func, "dependencies": tuple(P_[k] for k in order), "watch": True, "on_init": False, "kw": {"w": P_["aw"]}})
        except Unsupported as e:
            raise AnalysisError("depends model: absint cannot interpret param.depends (function form): %s" % e)
        if len(outs) != 1 or outs[0].imprecise or outs[0].kind != "return":
            raise AnalysisError("depends model: param.depends is not interpretable precisely (%s)" % (outs[0].notes[:2] if outs else "no outcome"))
        n += 1
        desc = "depends(%s, w=a.param.w, watch=True)" % ", ".join(P_[k].name for k in order)
        for owner, want_names in ((A, [P_[k].attrs["name"] for k in order if k[0] == "a"] + ["w"]), (B, ["y"])):
            mine = [w for w in watched if w[0] is owner]
            if len(mine) != 1:
                problems.append("%s installs %d watcher(s) on %s, specification one: an update or batch that changes two of its parameters runs the function %s" % (
                    desc, len(mine), owner.name, "once per watcher" if mine else "never"))
            elif sorted(mine[0][2]) != sorted(want_names):
                problems.append("%s: the watcher on %s watches %s, specification %s" % (desc, owner.name, mine[0][2], want_names))
        if len({id(w[1]) for w in watched}) > 1:
            problems.append("%s: the watchers do not share one callback" % desc)
    return n, problems


def report_function_form(ctx, rule):
    n, problems = function_form(ctx)
    f = ctx.repo.func("param.depends.depends")
    ctx.abstract_cases += n
    if problems:
        ctx.fail(rule, f, f.node, "depends model (function form): %s (%d disagreeing case(s))" % (problems[0], len(problems)), key=f.qualname + "::function-form")
    else:
        ctx.ok(rule, f, f.node, "depends model: the function form installs exactly one watcher per owner object for interleaved Parameter dependencies (%d orders)" % n)


# --------------------------------------------------------------------------------------------------
# (f) method-name recursion: _params_depended_on
# --------------------------------------------------------------------------------------------------
def method_recursion(ctx):
    """_params_depended_on interpreted for a method m declared depends(<direct specs>, 'helper') where helper is another
    method with its own dependencies -- among them a slot of a parameter whose VALUE m also depends on directly, in either
    order, and a dynamic (sub-object) spec.  Specification: the result covers every (parameter, what) pair that m or
    helper (transitively) names -- 'a' and 'a:bounds' are different dependencies -- and every dynamic spec; a method
    without a declaration depends on every parameter of the class."""
    f = ctx.repo.func(P + "_params_depended_on")
    problems, n = [], 0
    cls = Obj("Cls")
    pinfo = lambda name, what="value": Obj("PInfo(%s:%s)" % (name, what), inst=None, cls=cls, name=name, what=what, __kind__="PInfo")
    A_VAL, A_BND, B_VAL, C_VAL = pinfo("a"), pinfo("a", "bounds"), pinfo("b"), pinfo("c")
    DYN = Obj("DInfo(sub.x)", spec="sub.x")
    for order, outer_dynamic in [(o, d) for o in (("a", "helper"), ("helper", "a"), ("b", "helper", "a")) for d in (True, False)]:
        flags = []
        helper_method = Obj("helper_function", _dinfo={"dependencies": ["a:bounds", "c", "sub.x"], "watch": False})
        helper = Obj("MInfo(helper)", inst=None, cls=cls, name="helper", method=helper_method, __kind__="MInfo")
        m_method = Obj("m_function", _dinfo={"dependencies": list(order), "watch": True})
        minfo = Obj("MInfo(m)", inst=None, cls=cls, name="m", method=m_method, __kind__="MInfo")
        table = {"a": ([A_VAL], []), "b": ([B_VAL], []), "c": ([C_VAL], []), "a:bounds": ([A_BND], []), "helper": ([helper], []), "sub.x": ([], [DYN])}
        cls.attrs["param"] = Obj("class_namespace", __iter__=["a", "b", "c"])

        def hook(fn, args, kwargs):
            if fn.endswith(".param._spec_to_obj") and args and args[0] in table:
                flags.append((args[0], args[1] if len(args) > 1 else kwargs.get("dynamic", True), args[2] if len(args) > 2 else kwargs.get("intermediate", True)))
                d, dd = table[args[0]]
                return (list(d), list(dd))
            if fn == "isinstance" and len(args) == 2:
                return isinstance(args[0], Obj) and args[0].attrs.get("__kind__") == "PInfo"
            return NotImplemented
        it = Interp(ctx.hier, call_hook=hook, inline_module_functions=True, globals={"PInfo": "PInfo"})
        try:
            outs = it.run_all(f, {"minfo": minfo, "dynamic": outer_dynamic, "intermediate": True})
        except Unsupported as e:
            raise AnalysisError("depends model: absint cannot interpret _params_depended_on: %s" % e)
        if len(outs) != 1 or outs[0].imprecise or outs[0].kind != "return" or not (isinstance(outs[0].value, tuple) and len(outs[0].value) == 2):
            raise AnalysisError("depends model: _params_depended_on is not interpretable precisely (%s)" % (outs[0].notes[:2] if outs else "no outcome"))
        n += 1
        deps, dyn = outs[0].value
        if not isinstance(deps, list) or not isinstance(dyn, list):
            raise AnalysisError("depends model: _params_depended_on returns something the model cannot read (%r)" % (outs[0].value,))
        desc = "m declared depends(%s, watch=True) with helper declared depends('a:bounds', 'c', 'sub.x')" % ", ".join(repr(x) for x in order)
        want = [A_VAL, A_BND, C_VAL] + ([B_VAL] if "b" in order else [])
        for w in want:
            if not any(d is w for d in deps):
                problems.append("%s: the dependency on %s:%s is lost (m is never called when it changes)" % (desc, w.attrs["name"], w.attrs["what"]))
        extra = [d for d in deps if not any(d is w for w in want)]
        if extra:
            problems.append("%s: unexpected dependencies %s" % (desc, [x.name for x in extra]))
        if not any(d is DYN for d in dyn):
            problems.append("%s: the dynamic dependency of the helper ('sub.x') is lost" % desc)
        # how the specs are to be resolved -- at class creation (dynamic=False: sub-object paths stay dynamic) or on an
        # instance -- is the caller's decision for the WHOLE dependency tree, the specs of a named method included
        wrong = [fl for fl in flags if fl[1] is not outer_dynamic or fl[2] is not True]
        if wrong:
            problems.append("%s, resolved with dynamic=%s: the spec %r of the tree is resolved with dynamic=%s, intermediate=%s -- at class creation a path declared through a named method "
                            "('sub.x') is resolved against the CLASS default object once and for all: instances watch that never-attached object and never rebind to the one they hold" % (
                                desc, outer_dynamic, wrong[0][0], wrong[0][1], wrong[0][2]))
    return n, problems


def report_method_recursion(ctx, rule):
    n, problems = method_recursion(ctx)
    f = ctx.repo.func(P + "_params_depended_on")
    ctx.abstract_cases += n
    if problems:
        ctx.fail(rule, f, f.node, "depends model (method-name recursion): %s (%d disagreeing case(s))" % (problems[0], len(problems)), key=f.qualname + "::method-recursion")
    else:
        ctx.ok(rule, f, f.node, "depends model: a dependency on another method brings in every (parameter, what) pair and dynamic spec that method names (%d orders)" % n)


# --------------------------------------------------------------------------------------------------
# (g) a group of constant dependencies that names a parameter twice
# --------------------------------------------------------------------------------------------------
def constant_group(ctx):
    """Parameters._watch_group interpreted for a group of CONSTANT dependencies in which the same parameter occurs twice
    (the method depends on `a` directly and again through a method it names) next to `b`.  Specification: one watcher,
    whose parameter list holds each name once (a watcher registered twice for a parameter is called twice per plain
    assignment), no change filter, no re-resolve callback."""
    f = ctx.repo.func(P + "Parameters._watch_group")
    problems, n = [], 0
    top = Obj("instance", cb=Obj("bound_method_cb"))
    top.attrs["param"] = Obj("namespace", owner_obj=top)
    cls = Obj("Cls")
    mk = lambda nm: Obj("PInfo(%s)" % nm, inst=top, cls=cls, name=nm, what="value")
    for names in (["a", "a", "b"], ["a", "b", "a"], ["a", "a", "a"]):
        group = [(None, mk(x)) for x in names]
        installed = []

        def hook(fn, args, kwargs):
            if fn == "iscoroutinefunction":
                return False
            if fn == "partial" and args:
                return Obj("partial", func=args[0], kwargs=dict(kwargs))
            if fn.endswith(".param._watch") and len(args) >= 2:
                installed.append((args[0], list(args[1]) if isinstance(args[1], list) else args[1], args[2] if len(args) > 2 else kwargs.get("what", "value")))
                return Obj("watcher")
            return NotImplemented
        it = Interp(ctx.hier, dyn=P + "Parameters", inline=lambda m: m == "_resolve_dynamic_deps", call_hook=hook, inline_module_functions=True,
                    globals={"_sync_caller": Obj("_sync_caller"), "_async_caller": Obj("_async_caller")}, strict_self_calls=True)
        try:
            outs = it.run_all(f, {"self_": Obj("ns", self=top), "obj": top, "name": "cb", "queued": False, "group": list(group), "attribute": None})
        except Unsupported as e:
            raise AnalysisError("depends model: absint cannot interpret Parameters._watch_group (constant group): %s" % e)
        if len(outs) != 1 or outs[0].imprecise or outs[0].kind != "return" or len(installed) != 1:
            raise AnalysisError("depends model: Parameters._watch_group is not interpretable precisely on a constant group (%s)" % (outs[0].notes[:2] if outs else "no outcome"))
        n += 1
        mcaller, params, what = installed[0]
        want = []
        for x in names:
            if x not in want:
                want.append(x)
        if not isinstance(params, list) or sorted(params) != sorted(want):
            problems.append("a method whose constant dependencies name %s installs a watcher for %s, specification each name once (%s): the watcher is registered once per listed name, so "
                            "one plain assignment of a repeated parameter calls the method more than once" % (names, params, want))
        kw = mcaller.attrs.get("kwargs", {}) if isinstance(mcaller, Obj) else {}
        if kw.get("changed") is not None or kw.get("callback") is not None:
            problems.append("a group of constant dependencies gets a change filter / callback (%r)" % ({k: kw.get(k) for k in ("changed", "callback")},))
    return n, problems


def report_constant_group(ctx, rule):
    n, problems = constant_group(ctx)
    f = ctx.repo.func(P + "Parameters._watch_group")
    ctx.abstract_cases += n
    if problems:
        ctx.fail(rule, f, f.node, "depends model (constant group): %s (%d disagreeing case(s))" % (problems[0], len(problems)), key=f.qualname + "::constant-group")
    else:
        ctx.ok(rule, f, f.node, "depends model: a constant group that names a parameter twice yields one watcher listing each name once (%d groups)" % n)


# --------------------------------------------------------------------------------------------------
# (h) a path root replaced more than once inside ONE batch
# --------------------------------------------------------------------------------------------------
def batch_rebind(ctx):
    """Every assignment of a path root rebuilds the dynamic watchers of the methods that pass through it (new Watcher
    objects), and the batch queue tells watchers apart by identity.  Interpreted in sequence, with a batch open on the
    instance and the watcher of `meth` on the root attribute ALREADY queued by an earlier replacement of the same batch:

      Parameters._update_deps('sub')  ->  Parameters._call_watcher(<the rebuilt watcher>, <the second event>)
      ->  Parameters._batch_call_watchers()

    Specification (C06: once per batch; C07: exactly once): the flush executes exactly ONE watcher on behalf of `meth`;
    a watcher of another method queued in the same batch still runs once."""
    upd = ctx.repo.func(P + "Parameters._update_deps")
    cw = ctx.repo.func(P + "Parameters._call_watcher")
    fl = ctx.repo.func(P + "Parameters._batch_call_watchers")
    # the installation of one watcher is taken as given (R07.a interprets it): it must not touch the batch queue itself
    for q in ("Parameters._watch_group", "Parameters._watch", "Parameters._resolve_dynamic_deps", "Parameters._register_watcher"):
        g = ctx.repo.funcs.get(P + q)
        if g is None:
            continue
        if any(isinstance(n, ast.Attribute) and n.attr in ("_state_watchers", "parameters_state") for n in ast.walk(g.node)):
            raise AnalysisError("depends model (batch rebind): %s touches the batch queue; the model takes the installation of one watcher as given and cannot decide" % q)
    problems, n = [], 0
    for other_queued in (False, True):
        old_sub, new_sub, top = Obj("old_sub_object"), Obj("new_sub_object"), Obj("instance")
        the_cls, sub_cls = Obj("Cls"), Obj("SubCls")
        dyn = Obj("dynamic_dep_sub.x", spec="sub.x")
        table = [("meth", False, False, [], [dyn])]

        def mkw(name, inst, cls, names, method):
            return Obj(name, inst=inst, cls=cls, what="value", parameter_names=tuple(names), onlychanged=True, queued=False, precedence=-1, mode="args",
                       fn=Obj("caller_of_" + name), method=method)
        w_top_old = mkw("watcher_of_meth_on_the_instance_before", top, the_cls, ["sub"], "meth")
        w_sub_old = mkw("watcher_of_meth_on_the_detached_sub_object", old_sub, sub_cls, ["x"], "meth")
        w_user = mkw("watcher_of_somebody_else", top, the_cls, ["sub"], "other")
        import collections
        dyn_watchers = collections.defaultdict(list)
        dyn_watchers["meth"] += [w_top_old, w_sub_old]
        ev1 = Obj("first_replacement_event", name="sub", what="value", id="ev1")
        ev2 = Obj("second_replacement_event", name="sub", what="value", id="ev2")
        top.attrs["_param__private"] = Obj("private", dynamic_watchers=dyn_watchers)
        top.attrs["meth"] = Obj("bound_meth", __name__="meth")
        queue = [w_top_old] + ([w_user] if other_queued else [])
        ns = Obj("ns", self=top, self_or_cls=top, _BATCH_WATCH=True, _TRIGGER=False, _events=[ev1], _state_watchers=queue, owner_obj=top)
        ns.attrs["cls"] = the_cls
        top.attrs["param"] = ns
        the_cls.attrs["param"] = Obj("class_namespace", _depends={"watch": table})
        top.attrs["__type__"] = the_cls
        for o in (old_sub, new_sub):
            o.attrs["param"] = Obj("param_of_" + o.name, owner_obj=o, self=o, self_or_cls=o, _BATCH_WATCH=False, _TRIGGER=False, _events=[], _state_watchers=[])
        installed, runs = [], []

        def hook(fn, args, kwargs):
            if fn == "type" and args and args[0] is top:
                return the_cls
            if fn == "_resolve_mcs_deps" and len(args) == 3:
                out = []
                for d in args[2]:
                    out.append(Obj("resolved_sub", inst=top, cls=the_cls, what="value", name="sub", src=d))
                    out.append(Obj("resolved_sub.x", inst=new_sub, cls=sub_cls, what="value", name="x", src=d))
                return out
            if fn == "self_._watch_group":
                if len(args) > 5 or set(kwargs) - {"attribute"}:
                    raise AnalysisError("depends model (batch rebind): _watch_group is called with arguments the model does not know (%d positional, %s)" % (len(args), sorted(kwargs)))
                group = args[3]
                dep = group[0][1]
                w = mkw("rebuilt_watcher_%d" % len(installed), dep.attrs["inst"], dep.attrs["cls"], [g[1].attrs["name"] for g in group], args[1])
                installed.append(w)
                return w
            if fn.endswith(".param.unwatch") and len(args) == 1:
                return None
            if fn.endswith("._changed"):
                return True
            if fn.endswith("._update_event_type"):
                return args[1]
            if fn == "_batch_call_watchers":
                return Obj("scope")
            if fn.endswith("._execute_watcher"):
                runs.append(args[0])
                return None
            return NotImplemented
        it = Interp(ctx.hier, dyn=P + "Parameters", inline=lambda m: m not in ("_watch_group", "_changed", "_update_event_type", "_execute_watcher"), call_hook=hook)
        try:
            outs = it.run_all(upd, {"self_": ns, "attribute": "sub", "init": False})
            if len(outs) != 1 or outs[0].imprecise or outs[0].kind != "return":
                raise AnalysisError("depends model (batch rebind): Parameters._update_deps is not interpretable precisely (%s)" % (outs[0].notes[:2] if outs else "no outcome"))
            new_top = [w for w in installed if w.attrs["inst"] is top]
            if len(new_top) != 1:
                raise AnalysisError("depends model (batch rebind): %d watcher(s) rebuilt on the instance for one path (R07.b decides the rebinding itself)" % len(new_top))
            # the assignment's own dispatch: the registered watchers of `sub`, i.e. the rebuilt one (and the other party's)
            for w in ([w_user] if other_queued else []) + new_top:
                outs = it.run_all(cw, {"self_": ns, "watcher": w, "event": ev2})
                if len(outs) != 1 or outs[0].imprecise or outs[0].kind != "return":
                    raise AnalysisError("depends model (batch rebind): Parameters._call_watcher is not interpretable precisely (%s)" % (outs[0].notes[:2] if outs else "no outcome"))
            ns.attrs["_BATCH_WATCH"] = False
            outs = it.run_all(fl, {"self_": ns})
            if len(outs) != 1 or outs[0].imprecise or outs[0].kind != "return":
                raise AnalysisError("depends model (batch rebind): Parameters._batch_call_watchers is not interpretable precisely (%s)" % (outs[0].notes[:2] if outs else "no outcome"))
        except Unsupported as e:
            raise AnalysisError("depends model (batch rebind): absint cannot interpret the rebinding / dispatch / flush sequence: %s" % e)
        n += 1
        mine = [w for w in runs if w.attrs.get("method") == "meth"]
        if len(mine) != 1:
            problems.append("a batch that replaces the sub-object of a path dependency twice executes %d watcher(s) on behalf of the dependent method at the flush (%s), specification exactly 1: every "
                            "assignment of the path root rebuilds the method's watchers, the queue tells watchers apart by identity, so the replaced watcher and its successor are both queued" % (
                                len(mine), ", ".join(w.name for w in mine) or "none"))
        if other_queued and len([w for w in runs if w is w_user]) != 1:
            problems.append("a watcher of another party queued in the same batch runs %d time(s) at the flush after a path root was replaced twice, specification 1" % len([w for w in runs if w is w_user]))
    return n, problems


def report_batch_rebind(ctx, rule):
    n, problems = batch_rebind(ctx)
    g = ctx.repo.func(P + "Parameters._update_deps")
    ctx.abstract_cases += n
    if problems:
        ctx.fail(rule, g, g.node, "depends model (batch rebind): %s (%d problem(s))" % (problems[0], len(problems)), key=g.qualname + "::batch-rebind",
                 input="with batch_call_watchers(o): o.sub = S(x=2); o.sub = S(x=3)   # @depends('sub.x', watch=True) method")
    else:
        ctx.ok(rule, g, g.node, "depends model: a path root replaced twice inside one batch -- the rebuilt watcher takes the queue slot of the watcher it replaces; the method runs once at the flush (%d cases)" % n)


# --------------------------------------------------------------------------------------------------
# (i) binding the class-level dependencies to the instance
# --------------------------------------------------------------------------------------------------
def resolve_mcs(ctx):
    """_resolve_mcs_deps interpreted for a method whose class-level dependencies name the same parameter under two kinds
    (`p` and `p:bounds`, in both orders), another parameter, and a dependency owned by a foreign class.

    Specification: the result holds, in order, one entry per input entry; an entry owned by the object's class is bound
    to the instance (inst = the object, pobj = the instance's Parameter of that name) and keeps its own name AND kind
    (`what`); a foreign entry passes through unchanged."""
    f = ctx.repo.func(P + "_resolve_mcs_deps")
    problems, n = [], 0
    for order in (("value", "bounds"), ("bounds", "value")):
        the_cls, foreign = Obj("Cls"), Obj("ForeignCls")
        pobjs = {"p": Obj("instance_Parameter_p"), "q": Obj("instance_Parameter_q")}
        obj = Obj("instance", param=Obj("namespace", __getitem__=pobjs))
        deps = [Obj("dep_p_%s" % order[0], inst=None, cls=the_cls, name="p", pobj=Obj("class_Parameter_p"), what=order[0]),
                Obj("dep_q_value", inst=None, cls=the_cls, name="q", pobj=Obj("class_Parameter_q"), what="value"),
                Obj("dep_p_%s" % order[1], inst=None, cls=the_cls, name="p", pobj=Obj("class_Parameter_p"), what=order[1]),
                Obj("dep_foreign", inst=None, cls=foreign, name="z", pobj=Obj("foreign_Parameter"), what="value")]
        # two links of a path through two instances of one class whose parameter is declared per_instance=False: both
        # entries carry the SAME (class-level) Parameter object and differ in the instance only -- they are two watch points
        shared = Obj("shared_class_level_Parameter_child")
        deps += [Obj("dep_link_on_root", inst=Obj("root_node"), cls=foreign, name="child", pobj=shared, what="value"),
                 Obj("dep_link_on_mid", inst=Obj("mid_node"), cls=foreign, name="child", pobj=shared, what="value")]

        def hook(fn, args, kwargs):
            if fn == "type" and args and args[0] is obj:
                return the_cls
            if fn == "issubclass" and len(args) == 2:
                return args[0] is args[1]
            if fn == "PInfo":
                return Obj("bound_dependency", **kwargs) if not args else NotImplemented
            return NotImplemented
        it = Interp(ctx.hier, call_hook=hook)
        try:
            outs = it.run_all(f, {"obj": obj, "resolved": list(deps), "dynamic": [], "intermediate": True})
        except Unsupported as e:
            raise AnalysisError("depends model: absint cannot interpret _resolve_mcs_deps: %s" % e)
        if len(outs) != 1 or outs[0].imprecise or outs[0].kind != "return" or not isinstance(outs[0].value, list):
            raise AnalysisError("depends model: _resolve_mcs_deps is not interpretable precisely (%s)" % (outs[0].notes[:2] if outs else "no outcome"))
        n += 1
        got = outs[0].value
        if len(got) != len(deps):
            problems.append("%d dependencies in, %d out (two of them are links of one path on two instances of a class whose parameter is per_instance=False: the same Parameter object, two watch points)" % (len(deps), len(got)))
            continue
        for d, g in zip(deps, got):
            if d.attrs["cls"] is foreign:
                if g is not d:
                    problems.append("a dependency owned by another class does not pass through unchanged")
                continue
            if not isinstance(g, Obj) or g.attrs.get("inst") is not obj or g.attrs.get("pobj") is not pobjs[d.attrs["name"]]:
                problems.append("the dependency on %s is not bound to the instance and its own Parameter" % d.attrs["name"])
            elif g.attrs.get("name") != d.attrs["name"] or g.attrs.get("what") != d.attrs["what"]:
                problems.append("depends('p', 'p:bounds') (declared in the order %s): the entry for (%s, %s) comes back as (%s, %s) -- only one kind of watcher is installed, the method no longer "
                                "runs for the other kind of change" % (", ".join(order), d.attrs["name"], d.attrs["what"], g.attrs.get("name"), g.attrs.get("what")))
    return n, problems


def report_resolve_mcs(ctx, rule):
    n, problems = resolve_mcs(ctx)
    f = ctx.repo.func(P + "_resolve_mcs_deps")
    ctx.abstract_cases += n
    if problems:
        ctx.fail(rule, f, f.node, "depends model (instance binding): %s (%d problem(s))" % (problems[0], len(problems)), key=f.qualname + "::instance-binding",
                 input="@depends('p', 'p:bounds', watch=True) def cb; obj.param.p.bounds = (0, 5) -> cb not called")
    else:
        ctx.ok(rule, f, f.node, "depends model: _resolve_mcs_deps binds every class-level dependency to the instance with its own name and kind, in order; foreign entries pass through (%d cases)" % n)


# --------------------------------------------------------------------------------------------------
# (j) the dotted-path helper the change filter reads leaf values with
# --------------------------------------------------------------------------------------------------
def getattrr(ctx):
    """_getattrr(obj, 'a.b.x', <default>) interpreted on: the path resolving to a truthy leaf, to a FALSY leaf (0, '',
    False, () -- a value like any other), to None; a path broken at the first / second link (attribute missing), with
    and without a default.

    Specification: a resolving path gives the very leaf object; a broken path gives the default when there is one and
    raises AttributeError otherwise."""
    f = ctx.repo.func(P + "_getattrr")
    problems, n = [], 0
    MISSING = object()
    for leaf_kind, broken, with_default in [(k, b, d) for k in ("truthy", "falsy", "none") for b in (None,) for d in (True, False)] + [("truthy", b, d) for b in (1, 2) for d in (True, False)]:
        leaf = None if leaf_kind == "none" else Obj("leaf_value_" + leaf_kind)
        if leaf_kind == "falsy":
            leaf.attrs["__bool__"] = False
        b_obj = Obj("object_b", x=leaf)
        a_obj = Obj("object_a", **({} if broken == 2 else {"b": b_obj}))
        root = Obj("root", **({} if broken == 1 else {"a": a_obj}))
        for o in (root, a_obj, b_obj):
            o.attrs["__strict_attrs__"] = True
        default = Obj("the_default")

        def hook(fn, args, kwargs):
            if fn == "getattr" and len(args) in (2, 3) and isinstance(args[1], str):
                o = args[0]
                if isinstance(o, Obj) and args[1] in o.attrs:
                    return o.attrs[args[1]]
                if len(args) == 3:
                    return args[2]
                raise _Raise("AttributeError")
            return NotImplemented
        it = Interp(ctx.hier, call_hook=hook)
        try:
            outs = it.run_all(f, {"obj": root, "attr": "a.b.x", "args": (default,) if with_default else ()})
        except Unsupported as e:
            raise AnalysisError("depends model: absint cannot interpret _getattrr: %s" % e)
        if len(outs) != 1 or outs[0].imprecise:
            raise AnalysisError("depends model: _getattrr is not interpretable precisely (%s)" % (outs[0].notes[:2] if outs else "no outcome"))
        n += 1
        o = outs[0]
        if o.kind == "return" and o.value is TOP:
            raise AnalysisError("depends model: _getattrr returns a value the interpreter cannot follow (TOP)")
        desc = "_getattrr(root, 'a.b.x'%s) where %s" % (", default" if with_default else "", "the path resolves to %s" % {"truthy": "an ordinary value", "falsy": "a FALSY value (0, '', False, ())",
                                                           "none": "None"}[leaf_kind] if broken is None else "link %d of the path is missing" % broken)
        if broken is None:
            if o.kind != "return" or o.value is not leaf:
                problems.append("%s gives %s, specification: the very leaf value -- the change filter reads old and new leaf values with it: a falsy value read as the default compares equal to "
                                "None, and attaching an object whose leaf went None -> 0 is not noticed" % (desc, "an exception" if o.kind != "return" else getattr(o.value, "name", o.value)))
        elif with_default:
            if o.kind != "return" or o.value is not default:
                problems.append("%s gives %s, specification: the default" % (desc, "an exception" if o.kind != "return" else getattr(o.value, "name", o.value)))
        elif o.kind != "raise":
            problems.append("%s returns %s, specification: AttributeError" % (desc, getattr(o.value, "name", o.value)))
    return n, problems


def report_getattrr(ctx, rule):
    n, problems = getattrr(ctx)
    f = ctx.repo.func(P + "_getattrr")
    ctx.abstract_cases += n
    if problems:
        ctx.fail(rule, f, f.node, "depends model (path helper): %s (%d problem(s))" % (problems[0], len(problems)), key=f.qualname + "::path-helper",
                 input="@depends('sub.x', watch=True) def cb; sub.x is None; obj.sub = Sub(x=0) -> cb not called")
    else:
        ctx.ok(rule, f, f.node, "depends model: _getattrr returns the very leaf value (falsy ones included), the default for a broken path, AttributeError without one (%d cases)" % n)


# --------------------------------------------------------------------------------------------------
# (k) the change filter on SEVERAL events of one batch
# --------------------------------------------------------------------------------------------------
def skip_event_multi(ctx):
    """_skip_event interpreted with TWO replacement events delivered together (`mid.param.update(left=.., right=..)`: one
    watcher watches both attributes) whose sub-objects share the relative leaf path `x`, for every combination of
    (left.x changed?, right.x changed?), with the per-parameter dict form of `changed` and the list form.

    Specification: the events are skipped (True) iff NO compared value differs -- each event's own old / new objects are
    compared."""
    f = ctx.repo.func(P + "_skip_event")
    UNDEF = Obj("Undefined")
    problems, n = [], 0
    for form in ("dict", "list"):
        for lch, rch in itertools.product([False, True], repeat=2):
            vals = {}

            def sub(name, changed):
                v_old = Obj("value_x_of_old_%s" % name)
                v_new = Obj("value_x_of_new_%s" % name) if changed else v_old
                o, nw = Obj("old_%s" % name, x=v_old), Obj("new_%s" % name, x=v_new)
                return o, nw
            lo, ln = sub("left", lch)
            ro, rn = sub("right", rch)
            e1 = Obj("event_left", name="left", old=lo, new=ln, what="value")
            e2 = Obj("event_right", name="right", old=ro, new=rn, what="value")
            changed = {"left": [("x", "value")], "right": [("x", "value")]} if form == "dict" else ["x"]

            def hook(fn, args, kwargs):
                if fn == "_getattrr" and len(args) >= 2 and isinstance(args[1], str) and isinstance(args[0], Obj):
                    return args[0].attrs.get(args[1], args[2] if len(args) > 2 else None)
                if fn == "Comparator.is_equal" and len(args) == 2:
                    return args[0] is args[1]
                if fn == "isinstance" and len(args) == 2 and args[1] == "<type dict>":
                    return isinstance(args[0], dict)
                return NotImplemented
            it = Interp(ctx.hier, call_hook=hook, globals={"Undefined": UNDEF})
            try:
                outs = it.run_all(f, {"events": (e1, e2), "kwargs": {"what": "value", "changed": changed}})
            except Unsupported as e:
                raise AnalysisError("depends model: absint cannot interpret _skip_event: %s" % e)
            if len(outs) != 1 or outs[0].imprecise or outs[0].kind != "return" or outs[0].value not in (True, False):
                raise AnalysisError("depends model: _skip_event is not interpretable precisely (%s)" % (outs[0].notes[:2] if outs else "no outcome"))
            n += 1
            want = not (lch or rch)
            if outs[0].value is not want:
                problems.append("two sub-objects replaced in one batch (left.x %s, right.x %s; `changed` given as a %s): the events are %s, specification %s -- each event's own objects must be "
                                "compared, also when the sub-parameter has the same relative path as one compared before" % (
                                    "differs" if lch else "same", "differs" if rch else "same", form, "skipped" if outs[0].value else "delivered", "skipped" if want else "delivered"))
    return n, problems


def report_skip_event_multi(ctx, rule):
    n, problems = skip_event_multi(ctx)
    f = ctx.repo.func(P + "_skip_event")
    ctx.abstract_cases += n
    if problems:
        ctx.fail(rule, f, f.node, "depends model (change filter, several events): %s (%d problem(s))" % (problems[0], len(problems)), key=f.qualname + "::multi-event-filter",
                 input="@depends('mid.left.x', 'mid.right.x', watch=True) def cb; obj.mid.param.update(left=L(x=same), right=R(x=other)) -> cb not called")
    else:
        ctx.ok(rule, f, f.node, "depends model: _skip_event on two replacement events of one batch: skipped iff no compared value differs (%d cases)" % n)


# --------------------------------------------------------------------------------------------------
# (l) how many watchers serve one method on ONE object
# --------------------------------------------------------------------------------------------------
def watchers_per_object(ctx):
    """A batch (or update) on an object queues watchers of THAT object and runs each queued watcher once: a method runs once
    per batch only if one watcher serves it on the object.  Parameters._update_deps(init=True) interpreted for
      * method m declared depends('a', 'a:bounds')               (two KINDS of dependency on the same object),
      * method k declared depends('c', 'sub.x')                  (a plain dependency and the root of a path on the same object);
    the watchers installed on the instance itself are counted per method."""
    import collections
    f = ctx.repo.func(P + "Parameters._update_deps")
    top, sub = Obj("instance"), Obj("sub_object")
    for o in (top, sub):
        o.attrs["param"] = Obj("param_of_" + o.name, owner_obj=o, _state_watchers=[])
    the_cls, sub_cls = Obj("Cls"), Obj("SubCls")
    c_a = Obj("dep_a_value", inst=None, cls=the_cls, what="value", name="a")
    c_ab = Obj("dep_a_bounds", inst=None, cls=the_cls, what="bounds", name="a")
    c_c = Obj("dep_c_value", inst=None, cls=the_cls, what="value", name="c")
    dyn = Obj("dynamic_dep_sub.x", spec="sub.x")
    table = [("m", False, False, [c_a, c_ab], []), ("k", False, False, [c_c], [dyn])]
    top.attrs["_param__private"] = Obj("private", dynamic_watchers=collections.defaultdict(list))
    top.attrs["m"], top.attrs["k"] = Obj("bound_m", __name__="m"), Obj("bound_k", __name__="k")
    top.attrs["__type__"] = Obj("Cls", param=Obj("class_namespace", _depends={"watch": table}))
    ns = Obj("ns", self=top)
    installed = []

    def hook(fn, args, kwargs):
        if fn == "type" and args and args[0] is top:
            return top.attrs["__type__"]
        if fn == "_resolve_mcs_deps" and len(args) == 3:
            out = [Obj("resolved_" + d.name, inst=top, cls=d.attrs["cls"], what=d.attrs["what"], name=d.attrs["name"]) for d in args[1]]
            for d in args[2]:
                out.append(Obj("resolved_root_of_" + d.name, inst=top, cls=the_cls, what="value", name="sub"))
                out.append(Obj("resolved_leaf_of_" + d.name, inst=sub, cls=sub_cls, what="value", name="x"))
            return out
        if fn == "self_._watch_group":
            g = args[3]
            w = Obj("watcher_%d" % len(installed), inst=g[0][1].attrs["inst"], cls=g[0][1].attrs["cls"], what=g[0][1].attrs["what"],
                    parameter_names=tuple(x[1].attrs["name"] for x in g), method=args[1])
            installed.append(w)
            return w
        if fn == "getattr" and len(args) == 2 and args[0] is top and args[1] in ("m", "k"):
            return top.attrs[args[1]]
        return NotImplemented
    it = Interp(ctx.hier, dyn=P + "Parameters", inline=lambda m: False, call_hook=hook)
    try:
        outs = it.run_all(f, {"self_": ns, "attribute": None, "init": True})
    except Unsupported as e:
        raise AnalysisError("depends model: absint cannot interpret Parameters._update_deps: %s" % e)
    if len(outs) != 1 or outs[0].imprecise or outs[0].kind != "return":
        raise AnalysisError("depends model: Parameters._update_deps is not interpretable precisely (%s)" % (outs[0].notes[:2] if outs else "no outcome"))
    findings = []
    on_top = {meth: [w for w in installed if w.attrs["method"] == meth and w.attrs["inst"] is top] for meth in ("m", "k")}
    if len(on_top["m"]) > 1:
        findings.append(("one-watcher-per-kind", "a method declared depends('a', 'a:bounds', watch=True) is served by %d watchers on its own object (%s): a batch that changes the value and the bounds "
                                                 "of `a` queues both and runs the method twice" % (len(on_top["m"]), ", ".join("%s:%s" % (w.attrs["parameter_names"], w.attrs["what"]) for w in on_top["m"]))))
    if len(on_top["k"]) > 1:
        findings.append(("plain-and-path-watchers", "a method declared depends('c', 'sub.x', watch=True) is served by %d watchers on its own object (one for its plain dependencies, one for the root "
                                                    "of the path): update(c=.., sub=..) queues both and runs the method twice" % len(on_top["k"])))
    return 1, findings
