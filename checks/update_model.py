"""Update model: Parameters._update interpreted abstractly.

Inputs: the batching flag found on entry, the keys given (a plain parameter
`a`, an Event parameter `e`, a plain parameter `b`), and which key -- if any --
is rejected by its setattr (or is not a parameter at all).

Specification (C04/C05/C02): whatever happens, on exit the batching flag has
the value found on entry; the flush is called exactly once iff that value was
False (also when a key was rejected), never inside an enclosing batch, and
after the flag was restored; every key before the rejected one was assigned,
none after it; every Event key ends in mode 'set-reset' and is assigned its
reset value after the flush; the returned mapping holds the previous value of
every key given.
"""
from __future__ import annotations

import itertools

from engine.absint import Interp, Obj, Unsupported, _Raise
from engine.loader import AnalysisError

P = "param.parameterized."


def run_case(ctx, f, batch0, keys, fail, same_a=False):
    """fail: None | ('reject', key) | ('unknown', key)"""
    ev = Obj("event_param", _autotrigger_value=True, _autotrigger_reset_value=False, _mode="set-reset")
    # a second Event parameter that is never among the keys given: update must not touch it
    ev2 = Obj("other_event_param", _autotrigger_value=True, _autotrigger_reset_value=False, _mode="set-reset")
    pa, pb = Obj("param_a", watchers={}), Obj("param_b", watchers={})
    ev.attrs["watchers"] = {}
    ev2.attrs["watchers"] = {}
    known = {"a": pa, "b": pb, "e": ev, "e2": ev2}
    # the class-level Parameter objects (what objects('existing') shows for an instance that has no copies of its own yet);
    # `self_[name]` hands out the instance's own copies above
    ev_cls = Obj("class_level_event_param", _autotrigger_value=True, _autotrigger_reset_value=False, _mode="set-reset", watchers={})
    cls_level = {"a": Obj("class_level_param_a", watchers={}), "b": Obj("class_level_param_b", watchers={}), "e": ev_cls,
                 "e2": Obj("class_level_other_event", _autotrigger_value=True, _autotrigger_reset_value=False, _mode="set-reset", watchers={})}
    prev = {"a": Obj("old_a"), "b": Obj("old_b"), "e": False, "e2": False}
    given = dict((k, Obj("new_" + k) if k != "e" else True) for k in keys)
    if same_a and "a" in given:
        given["a"] = prev["a"]          # update(a=<the value a already holds>)
    if fail and fail[0] == "unknown":
        given = dict((("zzz" if k == fail[1] else k), v) for k, v in given.items())
    target = Obj("target")
    trace = []
    shared_mode = []
    ns = Obj("ns", _BATCH_WATCH=batch0, _TRIGGER=False, self_or_cls=target, cls=Obj("Cls", __name__="Cls"),
             __getitem__=dict(known), __contains__=list(known), __iter__=list(known))
    # the instance route: the namespace of an instance nobody watches
    target.attrs["_param__private"] = Obj("private", watchers={}, values=dict(prev))
    ns.attrs["self"] = target

    def hook(fn, args, kwargs):
        if fn == "hasattr" and len(args) == 2:
            return isinstance(args[0], Obj) and args[1] in args[0].attrs
        if fn == "self_.values":
            return dict(prev)
        if fn == "self_.objects":
            return dict(cls_level)
        if fn == "setattr" and len(args) == 3:
            if ev_cls.attrs["_mode"] != "set-reset":
                shared_mode.append(ev_cls.attrs["_mode"])
            trace.append(("set", args[1], "flag=%s" % ns.attrs["_BATCH_WATCH"], "mode=%s" % (ev.attrs["_mode"] if ev_cls.attrs["_mode"] == "set-reset" else ev_cls.attrs["_mode"]), "mode2=%s" % ev2.attrs["_mode"]))
            if fail and fail[0] == "reject" and args[1] == fail[1] and args[2] is not False:
                raise _Raise("ValueError")
            return None
        if fn == "Comparator.is_equal" and len(args) == 2:
            return args[0] is args[1]
        if fn == "self_._batch_call_watchers":
            trace.append(("flush", "flag=%s" % ns.attrs["_BATCH_WATCH"], "", "", "mode2=%s" % ev2.attrs["_mode"]))
            return None
        return NotImplemented
    # helper methods of the namespace class that _update calls on itself are interpreted too
    it = Interp(ctx.hier, dyn=P + "Parameters", inline=lambda m: True, call_hook=hook, globals={"Undefined": Obj("Undefined")})
    outs = it.run_all(f, {"self_": ns, "arg": it.globals["Undefined"], "kwargs": dict(given)})
    if len(outs) != 1 or outs[0].imprecise:
        raise AnalysisError("update model: Parameters._update is not interpretable precisely (%s)" % (outs[0].notes[:2] if outs else "no outcome"))
    ns.attrs["_other_event"] = ev2
    ns.attrs["_shared_mode"] = shared_mode
    if ev_cls.attrs["_mode"] == "set-reset" and not shared_mode:
        pass
    elif ev.attrs["_mode"] == "set-reset" and ev_cls.attrs["_mode"] != "set-reset":
        ev.attrs["_mode"] = ev_cls.attrs["_mode"]        # report what was left behind on whichever object was switched
    return outs[0], trace, ns, ev, prev, given


def cow_case(ctx, f, keys, fail):
    """Class route on a subclass that only inherits the Event parameter: the first class-level assignment of `e` makes the
    metaclass install a per-class COPY of the Parameter (copied with whatever mode it is in at that moment), and from then
    on the namespace lookup yields the copy.  Returns (outcome, the inherited Parameter, the copy or None)."""
    ev = Obj("inherited_event_param", _autotrigger_value=True, _autotrigger_reset_value=False, _mode="set-reset")
    known = {"a": Obj("param_a"), "e": ev}
    prev = {"a": Obj("old_a"), "e": False}
    given = dict((k, Obj("new_" + k) if k != "e" else True) for k in keys)
    target = Obj("SubClass")
    ns = Obj("ns", _BATCH_WATCH=False, self_or_cls=target, self=None, cls=Obj("Cls", __name__="Cls"), __getitem__=known, __contains__=list(known), __iter__=list(known))
    box = {}

    def hook(fn, args, kwargs):
        if fn == "hasattr" and len(args) == 2:
            return isinstance(args[0], Obj) and args[1] in args[0].attrs
        if fn == "self_.values":
            return dict(prev)
        if fn == "setattr" and len(args) == 3:
            if fail and args[1] == fail and args[2] is not False:
                raise _Raise("ValueError")
            if args[1] == "e" and "copy" not in box:
                box["copy"] = Obj("per_class_copy_of_event_param", **dict(ev.attrs))
                known["e"] = box["copy"]
            return None
        if fn == "Comparator.is_equal" and len(args) == 2:
            return args[0] is args[1]
        if fn == "self_._batch_call_watchers":
            return None
        return NotImplemented
    it = Interp(ctx.hier, dyn=P + "Parameters", inline=lambda m: True, call_hook=hook, globals={"Undefined": Obj("Undefined")})
    outs = it.run_all(f, {"self_": ns, "arg": it.globals["Undefined"], "kwargs": dict(given)})
    if len(outs) != 1 or outs[0].imprecise:
        raise AnalysisError("update model: Parameters._update is not interpretable precisely on the copy-on-write case (%s)" % (outs[0].notes[:2] if outs else "no outcome"))
    return outs[0], ev, box.get("copy")


def update_model(ctx):
    f = ctx.repo.func(P + "Parameters._update")
    problems = {"C04": [], "C05": [], "C02": [], "C03": [], "C01": [], "C09": [], "C10": [], "C08": [], "C12": []}
    n = 0
    orders = [["a"], ["a", "b"], ["a", "e"], ["e", "a"], ["a", "e", "b"], ["b", "a", "e"]]
    for batch0 in (False, True):
        for keys in orders:
            fails = [None] + [("reject", k) for k in keys if k != "e"] + [("unknown", k) for k in keys if k != "e"]
            for fail, same_a in [(x, False) for x in fails] + [(None, True)]:
                try:
                    o, trace, ns, ev, prev, given = run_case(ctx, f, batch0, keys, fail, same_a)
                except Unsupported as e:
                    raise AnalysisError("update model: absint cannot interpret Parameters._update: %s" % e)
                n += 1
                desc = "batching=%s, update(%s)%s%s" % (batch0, ", ".join(keys), " where a is given the value it already holds" if same_a else "", "" if not fail else " with `%s` %s" % (fail[1], "rejected" if fail[0] == "reject" else "not a parameter"))
                flushes = [t for t in trace if t[0] == "flush"]
                sets = [t for t in trace if t[0] == "set"]
                if ns.attrs.get("_shared_mode"):
                    problems["C12"].append("%s (instance route): while the instance's keys are being assigned, the transient mode %r sits on the CLASS-level Event Parameter (looked up among the "
                                           "existing objects instead of through the instance's own `self_[name]`): a per-instance copy another instance makes in that window -- a watcher of "
                                           "this update assigning the same Event there -- inherits the mode for good; its Event never resets" % (desc, ns.attrs["_shared_mode"][0]))
                # flag restored
                if ns.attrs["_BATCH_WATCH"] is not batch0:
                    problems["C05"].append("%s: the batching flag is %s on exit, it was %s on entry" % (desc, ns.attrs["_BATCH_WATCH"], batch0))
                # flush iff outermost, exactly once, after the restore
                want_flush = 0 if batch0 else 1
                if len(flushes) != want_flush and batch0 and fail:
                    problems["C02"].append("%s: a rejected update flushes inside the enclosing batch: watchers are invoked by an assignment that raised" % desc)
                if len(flushes) > want_flush or (want_flush and not flushes and not fail):
                    problems["C03"].append("%s: the flush is called %d time(s), specification %d: watchers are called %s" % (
                        desc, len(flushes), want_flush, "more than once or too early" if flushes else "never"))
                if want_flush and not flushes:
                    problems["C09"].append("%s: the values applied are never announced: the invalidation watchers of the expressions that read them do not run, and the expressions "
                                           "keep their old result" % desc)
                if len(flushes) != want_flush:
                    (problems["C04"] if batch0 else problems["C05"]).append("%s: the flush is called %d time(s), specification %d%s" % (
                        desc, len(flushes), want_flush, " (events already applied stay queued)" if want_flush and not flushes else " (delivered inside the enclosing batch)"))
                elif flushes and flushes[0][1] != "flag=%s" % batch0:
                    problems["C05"].append("%s: the flush runs while the batching flag is still raised" % desc)
                    problems["C03"].append("%s: the flush runs while the batching flag is still raised: assignments made by the watchers it calls are queued "
                                           "behind the remaining watchers instead of being dispatched depth-first" % desc)
                # assignments made with the flag raised, in the order given, up to the failing key
                name_of = lambda k: "zzz" if (fail and fail[0] == "unknown" and k == fail[1]) else k
                upto = keys if not fail else keys[: keys.index(fail[1]) + (1 if fail[0] == "reject" else 0)]
                main_sets = [t for t in sets if not (t[1] == "e" and t[3] == "mode=reset")]
                if [t[1] for t in main_sets] != [name_of(k) for k in upto]:
                    problems["C02"].append("%s: keys assigned %s, specification %s" % (desc, [t[1] for t in main_sets], [name_of(k) for k in upto]))
                    if len([t[1] for t in main_sets]) > len(set(t[1] for t in main_sets)):
                        problems["C08"].append("%s: keys assigned %s -- a key is assigned a second time (a roll-back): _sync_refs pushes every linked parameter a source event affects through ONE "
                                               "update; when a later-linked parameter rejects its value, the earlier-linked one is written back to its old value and no longer mirrors its source" % (
                                                   desc, [t[1] for t in main_sets]))
                    if same_a and "a" not in [t[1] for t in main_sets]:
                        msg = ("%s: the key never reaches the setter -- the assignment is what ends the parameter's link and cancels its pending asynchronous reference: the superseded "
                               "coroutine result lands after the plain value, and the old source keeps driving the parameter" % desc)
                        problems["C10"].append(msg)
                        problems["C08"].append(msg)
                    if [x for x in upto if name_of(x) not in [t[1] for t in main_sets]]:
                        problems["C01"].append("%s: the value given for %s never reaches the validating setter (an equal-comparing value of the wrong type, or one that the "
                                               "constraints no longer admit, is accepted on this route only)" % (desc, [x for x in upto if name_of(x) not in [t[1] for t in main_sets]]))
                if any(t[2] != "flag=True" for t in main_sets):
                    problems["C04"].append("%s: a key is assigned while the batching flag is not raised" % desc)
                # outcome
                if bool(fail) != (o.kind == "raise"):
                    problems["C02"].append("%s: outcome %s" % (desc, o.kind))
                # Event handling
                if "e" in keys:
                    if ev.attrs["_mode"] != "set-reset":
                        problems["C05"].append("%s: the Event parameter is left in mode %r (it no longer resets itself)" % (desc, ev.attrs["_mode"]))
                    resets = [t for t in sets if t[1] == "e" and t[3] == "mode=reset"]
                    e_assigned = any(t[1] == "e" for t in main_sets)
                    # an Event key that was never assigned (a key before it was rejected) still holds its resting value: writing the
                    # reset value again is allowed, not required -- what is required is that its mode ends 'set-reset' (checked above)
                    if len(resets) != 1 and not (not e_assigned and len(resets) == 0):
                        problems["C05"].append("%s: the Event parameter is reset %d time(s)" % (desc, len(resets)))
                        problems["C04"].append("%s: the Event parameter is reset %d time(s): it stays set after the update, so its next firing is an unchanged "
                                               "assignment that changes-only watchers never see" % (desc, len(resets)))
                    elif resets and flushes and trace.index(resets[0]) < trace.index(flushes[0]):
                        problems["C04"].append("%s: the Event parameter is reset before the flush delivered its event" % desc)
                    e_sets = [t for t in main_sets if t[1] == "e"]
                    if any(t[3] != "mode=set" for t in e_sets):
                        problems["C05"].append("%s: the Event is assigned while its mode is %s" % (desc, e_sets[0][3]))
                # Event parameters that were not given are none of update's business
                ev2 = ns.attrs["_other_event"]
                if ev2.attrs["_mode"] != "set-reset" or any(t[4] != "mode2=set-reset" for t in trace) or any(t[1] == "e2" for t in sets):
                    problems["C02"].append("%s: an Event parameter that is not among the keys given is switched to another mode or assigned "
                                           "(a rejected update resets an Event that is being delivered)" % desc)
                    problems["C05"].append("%s: an Event parameter that is not among the keys given is switched to another mode or assigned" % desc)
                # restore mapping
                if o.kind == "return":
                    want = {k: prev[k] for k in keys}
                    got = o.value if isinstance(o.value, dict) else None
                    if got is None or set(got) != set(want) or any(got[k] is not want[k] for k in want):
                        problems["C04"].append("%s: the returned previous values are %s, specification: the old value of every key given" % (desc, sorted(got) if got is not None else o.value))
    # class route, Event inherited: the Parameter whose mode was switched is not the one found afterwards
    for keys, fail in ((["e"], None), (["a", "e"], None), (["e", "a"], "a")):
        try:
            o, ev, cp = cow_case(ctx, f, keys, fail)
        except Unsupported as e:
            raise AnalysisError("update model: absint cannot interpret Parameters._update: %s" % e)
        n += 1
        desc = "class-level update(%s)%s on a subclass that inherits the Event parameter (its first assignment installs a per-class copy)" % (", ".join(keys), " with `a` rejected" if fail else "")
        for who, pobj in (("the ancestor's Event parameter", ev), ("the per-class copy", cp)):
            if pobj is not None and pobj.attrs.get("_mode") != "set-reset":
                msg = "%s: %s is left in mode %r: it no longer resets itself -- assigning it on the ancestor class or its instances leaves it set, and the next firing is an unchanged assignment" % (
                    desc, who, pobj.attrs.get("_mode"))
                problems["C05"].append(msg)
                problems["C04"].append(msg)
    return n, problems


def report(ctx, prop, rule):
    # one model run per check run (never keyed by id(): ids are reused after garbage collection)
    memo = ctx.__dict__.setdefault('_model_memo', {})
    if 'update_model' not in memo:
        memo['update_model'] = update_model(ctx)
    n, problems = memo['update_model']
    f = ctx.repo.func(P + "Parameters._update")
    ctx.abstract_cases += n
    bad = problems[prop]
    if not bad:
        ctx.ok(rule, f, f.node, "update model, %d abstract cases (entry flag x key orders with an Event key x rejected/unknown key at every position): agrees with the specification" % n)
    else:
        ctx.fail(rule, f, f.node, "update model: %s (%d disagreeing observation(s))" % (bad[0], len(bad)), key="%s::update-model::%s" % (f.qualname, prop))
