"""Asynchronous-reference model (C10): Parameters._async_ref interpreted abstractly,
with what happens while the coroutine is suspended supplied at the `await`.

Cases: the object is / is not initialized yet; on entry no task, this very task
or another (older) task is registered for the parameter; while suspended the
awaitable (a) completes with a value, (b) raises Skip, (c) is cancelled because
a plain value was assigned meanwhile (the registration was removed), or (d) is
cancelled because a newer reference was assigned meanwhile (a newer task is now
registered).

Specification (latest assignment wins): an older task found on entry is
cancelled and replaced by this one before anything is awaited; a result is
applied -- once, through update({name: result}), right after entering a
_syncing scope for that name -- only in case (a); in cases (c) and (d) nothing
is applied and the registration of the newer task is left alone; the task's own
registration is removed on every way out; an uninitialized object only
reschedules.
"""
from __future__ import annotations

import itertools

from engine.absint import Interp, Obj, Unsupported, _Raise
from engine.loader import AnalysisError

P = "param.parameterized."


def run_case(ctx, f, initialized, entry, meanwhile):
    me, older, newer = Obj("this_task"), Obj("older_task"), Obj("newer_task")
    tasks = {}
    if entry == "self":
        tasks["x"] = me
    elif entry == "older":
        tasks["x"] = older
    priv = Obj("private", initialized=initialized, async_refs=tasks, syncing=set(), values={"x": Obj("value_currently_held")}, refs={"x": Obj("the_reference")})
    inst = Obj("instance", _param__private=priv)
    ns = Obj("ns", self=inst)
    log = []
    result = Obj("awaited_result")
    awaitable = Obj("coroutine")

    def hook(fn, args, kwargs):
        it_ = hook.it
        if fn == "asyncio.current_task":
            return me
        if fn == "isinstance":
            return False
        if fn == "partial":
            return Obj("partial", args=list(args))
        if fn == "async_executor":
            log.append(("reschedule", args[0] if args else None))
            return None
        if fn.endswith(".cancel") and not args:
            log.append(("cancel", getattr(it_, "current_receiver", None)))
            return None
        if fn == "_syncing":
            log.append(("syncing", tuple(args[1]) if len(args) > 1 and isinstance(args[1], (tuple, list)) else None))
            return Obj("syncing_scope")
        if fn == "self_.update":
            log.append(("update", dict(args[0]) if args and isinstance(args[0], dict) else None, tasks.get("x")))
            return None
        return NotImplemented
    hook.needs_receiver = True

    def awaited(val):
        log.append(("await", val, tasks.get("x")))
        if meanwhile == "completes":
            return result
        if meanwhile == "skip":
            raise _Raise("Skip")
        if meanwhile == "plain-assigned":
            tasks.pop("x", None)                 # _update_ref(name, None): popped and cancelled
            raise _Raise("CancelledError")
        if meanwhile == "newer-reference":
            tasks["x"] = newer                   # the newer _async_ref run popped, cancelled and registered itself
            raise _Raise("CancelledError")
        raise AssertionError(meanwhile)
    it = Interp(ctx.hier, dyn=P + "Parameters", inline=lambda m: False, call_hook=hook, globals={"Skip": "Skip", "Undefined": Obj("Undefined")})
    hook.it = it
    it.await_hook = awaited
    outs = it.run_all(f, {"self_": ns, "pname": "x", "awaitable": awaitable})
    if len(outs) != 1 or outs[0].imprecise:
        raise AnalysisError("async model: Parameters._async_ref is not interpretable precisely (%s)" % (outs[0].notes[:2] if outs else "no outcome"))
    return outs[0], log, tasks, (me, older, newer), result, awaitable


def model(ctx):
    f = ctx.repo.func(P + "Parameters._async_ref")
    problems, n = [], 0
    for initialized, entry, meanwhile in itertools.product([True, False], ["none", "self", "older"], ["completes", "skip", "plain-assigned", "newer-reference"]):
        try:
            o, log, tasks, (me, older, newer), result, awaitable = run_case(ctx, f, initialized, entry, meanwhile)
        except Unsupported as e:
            raise AnalysisError("async model: absint cannot interpret Parameters._async_ref: %s" % e)
        n += 1
        desc = "_async_ref on an %s object, %s registered on entry, while suspended the awaitable %s" % (
            "initialized" if initialized else "uninitialized", {"none": "no task", "self": "this task", "older": "an older task"}[entry],
            {"completes": "completes", "skip": "raises Skip", "plain-assigned": "is cancelled by a plain assignment", "newer-reference": "is cancelled by a newer reference"}[meanwhile])
        updates = [e for e in log if e[0] == "update"]
        awaits = [e for e in log if e[0] == "await"]
        if not initialized:
            if awaits or updates or [e for e in log if e[0] == "reschedule"].__len__() != 1:
                problems.append("%s: an object that is still being constructed must only reschedule the evaluation (awaits %d, updates %d)" % (desc, len(awaits), len(updates)))
            continue
        if len(awaits) != 1:
            problems.append("%s: the awaitable is awaited %d time(s)" % (desc, len(awaits)))
            continue
        # ownership before the first suspension
        cancels = [e for e in log if e[0] == "cancel"]
        if awaits[0][2] is not me:
            problems.append("%s: when the coroutine suspends, the task registered for the parameter is %r, not this one: a later assignment cannot cancel it" % (desc, awaits[0][2]))
        if entry == "older" and not any(c[1] is older for c in cancels):
            problems.append("%s: the older task is not cancelled: its result can still arrive after the newer one" % desc)
        if entry != "older" and cancels:
            problems.append("%s: a task is cancelled although none is superseded" % desc)
        # what is applied
        if meanwhile == "completes":
            if len(updates) != 1 or updates[0][1] is None or set(updates[0][1]) != {"x"} or updates[0][1]["x"] is not result:
                problems.append("%s: the result is applied %d time(s) (%s)" % (desc, len(updates), updates[0][1] if updates else None))
            else:
                i = log.index(updates[0])
                if i == 0 or log[i - 1][0] != "syncing" or log[i - 1][1] != ("x",):
                    problems.append("%s: the result is not applied right inside a _syncing scope for the parameter (its own write would end the link)" % desc)
        elif updates:
            problems.append("%s: a value is applied (%s) although %s" % (desc, updates[0][1], "the awaitable gave none" if meanwhile == "skip" else "the evaluation was superseded: the stale result overwrites the newer assignment"))
        # registration on the way out
        if meanwhile == "newer-reference":
            if tasks.get("x") is not newer:
                problems.append("%s: on its way out the superseded task removes the registration of the NEWER task (%r left): the newer evaluation can no longer be cancelled" % (desc, tasks.get("x")))
        elif "x" in tasks:
            problems.append("%s: the task's registration is still there afterwards (%r): a later assignment cancels a finished task / the next evaluation sees a stale owner" % (desc, tasks.get("x")))
        want_raise = meanwhile in ("plain-assigned", "newer-reference")
        if want_raise != (o.kind == "raise"):
            problems.append("%s: outcome %s (a cancellation must propagate, Skip must not)" % (desc, o.kind))
    return n, problems


def report(ctx, rule):
    n, problems = model(ctx)
    f = ctx.repo.func(P + "Parameters._async_ref")
    ctx.abstract_cases += n
    if not problems:
        ctx.ok(rule, f, f.node, "async model, %d abstract cases (initialized x task registered on entry x what happens while suspended): ownership before the suspension, older task cancelled, "
                                "result applied only when not superseded, newer registration left alone, own registration removed" % n)
    else:
        ctx.fail(rule, f, f.node, "async model: %s (%d disagreeing case(s))" % (problems[0], len(problems)), key=f.qualname + "::async-model")


def executor_order_model(ctx, rule):
    """param._utils.async_executor interpreted abstractly with a running loop: two calls are made back to back (two
    assignments of asynchronous references without a loop iteration in between), then the callbacks the loop was handed
    (call_soon) run in the order they were handed over.  Specification: every call is turned into a task exactly once,
    and the tasks are created in CALL order -- supersession ('the evaluation scheduled later starts later and wins')
    rests on that order."""
    from engine.absint import Interp, Obj, PyFunc, Unsupported
    from engine.loader import AnalysisError
    f = ctx.repo.func("param._utils.async_executor")
    started, soon = [], []
    loop = Obj("event_loop")

    def hook(fn, args, kwargs):
        if fn in ("asyncio.get_event_loop", "asyncio.get_running_loop", "asyncio.new_event_loop"):
            return loop
        if fn.endswith(".is_running"):
            return True
        if fn == "asyncio.ensure_future" or fn == "asyncio.create_task" or fn.endswith(".create_task"):
            started.append(args[0] if args else None)
            return Obj("task_%d" % len(started))
        if fn.endswith(".call_soon") and args:
            soon.append((args[0], list(args[1:])))
            return None
        if fn.endswith(".add_done_callback") or fn.endswith(".add") or fn.endswith(".discard"):
            return None
        return NotImplemented
    it = Interp(ctx.hier, call_hook=hook, inline_module_functions=True, globals={"_running_tasks": set()})
    tokens = [Obj("coroutine_of_call_1"), Obj("coroutine_of_call_2"), Obj("coroutine_of_call_3")]
    try:
        for t in tokens:
            outs = it.run_all(f, {"func": PyFunc("func", (lambda t=t: t))})
            if len(outs) != 1 or outs[0].imprecise or outs[0].kind != "return":
                raise AnalysisError("%s: async_executor is not interpretable precisely (%s)" % (rule, outs[0].notes[:2] if outs else "no outcome"))
        # the loop now runs what it was handed, first in first out
        guard = 0
        while soon and guard < 20:
            guard += 1
            cb, cargs = soon.pop(0)
            from engine.absint import DefClosure, BoundMethod
            if isinstance(cb, PyFunc):
                cb.fn(*cargs)
            elif isinstance(cb, DefClosure):
                it.call_def_closure(cb, cargs, {})
            elif isinstance(cb, BoundMethod):
                it.invoke(cb.func, cargs, {}, cb.obj)
            elif isinstance(cb, str) or cb is None:
                raise AnalysisError("%s: async_executor hands the loop a callback the model cannot follow (%r)" % (rule, cb))
            else:
                g = ctx.repo.funcs.get("param._utils.%s" % getattr(cb, "name", ""))
                if g is None:
                    raise AnalysisError("%s: async_executor hands the loop a callback the model cannot follow (%r)" % (rule, cb))
                it.invoke(g, cargs, {}, None)
    except Unsupported as e:
        raise AnalysisError("%s: absint cannot interpret async_executor: %s" % (rule, e))
    ctx.abstract_cases += 1
    if len(started) != len(tokens) or any(a is not b for a, b in zip(started, tokens)):
        ctx.fail(rule, f, f.node, "three back-to-back calls of async_executor start their coroutines in the order %s, specification: call order, each once -- with the oldest evaluation "
                                  "started last, it is the one that is registered as current and its result the parameter ends up with" % [getattr(x, "name", x) for x in started],
                 key=f.qualname + "::start-order")
    else:
        ctx.ok(rule, f, f.node, "back-to-back calls of async_executor start their coroutines in call order, each exactly once")
