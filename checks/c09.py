"""C09 -- only the clause "every operator form Python can dispatch to the
expression, including all reflected operators, is supported" (DESIGN §3/C09)."""
from __future__ import annotations

import ast
import math
import operator

from engine.facts import stores_in
from engine.loader import AnalysisError, norm

RX = "param.reactive.rx"
# Binary operators of the Python data model (language reference §3.3.8) and the
# stdlib function that computes `a <op> b`.
BINARY = {
    "add": "operator.add", "sub": "operator.sub", "mul": "operator.mul", "matmul": "operator.matmul",
    "truediv": "operator.truediv", "floordiv": "operator.floordiv", "mod": "operator.mod",
    "divmod": "divmod", "pow": "operator.pow", "lshift": "operator.lshift", "rshift": "operator.rshift",
    "and": "operator.and_", "xor": "operator.xor", "or": "operator.or_",
}
COMPARE = {"lt": "operator.lt", "le": "operator.le", "eq": "operator.eq", "ne": "operator.ne",
           "gt": "operator.gt", "ge": "operator.ge"}
UNARY = {"neg": "operator.neg", "pos": "operator.pos", "invert": {"operator.inv", "operator.invert"},
         "abs": {"abs", "operator.abs"}, "ceil": "math.ceil", "floor": "math.floor", "trunc": "math.trunc"}
PY3_SPECIAL = set("__%s__" % n for n in list(BINARY) + list(COMPARE) + list(UNARY)) | set("__r%s__" % n for n in BINARY) | {
    "__getitem__", "__round__", "__str__", "__iter__", "__bool__", "__len__", "__call__", "__contains__"}


def applied(fnode):
    """(function expression text, reverse flag, call) of `return self._apply_operator(F, other, reverse=...)`."""
    for st in fnode.body:
        if isinstance(st, ast.Return) and isinstance(st.value, ast.Call) and norm(st.value.func) == "self._apply_operator" and st.value.args:
            c = st.value
            rev = None
            for k in c.keywords:
                if k.arg == "reverse":
                    rev = k.value.value if isinstance(k.value, ast.Constant) else "?"
            return norm(c.args[0]), rev, c
    return None


def exists(fn_text):
    if fn_text.startswith("operator."):
        return hasattr(operator, fn_text.split(".", 1)[1])
    if fn_text.startswith("math."):
        return hasattr(math, fn_text.split(".", 1)[1])
    return fn_text in ("divmod", "abs", "round", "str", "next", "list")


def _watch_delivery(ctx):
    from engine.facts import calls_in
    w = ctx.repo.func("param.reactive.reactive_ops._watch")
    fn_param = "fn"
    ctx.require(fn_param in w.params, "reactive_ops._watch no longer takes `fn`")
    regs = [c for c in ast.walk(w.node) if isinstance(c, ast.Call) and norm(c.func) == "bind" and any(k.arg == "watch" and isinstance(k.value, ast.Constant) and k.value.value is True for k in c.keywords)]
    ctx.require(regs, "reactive_ops._watch no longer registers a callback with bind(..., watch=True)")
    reg = regs[0]
    if not (len(reg.args) >= 2 and isinstance(reg.args[0], ast.Name) and norm(reg.args[1]) == "self._reactive"):
        ctx.fail("R09.h", w, reg, "the watch callback is not bound to the expression itself (`%s`)" % norm(reg), key=w.qualname + "::registration")
        return
    ctx.ok("R09.h", w, reg, "callback `%s` bound to self._reactive with watch=True" % reg.args[0].id)
    cbq = w.qualname + "." + reg.args[0].id
    cb = ctx.repo.func(cbq)
    val = cb.params[0] if cb.params else None
    ctx.require(val, "the watch callback takes no value argument")
    cfg = ctx.facts.cfg(cb)

    def delivers(n):
        for c in calls_in(n):
            if isinstance(c.func, ast.Name) and c.func.id == fn_param and c.args and isinstance(c.args[0], ast.Name) and c.args[0].id == val:
                return True
            if norm(c.func) == "async_executor" and c.args and isinstance(c.args[0], ast.Call) and norm(c.args[0].func) == "partial" \
                    and [norm(a) for a in c.args[0].args] == [fn_param, val]:
                return True
        return False
    # every normal path from the entry to the exit passes a delivery, unless `fn is None` holds on it
    seen, stack, skipping = set(), [(cfg.entry, ())], None
    while stack and skipping is None:
        n, facts = stack.pop()
        if (n.id, facts) in seen:
            continue
        seen.add((n.id, facts))
        if delivers(n):
            continue
        if n.kind == "br":
            facts = facts + ((norm(n.ast), n.polarity),)
        if n is cfg.exit:
            no_fn = any((e in ("fn is not None", "fn") and pol is False) or (e == "fn is None" and pol is True) for e, pol in facts)
            if not no_fn:
                skipping = facts
            continue
        stack.extend((t, facts) for l, t in n.succ if l != "e")
    if skipping is not None and any(val in {x.id for x in ast.walk(ast.parse(e, mode="eval")) if isinstance(x, ast.Name)} for e, _ in skipping):
        # a filter that looks at the value itself (e.g. "same as last time") may be consistent with the property: not decided here
        ctx.info("R09.h", cb, cb.node, "the callback skips delivery under a condition on the value itself (%s): whether that is 'unchanged' is not decided statically" % (
            ", ".join("%s is %s" % x for x in skipping)))
        skipping = None
    if skipping is None:
        ctx.ok("R09.h", cb, cb.node, "every path through the callback hands `%s` to `%s` unless no function was given" % (val, fn_param))
    else:
        ctx.fail("R09.h", cb, cb.node, "the watch callback can return without handing the new value to the registered function (path conditions: %s)" % (
            ", ".join("%s is %s" % x for x in skipping) or "none"), key=cbq + "::skips-delivery",
            input="e.rx.watch(f); e.rx.watch(g); update an input -> g is not called")
    shared = sorted({norm(a) for a in ast.walk(cb.node) if isinstance(a, ast.Attribute) and isinstance(a.value, ast.Name) and a.value.id == w.params[0]})
    if shared:
        ctx.fail("R09.h", cb, cb.node, "the watch callback consults/updates %s: the .rx namespace object is shared by every callback registered on the expression, so one "
                 "registration's bookkeeping silences the others" % ", ".join(shared), key=cbq + "::shared-state")
    else:
        ctx.ok("R09.h", cb, cb.node, "the callback uses only its own arguments and the registration's parameters")


def run(ctx):
    ctx.rule("R09.l", "bind model: the dependency extraction of param.bind, interpreted abstractly (generator expressions lazily, as Python does) on bind(f, N1, N2, P0, k1=N3, k2=P1) with nested references carrying positional and keyword dependencies: every dependency of every nested reference and every directly bound Parameter reaches depends(), each under its own key", floor=1)
    ctx.rule("R09.m", "dependency model: rx._compute_params, interpreted abstractly on a node whose operation has a positional and a keyword argument, lists the parameters of the previous nodes, of the operation's function and of both kinds of argument (what the invalidation watchers are installed on)", floor=1)
    ctx.rule("R09.n", "the raw cache of an expression (`_current`, `_current_`: the value before a pending attribute access is applied) is read only by methods of rx itself; code outside the class -- the reference transform that lets an expression be used as an argument, bind, the .rx namespace -- goes through .rx.value / _resolve()", floor=1)
    ctx.rule("R09.a", "class rx defines the forward and the reflected special method of every binary operator of the Python data model", floor=28)
    ctx.rule("R09.b", "every operator./math. function referenced by a Python-3 special method of rx exists in that stdlib module", floor=40)
    ctx.rule("R09.c", "each reflected method applies the same function as its forward form and passes reverse=True; forward forms do not", floor=26)
    ctx.rule("R09.d", "each forward/comparison/unary special method applies the stdlib function the data model assigns to it; _eval_operation swaps the operands iff reverse", floor=25)
    ctx.rule("R09.e", "invalidation coverage: _setup_invalidations registers _invalidate_current, unconditionally and unfiltered, on every parameter in self._internal_params "
                      "(grouped by owner), and _invalidate_obj on the root's function parameters", floor=2)
    ctx.rule("R09.f", "invalidation effect: on every path except the own-trigger early return _invalidate_current marks the node dirty AND clears the stored error; "
                      "_invalidate_obj marks the root object dirty and clears the error; _resolve stores the error before re-raising and clears the dirty flag only after a completed evaluation", floor=3)
    ctx.rule("R09.g", "change detection feeding the invalidation watchers is exact on containers: Comparator.compare_iterator/compare_mapping, interpreted abstractly on 24 container pairs, "
                      "answer True iff same type, same size/key set and pairwise-equal elements (a false 'equal' suppresses the invalidation of every expression reading that input)", floor=2)
    ctx.rule("R09.v", "rx value-setter model: the setter of reactive_ops.value interpreted on a root expression given a container (with and without references inside): the wrapper receives the "
                      "resolved -- rebuilt, private -- value, never the caller's own object (else re-assigning the same, extended container compares identical and invalidates nothing)", floor=1)
    ctx.rule("R09.u", "update model: Parameters._update interpreted abstractly: the events of the values applied before a rejected key are flushed when the call raises -- the invalidation "
                      "watchers of every expression that reads those parameters are among them", floor=1)
    ctx.rule("R09.p", "invalidation before consumers: every internal watcher that only invalidates an expression's cache (rx._invalidate_*) is registered with a precedence strictly lower than "
                      "every internally installed consumer (the sync of references, depends(watch=True) callers), so that within one batch no consumer reads a cache whose invalidation is still queued", floor=2)
    ctx.rule("R09.q", "full_groupby model: the grouping behind the invalidation watchers (param._utils.full_groupby), interpreted on an interleaved list keyed by owner, yields one group per owner "
                      "holding all of its parameters -- none is dropped when another owner's parameter sits between two of them", floor=1)
    ctx.rule("R09.w", "attribute resolution is per object: rx.__getattribute__ takes the attribute names an expression accepts from dir(<current object>) on every access; neither it nor a "
                      "module-level helper it calls consults module-level mutable state or a memoised function (a memo keyed by type answers for the first object of that type ever seen)", floor=1)
    ctx.rule("R09.h", "watch delivery: reactive_ops._watch registers its callback with bind(<cb>, self._reactive, watch=True); inside the callback every path on which a function was given "
                      "hands the value to it (directly or through the async executor), and the callback reads no state of the shared .rx namespace object", floor=3)
    ctx.rule("R09.j", "where model: reactive_ops.where interpreted abstractly; the callbacks it binds to the dependencies of each branch are called under six current conditions "
                      "(True, False, a truthy non-bool, 0, '', None): the x-callback fires the Trigger iff the condition is truthy, the y-callback iff falsy; the ternary follows truthiness and is bound to (condition, Trigger value)", floor=1)
    ctx.rule("R09.k", "building an expression does not change its operands: no method of rx that derives a new expression (calls _clone / _resolve_accessor / _apply_operator) stores into an "
                      "attribute of `self` (after `r = e.real`, evaluating `r + 1` must leave r what it was)", floor=5)
    ctx.rule("R09.i", "rx cache model: rx._resolve, the rx._obj property, _invalidate_current and _invalidate_obj interpreted abstractly on a three-node expression (root, op1, op2) under every "
                      "history of up to 3 (thorough: 4) steps of read leaf / read middle node / set the input to A, B or a bad value / set an operation argument to P, Q or a bad value, followed by a read: the read gives op2(op1(current input, current argument)), "
                      "raises for the bad input, and recovers", floor=1)
    ctx.rule("R09.t", "pipe / map call fn(value, *args, **kwargs): no named keyword parameter of the internal method the caller's `**kwargs` are forwarded to can capture a user keyword "
                      "(signature comparison at every forwarding call of param.reactive)", floor=2)
    ctx.rule("R09.y", "the root is marked clean only after its function returned: in the rx._obj getter every `_dirty_obj = False` is dominated by the call of eval_function_with_deps", floor=1)
    ctx.rule("R09.z", "eval_function_with_deps interpreted for positional Parameter dependencies of two interleaved owners calls the function with the values in the declared order", floor=1)
    ctx.rule("R09.x", "identity helpers see the argument itself: resolve_value, interpreted on a list / tuple / dict without references, returns the very object (is_ / is_not compare identities)", floor=1)
    ctx.rule("R09.s", "a watch callback sees the current value: the callbacks of the function form of depends (under .rx.watch and bind(..., watch=True)) read their dependencies with "
                      "getattr(dep.owner, dep.name) when they run and never take a value from the announcing event", floor=1)
    ctx.rule("R09.o", "rx evaluation-order model: rx._resolve evaluates the pipeline before the arguments of the operation -- with both invalid, reading the node raises the exception the plain "
                      "left-to-right expression raises (the pipeline's)", floor=1)
    ctx.rule("R09.r", "flush model (shared with R04.h): every watcher queued in a batch -- the cache invalidators of an expression are such watchers -- runs at the flush with the last event of its "
                      "parameter, also when the parameter was set away and back inside the batch (an expression read in between cached the intermediate value; only the flush invalidates it again)", floor=1)
    ctx.not_decided += ["that .rx.value equals the plain-Python result after arbitrary read/update histories (cache coherence) -- not statically decidable here and NOT claimed",
                        "the .rx helper namespace other than where (pipe, and_, ...); the values rx.watch delivers (only the callback structure is decided, R09.h)"]
    from checks.shared import comparator_model
    comparator_model(ctx, "R09.g")
    _watch_delivery(ctx)
    cls = ctx.repo.cls(RX)
    for name, fn in BINARY.items():
        for form, refl in (("__%s__" % name, False), ("__r%s__" % name, True)):
            m = cls.method(form)
            if m is None:
                ctx.fail("R09.a", RX, None, "rx does not define %s: Python cannot dispatch `%s` to the expression (TypeError)" % (
                    form, ("other %s rx" if refl else "rx %s other") % name),
                    key="%s::missing::%s" % (RX, form), input="%s" % ("[[1]] @ rx(...)" if name == "matmul" else "2 <%s> rx(1)" % name))
                continue
            ctx.ok("R09.a", m, m.node, "%s defined" % form)
            ap = applied(m.node)
            if ap is None:
                ctx.fail("R09.c", m, m.node, "%s does not return self._apply_operator(<function>, other...)" % form)
                continue
            fexpr, rev, call = ap
            if not exists(fexpr):
                ctx.fail("R09.b", m, m.node, "%s references `%s`, which does not exist in the standard library: the operator raises AttributeError" % (form, fexpr),
                         key="%s::nonexistent-function" % m.qualname, input="2 << rx(1)")
            else:
                ctx.ok("R09.b", m, m.node, "`%s` exists" % fexpr)
            if refl:
                fwd = cls.method("__%s__" % name)
                fap = applied(fwd.node) if fwd is not None else None
                same = fap is not None and fap[0] == fexpr
                if rev is True and same:
                    ctx.ok("R09.c", m, m.node, "applies %s with reverse=True like the forward form" % fexpr)
                elif rev is not True:
                    ctx.fail("R09.c", m, m.node, "%s does not pass reverse=True: `other <op> rx` is evaluated as `rx <op> other`" % form,
                             key="%s::no-reverse" % m.qualname)
                else:
                    ctx.fail("R09.c", m, m.node, "%s applies `%s` but the forward form applies `%s`" % (form, fexpr, fap[0] if fap else "?"),
                             key="%s::function-differs" % m.qualname)
            else:
                if rev in (None, False):
                    ctx.ok("R09.c", m, m.node, "forward form without reverse")
                else:
                    ctx.fail("R09.c", m, m.node, "forward method %s passes reverse=%r" % (form, rev))
                if fexpr == fn:
                    ctx.ok("R09.d", m, m.node, "%s -> %s" % (form, fexpr))
                else:
                    ctx.fail("R09.d", m, m.node, "%s applies `%s`; the data model's function for this operator is `%s`" % (form, fexpr, fn))
    for table in (COMPARE, UNARY):
        for name, fn in table.items():
            form = "__%s__" % name
            m = cls.method(form)
            if m is None:
                ctx.fail("R09.d", RX, None, "rx does not define %s" % form, key="%s::missing::%s" % (RX, form))
                continue
            ap = applied(m.node)
            want = fn if isinstance(fn, set) else {fn}
            if ap is None:
                ctx.fail("R09.d", m, m.node, "%s does not return self._apply_operator(<function>...)" % form)
            elif ap[0] in want and ap[1] in (None, False):
                ctx.ok("R09.d", m, m.node, "%s -> %s" % (form, ap[0]))
                if exists(ap[0]):
                    ctx.ok("R09.b", m, m.node, "`%s` exists" % ap[0])
                else:
                    ctx.fail("R09.b", m, m.node, "%s references `%s`, which does not exist" % (form, ap[0]))
            else:
                ctx.fail("R09.d", m, m.node, "%s applies `%s` (reverse=%r); the data model's function is `%s`" % (form, ap[0], ap[1], "/".join(sorted(want))))
    # dunders that are not Python-3 special methods: dead code, informational
    for mname, fl in cls.methods.items():
        if mname.startswith("__") and mname.endswith("__") or mname.startswith("__"):
            ap = applied(fl[-1].node)
            if ap is not None and mname not in PY3_SPECIAL:
                ctx.info("R09.b", fl[-1], fl[-1].node, "%s is not a Python 3 special method (dead code; references %s)" % (mname, ap[0]))
    # _apply_operator records reverse; _eval_operation honours it
    ao = ctx.repo.method(RX, "_apply_operator")
    d = [n for n in ast.walk(ao.node) if isinstance(n, ast.Dict)]
    ok = any(any(isinstance(k, ast.Constant) and k.value == "reverse" and isinstance(v, ast.Name) and v.id == "reverse" for k, v in zip(x.keys, x.values)) for x in d)
    rebound = [st for st in ast.walk(ao.node) if isinstance(st, (ast.Assign, ast.AugAssign)) and any(
        isinstance(t, ast.Name) and t.id == "reverse" for t in (st.targets if isinstance(st, ast.Assign) else [st.target]))]
    if rebound:
        ok = False
    (ctx.ok if ok else ctx.fail)("R09.d", ao, rebound[0] if rebound else ao.node, "_apply_operator records the caller's reverse flag in the operation, unchanged" if ok else (
        "_apply_operator overrides the reverse flag (`%s`): some reflected forms are evaluated as `value <op> other`" % norm(rebound[0]) if rebound else "_apply_operator drops the reverse flag"))
    # raw cache slot: who may read it
    RAW_READERS = {"_current", "_resolve", "_resolve_async", "__init__", "__getattribute__", "__new__"}
    nread = 0
    for mname, fl in cls.methods.items():
        for g in fl:
            for a in ast.walk(g.node):
                if isinstance(a, ast.Attribute) and a.attr == "_current_" and isinstance(a.ctx, ast.Load) and norm(a.value) == "self":
                    nread += 1
                    if mname in RAW_READERS:
                        ctx.ok("R09.f", g, a, "raw cache slot read by %s" % mname)
                    else:
                        ctx.fail("R09.f", g, a, "%s reads the raw cache slot self._current_ instead of the self._current property (which re-resolves a dirty or errored node): "
                                                "a stale value is handed on as if it were fresh" % mname, key="%s::raw-cache-read" % g.qualname,
                                 input="b = a + 1; b.rx.value; a.rx.value = 5; c = b * 2; c.rx.value -> 4 instead of 12")
    ctx.require(nread >= 2, "reads of rx._current_ not found")
    ev = ctx.repo.method(RX, "_eval_operation")
    ok = False
    for st in ast.walk(ev.node):
        if isinstance(st, ast.If):
            chain = [st]
            while chain[-1].orelse and len(chain[-1].orelse) == 1 and isinstance(chain[-1].orelse[0], ast.If):
                chain.append(chain[-1].orelse[0])
            for i in chain:
                if "reverse" in norm(i.test):
                    calls = [c for s in i.body for c in ast.walk(s) if isinstance(c, ast.Call) and norm(c.func) == "fn"]
                    if calls and len(calls[0].args) >= 2 and norm(calls[0].args[1]) == "obj" and "resolved_args[0]" in norm(calls[0].args[0]):
                        els = [c for s in i.orelse for c in ast.walk(s) if isinstance(c, ast.Call) and norm(c.func) == "fn"]
                        if els and norm(els[0].args[0]) == "obj":
                            ok = True
    (ctx.ok if ok else ctx.fail)("R09.d", ev, ev.node, "_eval_operation calls fn(arg0, obj, ...) iff reverse, else fn(obj, ...)" if ok else
                                 "_eval_operation does not swap the operands exactly when the operation is reflected")

    # ---------------------------------------------------------------- R09.e
    si = ctx.repo.method(RX, "_setup_invalidations")
    regs = []
    for lp in ast.walk(si.node):
        if not isinstance(lp, ast.For):
            continue
        for st in lp.body:
            for c in ast.walk(st):
                if isinstance(c, ast.Call) and isinstance(c.func, ast.Attribute) and c.func.attr in ("_watch", "watch") and c.args \
                        and norm(c.args[0]) in ("self._invalidate_current", "self._invalidate_obj"):
                    regs.append((lp, st, c))
    cur = [r for r in regs if norm(r[2].args[0]) == "self._invalidate_current"]
    if not cur:
        ctx.fail("R09.e", si, si.node, "no invalidation watcher is registered for the expression's own parameters", key=si.qualname + "::no-registration")
    for lp, st, c in cur:
        it = norm(lp.iter)
        names = c.args[1] if len(c.args) > 1 else None
        filtered = isinstance(st, (ast.If,)) or (isinstance(names, (ast.ListComp, ast.GeneratorExp)) and any(g.ifs for g in names.generators)) \
            or any(isinstance(x, (ast.ListComp, ast.GeneratorExp)) and any(g.ifs for g in x.generators) for x in ast.walk(lp.iter))
        whole = "self._internal_params" in it
        if whole and not filtered and st in lp.body and isinstance(st, ast.Expr):
            ctx.ok("R09.e", si, st, "every parameter of self._internal_params gets the _invalidate_current watcher")
        else:
            ctx.fail("R09.e", si, st, "the _invalidate_current watcher is not registered on every parameter of self._internal_params (%s): an update through a skipped "
                                      "parameter leaves this node's cache clean and a later read returns the old value" % (
                                          "filtered/conditional registration" if whole else "iterates %s" % it[:60]),
                     key=si.qualname + "::partial-invalidation",
                     input="b = a + 1; d = b * 2; update the root; read b, then d -> d is stale")
    obj = [r for r in regs if norm(r[2].args[0]) == "self._invalidate_obj"]
    (ctx.ok if obj else ctx.fail)("R09.e", si, obj[0][1] if obj else si.node, "root function parameters get the _invalidate_obj watcher" if obj else
                                  "no _invalidate_obj watcher is registered for the pipeline root")

    # ---------------------------------------------------------------- R09.f
    for mname, flag_target, flag_text in (("_invalidate_current", "self._dirty", "dirty flag"), ("_invalidate_obj", "self._root._dirty_obj", "root dirty flag")):
        g = ctx.repo.method(RX, mname)
        gc = ctx.facts.cfg(g)

        def store_of(n, target, value_ok):
            return n.kind == "stmt" and isinstance(n.ast, ast.Assign) and any(norm(t) == target for t in n.ast.targets) and value_ok(n.ast.value)
        dirty = {n.id for n in gc.live_nodes() if store_of(n, flag_target, lambda v: isinstance(v, ast.Constant) and v.value is True)}
        clear = {n.id for n in gc.live_nodes() if store_of(n, "self._error_state", lambda v: isinstance(v, ast.Constant) and v.value is None)}
        # early return allowed only on the "all events come from my own trigger" branch
        from engine.cfg import decompose
        own = {n.id for n in gc.live_nodes() if n.kind == "br" and any(
            t is True and isinstance(e, ast.Call) and norm(e.func) == "all" and "self._trigger" in norm(e) for e, t in decompose(n.ast, n.polarity))}
        bad = None
        for need, label in ((dirty, flag_text + " set"), (clear, "stored error cleared")):
            if not need:
                bad = bad or "never: %s" % label
                continue
            reach = gc.reachable_from([gc.entry], stop=lambda n: n.id in need or n.id in own, labels={"n", "t", "f"})
            if any(r is gc.exit for r in reach):
                bad = bad or "a path returns without: %s" % label
        if bad:
            ctx.fail("R09.f", g, g.node, "%s: %s -- an invalidation that does not both mark the cache dirty and drop the stored exception leaves a stale value or a sticky error" % (mname, bad),
                     key="%s::incomplete-invalidation" % g.qualname,
                     input="c = a / b with b=0 raises; set b=3 -> still raises (error not cleared) / still old value (not dirty)")
        else:
            ctx.ok("R09.f", g, g.node, "every path (other than the own-trigger return) sets the %s and clears the stored error" % flag_text)
    rs = ctx.repo.method(RX, "_resolve")
    rc = ctx.facts.cfg(rs)
    handlers = [h for t in ast.walk(rs.node) if isinstance(t, ast.Try) for h in t.handlers if h.type is not None and norm(h.type) == "Exception"]
    ok = bool(handlers) and all(any(isinstance(st, ast.Assign) and any(norm(t) == "self._error_state" for t in st.targets) and isinstance(st.value, ast.Name)
                                    and st.value.id == h.name for st in h.body) and any(isinstance(st, ast.Raise) for st in h.body) for h in handlers)
    first = next((st for st in rs.node.body if not (isinstance(st, ast.Expr) and isinstance(st.value, ast.Constant))), None)
    raises_stored = isinstance(first, ast.If) and norm(first.test) == "self._error_state" and any(isinstance(x, ast.Raise) for x in first.body)
    (ctx.ok if ok and raises_stored else ctx.fail)("R09.f", rs, rs.node, "_resolve re-raises a stored error first and stores a new one before re-raising" if ok and raises_stored else
                                                   "_resolve does not store the evaluation error before re-raising / does not re-raise a stored error first")

    # model-level rule, run last
    # ---------------------------------------------------------------- R09.k
    n_k = 0
    for g in ctx.repo.cls(RX).methods.values():
        for m_ in g:
            derives = any(isinstance(c, ast.Call) and isinstance(c.func, ast.Attribute) and c.func.attr in ("_clone", "_resolve_accessor", "_apply_operator")
                          and isinstance(c.func.value, ast.Name) and c.func.value.id == (m_.params[0] if m_.params else "self") for c in ast.walk(m_.node))
            if not derives or m_.name in ("__init__",):
                continue
            n_k += 1
            selfn = m_.params[0]
            stores = [t for st in ast.walk(m_.node) if isinstance(st, (ast.Assign, ast.AugAssign)) for t in (st.targets if isinstance(st, ast.Assign) else [st.target])
                      if isinstance(t, ast.Attribute) and isinstance(t.value, ast.Name) and t.value.id == selfn]
            if stores:
                ctx.fail("R09.k", m_, stores[0], "rx.%s derives a new expression but also stores into `%s`: the expression it was applied to is changed by being used "
                                                 "(after r = e.attr, evaluating r + 1 makes r.rx.value return the whole object)" % (m_.name, norm(stores[0])),
                         key="%s::mutates-operand::%s" % (m_.qualname, stores[0].attr), input="c = rx(3+4j); r = c.real; r + 1; r.rx.value -> (3+4j)")
            else:
                ctx.ok("R09.k", m_, m_.node, "derives a new expression and stores nothing on self")
    ctx.require(n_k >= 5, "fewer than 5 expression-deriving methods found in rx (%d)" % n_k)

    # ---------------------------------------------------------------- R09.n
    n_out = 0
    for g in ctx.repo.all_funcs("param.reactive"):
        inside = g.cls is not None and g.cls.name == "rx" or (g.parent is not None and g.parent.cls is not None and g.parent.cls.name == "rx")
        if inside:
            continue
        n_out += 1
        raw = [a for a in ast.walk(g.node) if isinstance(a, ast.Attribute) and a.attr in ("_current", "_current_") and isinstance(a.ctx, ast.Load)]
        if raw:
            ctx.fail("R09.n", g, raw[0], "`%s` reads the raw cache of an expression from outside class rx: a pending attribute access (x.attr used as an operand or argument) is not applied, so the "
                                         "consumer receives the parent object instead of the attribute" % norm(raw[0]), key="%s::raw-cache-read" % g.qualname,
                     input="box = rx(obj); (x + box.w).rx.value -> TypeError / wrong value")
    ctx.ok("R09.n", RX, None, "%d functions of param.reactive outside class rx: none reads _current / _current_" % n_out)

    from checks import bind_model
    bind_model.report(ctx, "R09.l")
    from checks.rx_model import dependency_model
    dependency_model(ctx, "R09.m")
    from checks import where_model
    where_model.report(ctx, "R09.j")
    from checks import rx_model
    rx_model.report(ctx, "R09.i")
    rx_model.value_setter_model(ctx, "R09.v")
    rx_model.evaluation_order_model(ctx, "R09.o")
    callbacks_read_current_values(ctx, "R09.s")
    user_keywords_reach_the_function(ctx, "R09.t")
    reference_free_arguments_keep_their_identity(ctx, "R09.x")
    root_flag_cleared_after_success(ctx, "R09.y")
    positional_dependencies_in_declared_order(ctx, "R09.z")
    from checks.shared import full_groupby_model
    full_groupby_model(ctx, "R09.q")
    from checks.shared import rx_attribute_resolution_is_per_object
    rx_attribute_resolution_is_per_object(ctx, "R09.w")
    from checks.shared import invalidation_before_consumers
    invalidation_before_consumers(ctx, "R09.p")
    from checks import update_model
    update_model.report(ctx, "C09", "R09.u")
    from checks.shared import flush_model
    flush_model(ctx, "R09.r")


def callbacks_read_current_values(ctx, rule):
    """The function form of `param.depends(..., watch=True)` -- which `.rx.watch(fn)` and `bind(fn, ..., watch=True)` are built
    on -- calls the function with the values its dependencies hold WHEN THE CALLBACK RUNS: the callbacks read
    `getattr(dep.owner, dep.name)`.  A value taken from the announcing event (`event.new`) is the value of the moment
    the event was created: when an earlier watcher of the same dispatch assigned the parameter again (a clamping
    callback), the callbacks still pending for the old event would hand their function the superseded value."""
    f = ctx.repo.func("param.depends.depends")
    nested = [n for n in ast.walk(f.node) if isinstance(n, (ast.FunctionDef, ast.AsyncFunctionDef)) and n is not f.node]
    reads = [a for n in nested for a in ast.walk(n) if isinstance(a, ast.Attribute) and a.attr in ("new", "old") and isinstance(a.ctx, ast.Load)]
    getters = [c for n in nested for c in ast.walk(n) if isinstance(c, ast.Call) and norm(c.func) == "getattr" and len(c.args) >= 2 and norm(c.args[0]).endswith(".owner")]
    ctx.require(getters, "the callbacks of the function form of depends no longer read their dependencies with getattr(dep.owner, dep.name)")
    if reads:
        ctx.fail(rule, f, reads[0], "a callback of the function form of depends takes a dependency's value from the event (`%s`) instead of reading the parameter when it runs: a `.rx.watch` / "
                                    "bind(..., watch=True) callback ordered after a watcher that re-assigns the parameter is called with the superseded value" % norm(reads[0]),
                 key=f.qualname + "::value-from-event", input="p.param.level.rx.watch(cb) next to a watcher that clamps level: cb(20) while p.level == 10")
    else:
        ctx.ok(rule, f, getters[0], "the function-form callbacks read every dependency from its owner when they run (%d reads), never from the event" % len(getters))


def user_keywords_reach_the_function(ctx, rule):
    """`.rx.pipe(fn, *args, **kwargs)` and `.rx.map(fn, *args, **kwargs)` promise fn(value, *args, **kwargs).  They forward the
    caller's keywords with `**kwargs` to an internal method; every NAMED keyword parameter of that method (keyword-only, or
    positional with a default that the call does not fill) captures a user keyword of the same name instead of handing it
    to fn.  For each such forwarding call in param.reactive the captured names are reported."""
    n, findings, examined = 0, [], []
    for g in ctx.repo.all_funcs("param.reactive"):
        kw = g.node.args.kwarg.arg if g.node.args.kwarg else None
        if kw is None or g.name.startswith("_"):
            continue
        if g.cls is not None and g.cls.name == "reactive_ops":
            examined.append(g)
        for c in ast.walk(g.node):
            if not (isinstance(c, ast.Call) and isinstance(c.func, ast.Attribute) and any(k.arg is None and isinstance(k.value, ast.Name) and k.value.id == kw for k in c.keywords)):
                continue
            callee = None
            for cq in ("param.reactive.rx", "param.reactive.reactive_ops"):
                callee = callee or ctx.hier.resolve(cq, c.func.attr)
            if callee is None or not c.func.attr.startswith("_"):
                continue            # forwarded to the user's own function or to a public API with the same contract
            n += 1
            a = callee.node.args
            captured = [x.arg for x in a.kwonlyargs]
            pos = [x.arg for x in a.posonlyargs + a.args][1:]
            n_given = len([x for x in c.args if not isinstance(x, ast.Starred)])
            if not any(isinstance(x, ast.Starred) for x in c.args):
                captured += pos[n_given:]
            if captured:
                findings.append((g, c, callee, captured))
            else:
                ctx.ok(rule, g, c, "the caller's keywords are forwarded to %s, which has no named keyword parameter to capture them" % callee.name)
    ctx.require(len(examined) >= 2, "fewer than 2 public methods of reactive_ops take **kwargs (%d): pipe and map are expected" % len(examined))
    if not findings:
        for g in examined:
            if not any(True for _ in []):
                ctx.ok(rule, g, g.node, "reactive_ops.%s does not hand the caller's keywords to an internal method with named keyword parameters" % g.name)
    for g, c, callee, captured in findings:
        ctx.fail(rule, g, c, "%s forwards the caller's keywords with `**%s` to %s, whose named keyword parameter(s) %s capture a user keyword of the same name: `%s(fn, %s=...)` does not "
                             "call fn(value, %s=...) -- plain Python does" % (g.qualname.split(".", 2)[-1], g.node.args.kwarg.arg, callee.name, captured, g.name, captured[0], captured[0]),
                 key="%s::keyword-captured::%s" % (g.qualname, ",".join(captured)), input="rx([3, 1, 2]).rx.pipe(sorted, reverse=True).rx.value -> IndexError instead of [3, 2, 1]")


def reference_free_arguments_keep_their_identity(ctx, rule):
    """The arguments of an operation are passed through `resolve_value` when the expression is evaluated.  For `.rx.is_(x)` /
    `.rx.is_not(x)` the ARGUMENT'S IDENTITY is the point: `resolve_value`, interpreted on a list / tuple / dict that holds
    no reference at all, must hand back the very object it was given (a rebuilt container is equal, never identical)."""
    from engine.absint import Interp, Obj, Unsupported
    f = ctx.repo.func("param.parameterized.resolve_value")
    x, y = Obj("plain_element_x"), Obj("plain_element_y")
    problems, n = [], 0
    for kind, value in (("list", [x, y]), ("tuple", (x, y)), ("dict", {"k": x})):
        def hook(fn, args, kwargs):
            if fn == "transform_reference" and len(args) == 1:
                return args[0]
            if fn == "hasattr":
                return False
            if fn in ("inspect.isgeneratorfunction", "iscoroutinefunction"):
                return False
            if fn == "isinstance" and len(args) == 2:
                spec = args[1] if isinstance(args[1], tuple) else (args[1],)
                names = {"<type list>": list, "<type tuple>": tuple, "<type dict>": dict}
                if all(s_ in names or s_ in ("<type slice>", "Parameter") for s_ in spec):
                    return any(s_ in names and isinstance(args[0], names[s_]) for s_ in spec)
                return False
            if fn == "type" and len(args) == 1 and isinstance(args[0], (list, tuple, dict)):
                return "<type %s>" % type(args[0]).__name__
            if fn in ("<type list>", "<type tuple>", "<type dict>") and len(args) == 1:
                v = hook.it.force(args[0])
                return {"<type list>": list, "<type tuple>": tuple, "<type dict>": dict}[fn](v) if isinstance(v, (list, tuple)) else NotImplemented
            return NotImplemented
        it = Interp(ctx.hier, call_hook=hook, inline_module_functions=True, globals={"Parameter": "Parameter", "slice": "<type slice>"})
        hook.it = it
        try:
            outs = it.run_all(f, {"value": value, "recursive": True})
        except Unsupported as e:
            raise AnalysisError("%s: absint cannot interpret resolve_value on a %s: %s" % (rule, kind, e))
        if len(outs) != 1 or outs[0].imprecise or outs[0].kind != "return":
            raise AnalysisError("%s: resolve_value is not interpretable precisely on a %s (%s)" % (rule, kind, outs[0].notes[:2] if outs else "no outcome"))
        n += 1
        from engine.absint import TOP as _TOP
        if outs[0].value is _TOP or type(outs[0].value) is not type(value):
            raise AnalysisError("%s: resolve_value returns something the interpreter cannot follow for a %s (%r)" % (rule, kind, outs[0].value))
        if outs[0].value is not value:
            problems.append(kind)
    ctx.abstract_cases += n
    if problems:
        ctx.fail(rule, f, f.node, "resolve_value rebuilds a %s that holds no reference: the operand an expression is evaluated with is equal to the argument given, not identical -- "
                                  "`e.rx.is_(lst)` is False and `e.rx.is_not(lst)` True for the very list the expression wraps (plain Python: `lst is lst`)" % " / ".join(problems),
                 key=f.qualname + "::rebuilds-reference-free-containers", input="lst = [1, 2]; rx(lst).rx.is_(lst).rx.value -> False")
    else:
        ctx.ok(rule, f, f.node, "resolve_value hands back reference-free containers as the objects they are (%d kinds)" % n)


def nested_references_are_resolved(ctx, rule):
    """resolve_value (with the real resolve_ref interpreted next to it) on containers whose ONLY references sit at depth two:
    [[P, 0]], {'a': {'v': P}}, ([P],) -- P a Parameter of a source object.  Specification: the result has the same shape
    with the current value of the source in place of P; nothing of the container is handed back unresolved."""
    from engine.absint import Interp, Obj, Unsupported
    f = ctx.repo.func("param.parameterized.resolve_value")
    cur = Obj("current_value_of_the_source")
    src = Obj("source_object", x=cur)
    P_ = Obj("Parameter_x_of_the_source", owner=src, name="x", __kind__="Parameter")
    zero = Obj("plain_element")
    T = {"<type list>": list, "<type tuple>": tuple, "<type dict>": dict, "<type set>": set}
    problems, n = [], 0
    for desc, value, want in (("[[P, 0]]", [[P_, zero]], [[cur, zero]]), ("{'a': {'v': P}}", {"a": {"v": P_}}, {"a": {"v": cur}}), ("([P],)", ([P_],), ([cur],)), ("[P, [P]]", [P_, [P_]], [cur, [cur]])):
        def hook(fn, args, kwargs):
            if fn == "transform_reference" and len(args) == 1:
                return args[0]
            if fn == "hasattr":
                return False
            if fn in ("inspect.isgeneratorfunction", "iscoroutinefunction"):
                return False
            if fn == "isinstance" and len(args) == 2:
                spec = args[1] if isinstance(args[1], tuple) else (args[1],)
                r = False
                for s_ in spec:
                    if s_ in T:
                        r = r or isinstance(args[0], T[s_])
                    elif s_ == "Parameter":
                        r = r or (isinstance(args[0], Obj) and args[0].attrs.get("__kind__") == "Parameter")
                    elif s_ == "<type slice>":
                        r = r or False
                    else:
                        raise Unsupported("isinstance against %r" % (s_,))
                return r
            if fn == "type" and len(args) == 1 and isinstance(args[0], (list, tuple, dict)):
                return "<type %s>" % type(args[0]).__name__
            if fn in T and len(args) == 1:
                v = hook.it.force(args[0])
                if isinstance(v, (list, tuple)):
                    return T[fn](v)
                return NotImplemented
            if fn == "getattr" and len(args) == 2 and isinstance(args[0], Obj) and isinstance(args[1], str) and args[1] in args[0].attrs:
                return args[0].attrs[args[1]]
            if fn in ("any", "all") and len(args) == 1:
                v = hook.it.force(args[0])
                if isinstance(v, (list, tuple)):
                    ts = [hook.it.truth(x) for x in v]
                    if all(t in (True, False) for t in ts):
                        return any(ts) if fn == "any" else all(ts)
                return NotImplemented
            if fn == "chain.from_iterable" and len(args) == 1:
                v = hook.it.force(args[0])
                return [y for x_ in v for y in x_] if isinstance(v, (list, tuple)) else NotImplemented
            return NotImplemented
        it = Interp(ctx.hier, call_hook=hook, inline_module_functions=True, globals={"Parameter": "Parameter", "slice": "<type slice>"})
        hook.it = it
        try:
            outs = it.run_all(f, {"value": value, "recursive": True})
        except Unsupported as e:
            raise AnalysisError("%s: absint cannot interpret resolve_value on %s: %s" % (rule, desc, e))
        if len(outs) != 1 or outs[0].imprecise or outs[0].kind != "return":
            raise AnalysisError("%s: resolve_value is not interpretable precisely on %s (%s)" % (rule, desc, outs[0].notes[:2] if outs else "no outcome"))
        n += 1

        def same(a, b):
            if isinstance(b, (list, tuple)):
                return type(a) is type(b) and len(a) == len(b) and all(same(x_, y_) for x_, y_ in zip(a, b))
            if isinstance(b, dict):
                return isinstance(a, dict) and list(a) == list(b) and all(same(a[k], b[k]) for k in b)
            return a is b
        if not same(outs[0].value, want):
            problems.append("resolve_value(%s) gives %r, specification %s with the source's current value in place of P" % (desc, outs[0].value, desc))
    ctx.abstract_cases += n
    if problems:
        ctx.fail(rule, f, f.node, "%s: a nested_refs parameter given such a container holds Parameter objects instead of values -- at link time and after every update of the source (%d case(s))" % (
            problems[0], len(problems)), key=f.qualname + "::nested-references-unresolved", input="t = T(l=[[s.param.x, 0]])   # nested_refs=True -> t.l == [[<Parameter x>, 0]]")
    else:
        ctx.ok(rule, f, f.node, "resolve_value resolves references at depth two inside lists, tuples and dicts (%d shapes)" % n)


def root_flag_cleared_after_success(ctx, rule):
    """rx._obj (the getter that refreshes the object at the root of an expression): the mark "the root has to be evaluated
    again" is cleared only AFTER the root function has returned.  Cleared before, a root function that raises leaves the
    root "clean": the branch that was read first caches the error, every sibling branch computes from the previous object
    instead of raising the same exception."""
    cls = ctx.repo.cls("param.reactive.rx")
    getters = [g for g in cls.methods.get("_obj", []) if g.has_decorator("property")]
    if not getters:
        raise AnalysisError("%s: the property rx._obj was not found" % rule)
    g = getters[0]
    cfg = ctx.facts.cfg(g)
    evals = [n for n in cfg.live_nodes() if n.kind != "br" and n.ast is not None and any(isinstance(c, ast.Call) and norm(c.func) == "eval_function_with_deps" for c in ast.walk(n.ast))]
    clears = [n for n in cfg.live_nodes() for t in stores_in(n) if isinstance(t, ast.Attribute) and t.attr == "_dirty_obj"
              and isinstance(n.ast, ast.Assign) and isinstance(n.ast.value, ast.Constant) and n.ast.value.value is False]
    ctx.require(evals and clears, "rx._obj no longer evaluates the root function / clears the re-evaluation mark")
    bad = [c for c in clears if not any(cfg.dominates(e, c) for e in evals)]
    if bad:
        ctx.fail(rule, g, bad[0], "`%s` is not preceded by the evaluation of the root function on every path: when that function raises, the root is already marked clean -- of two expressions "
                                  "derived from one root, the one read second returns a value computed from the previous object instead of raising the same exception" % norm(bad[0].ast),
                 key=g.qualname + "::flag-cleared-before-success", input="two branches over rx(bind(f, p)); p <- a value f raises for; read branch 1 (raises), read branch 2 -> stale value")
    else:
        ctx.ok(rule, g, clears[0], "the re-evaluation mark of the root is cleared after the root function returned")


def positional_dependencies_in_declared_order(ctx, rule):
    """eval_function_with_deps interpreted for a function declared depends(g.width, s.scale, g.height) -- positional Parameter
    dependencies of two owners, interleaved: the function is called with the current values IN THE DECLARED ORDER."""
    from engine.absint import Interp, Obj, Unsupported
    f = ctx.repo.func("param.parameterized.eval_function_with_deps")
    vw, vs, vh = Obj("value_of_g.width"), Obj("value_of_s.scale"), Obj("value_of_g.height")
    g_, s_ = Obj("object_g", width=vw, height=vh), Obj("object_s", scale=vs)
    deps = [Obj("P_g.width", owner=g_, name="width", __kind__="Parameter"), Obj("P_s.scale", owner=s_, name="scale", __kind__="Parameter"), Obj("P_g.height", owner=g_, name="height", __kind__="Parameter")]
    fn = Obj("declared_function", _dinfo={"dependencies": list(deps), "kw": {}})
    got = {}

    def hook(fn_, args, kwargs):
        if fn_ == "function":
            got["args"], got["kwargs"] = tuple(hook.it.force(a) if not isinstance(a, Obj) else a for a in args), dict(kwargs)
            return Obj("result")
        if fn_ == "hasattr" and len(args) == 2:
            return isinstance(args[0], Obj) and args[1] in args[0].attrs
        if fn_ == "isinstance" and len(args) == 2:
            return isinstance(args[0], Obj) and args[0].attrs.get("__kind__") == "Parameter"
        if fn_ == "getattr" and len(args) == 2 and isinstance(args[0], Obj) and args[1] in args[0].attrs:
            return args[0].attrs[args[1]]
        return NotImplemented
    it = Interp(ctx.hier, call_hook=hook, globals={"Parameter": "Parameter"})
    hook.it = it
    try:
        outs = it.run_all(f, {"function": fn})
    except Unsupported as e:
        raise AnalysisError("%s: absint cannot interpret eval_function_with_deps: %s" % (rule, e))
    if len(outs) != 1 or outs[0].imprecise or outs[0].kind != "return" or "args" not in got:
        raise AnalysisError("%s: eval_function_with_deps is not interpretable precisely (%s)" % (rule, outs[0].notes[:2] if outs else "no outcome"))
    ctx.abstract_cases += 1
    a = got["args"]
    if len(a) != 3 or a[0] is not vw or a[1] is not vs or a[2] is not vh or got["kwargs"]:
        ctx.fail(rule, f, f.node, "a function declared depends(g.width, s.scale, g.height) is called with %s, specification (width, scale, height): the expression over it yields a value the plain call "
                                  "would not compute" % ([getattr(x, "name", x) for x in a],), key=f.qualname + "::argument-order", input="@depends(g.param.width, s.param.scale, g.param.height) def area(w, k, h); rx(area)")
    else:
        ctx.ok(rule, f, f.node, "positional dependencies of interleaved owners reach the function in the declared order")
