"""C09 -- only the clause "every operator form Python can dispatch to the
expression, including all reflected operators, is supported" (DESIGN §3/C09)."""
from __future__ import annotations

import ast
import math
import operator

from engine.loader import norm

RX = "param.reactive.rx"
# Binary operators of the Python data model (language reference §3.3.8) and the
# stdlib function that computes `a <op> b`.
BINARY = {
    "add": "operator.add", "sub": "operator.sub", "mul": "operator.mul", "matmul": "operator.matmul",
    "truediv": "operator.truediv", "floordiv": "operator.floordiv", "mod": "operator.mod",
    "divmod": "divmod", "pow": "operator.pow", "lshift": "operator.lshift", "rshift": "operator.rshift",
    "and": "operator.and_", "xor": "operator.xor", "or": "operator.or_",
}
COMPARE = {"lt": "operator.lt", "le": "operator.le", "eq": "operator.eq", "ne": "operator.ne",
           "gt": "operator.gt", "ge": "operator.ge"}
UNARY = {"neg": "operator.neg", "pos": "operator.pos", "invert": {"operator.inv", "operator.invert"},
         "abs": {"abs", "operator.abs"}, "ceil": "math.ceil", "floor": "math.floor", "trunc": "math.trunc"}
PY3_SPECIAL = set("__%s__" % n for n in list(BINARY) + list(COMPARE) + list(UNARY)) | set("__r%s__" % n for n in BINARY) | {
    "__getitem__", "__round__", "__str__", "__iter__", "__bool__", "__len__", "__call__", "__contains__"}


def applied(fnode):
    """(function expression text, reverse flag, call) of `return self._apply_operator(F, other, reverse=...)`."""
    for st in fnode.body:
        if isinstance(st, ast.Return) and isinstance(st.value, ast.Call) and norm(st.value.func) == "self._apply_operator" and st.value.args:
            c = st.value
            rev = None
            for k in c.keywords:
                if k.arg == "reverse":
                    rev = k.value.value if isinstance(k.value, ast.Constant) else "?"
            return norm(c.args[0]), rev, c
    return None


def exists(fn_text):
    if fn_text.startswith("operator."):
        return hasattr(operator, fn_text.split(".", 1)[1])
    if fn_text.startswith("math."):
        return hasattr(math, fn_text.split(".", 1)[1])
    return fn_text in ("divmod", "abs", "round", "str", "next", "list")


def run(ctx):
    ctx.rule("R09.a", "class rx defines the forward and the reflected special method of every binary operator of the Python data model", floor=28)
    ctx.rule("R09.b", "every operator./math. function referenced by a Python-3 special method of rx exists in that stdlib module", floor=40)
    ctx.rule("R09.c", "each reflected method applies the same function as its forward form and passes reverse=True; forward forms do not", floor=26)
    ctx.rule("R09.d", "each forward/comparison/unary special method applies the stdlib function the data model assigns to it; _eval_operation swaps the operands iff reverse", floor=25)
    ctx.not_decided += ["that .rx.value equals the plain-Python result after arbitrary read/update histories (cache coherence) -- not statically decidable here and NOT claimed",
                        "the .rx helper namespace (pipe, where, and_, ...) and rx.watch delivery"]
    cls = ctx.repo.cls(RX)
    for name, fn in BINARY.items():
        for form, refl in (("__%s__" % name, False), ("__r%s__" % name, True)):
            m = cls.method(form)
            if m is None:
                ctx.fail("R09.a", RX, None, "rx does not define %s: Python cannot dispatch `%s` to the expression (TypeError)" % (
                    form, ("other %s rx" if refl else "rx %s other") % name),
                    key="%s::missing::%s" % (RX, form), input="%s" % ("[[1]] @ rx(...)" if name == "matmul" else "2 <%s> rx(1)" % name))
                continue
            ctx.ok("R09.a", m, m.node, "%s defined" % form)
            ap = applied(m.node)
            if ap is None:
                ctx.fail("R09.c", m, m.node, "%s does not return self._apply_operator(<function>, other...)" % form)
                continue
            fexpr, rev, call = ap
            if not exists(fexpr):
                ctx.fail("R09.b", m, m.node, "%s references `%s`, which does not exist in the standard library: the operator raises AttributeError" % (form, fexpr),
                         key="%s::nonexistent-function" % m.qualname, input="2 << rx(1)")
            else:
                ctx.ok("R09.b", m, m.node, "`%s` exists" % fexpr)
            if refl:
                fwd = cls.method("__%s__" % name)
                fap = applied(fwd.node) if fwd is not None else None
                same = fap is not None and fap[0] == fexpr
                if rev is True and same:
                    ctx.ok("R09.c", m, m.node, "applies %s with reverse=True like the forward form" % fexpr)
                elif rev is not True:
                    ctx.fail("R09.c", m, m.node, "%s does not pass reverse=True: `other <op> rx` is evaluated as `rx <op> other`" % form,
                             key="%s::no-reverse" % m.qualname)
                else:
                    ctx.fail("R09.c", m, m.node, "%s applies `%s` but the forward form applies `%s`" % (form, fexpr, fap[0] if fap else "?"),
                             key="%s::function-differs" % m.qualname)
            else:
                if rev in (None, False):
                    ctx.ok("R09.c", m, m.node, "forward form without reverse")
                else:
                    ctx.fail("R09.c", m, m.node, "forward method %s passes reverse=%r" % (form, rev))
                if fexpr == fn:
                    ctx.ok("R09.d", m, m.node, "%s -> %s" % (form, fexpr))
                else:
                    ctx.fail("R09.d", m, m.node, "%s applies `%s`; the data model's function for this operator is `%s`" % (form, fexpr, fn))
    for table in (COMPARE, UNARY):
        for name, fn in table.items():
            form = "__%s__" % name
            m = cls.method(form)
            if m is None:
                ctx.fail("R09.d", RX, None, "rx does not define %s" % form, key="%s::missing::%s" % (RX, form))
                continue
            ap = applied(m.node)
            want = fn if isinstance(fn, set) else {fn}
            if ap is None:
                ctx.fail("R09.d", m, m.node, "%s does not return self._apply_operator(<function>...)" % form)
            elif ap[0] in want and ap[1] in (None, False):
                ctx.ok("R09.d", m, m.node, "%s -> %s" % (form, ap[0]))
                if exists(ap[0]):
                    ctx.ok("R09.b", m, m.node, "`%s` exists" % ap[0])
                else:
                    ctx.fail("R09.b", m, m.node, "%s references `%s`, which does not exist" % (form, ap[0]))
            else:
                ctx.fail("R09.d", m, m.node, "%s applies `%s` (reverse=%r); the data model's function is `%s`" % (form, ap[0], ap[1], "/".join(sorted(want))))
    # dunders that are not Python-3 special methods: dead code, informational
    for mname, fl in cls.methods.items():
        if mname.startswith("__") and mname.endswith("__") or mname.startswith("__"):
            ap = applied(fl[-1].node)
            if ap is not None and mname not in PY3_SPECIAL:
                ctx.info("R09.b", fl[-1], fl[-1].node, "%s is not a Python 3 special method (dead code; references %s)" % (mname, ap[0]))
    # _apply_operator records reverse; _eval_operation honours it
    ao = ctx.repo.method(RX, "_apply_operator")
    d = [n for n in ast.walk(ao.node) if isinstance(n, ast.Dict)]
    ok = any(any(isinstance(k, ast.Constant) and k.value == "reverse" and isinstance(v, ast.Name) and v.id == "reverse" for k, v in zip(x.keys, x.values)) for x in d)
    (ctx.ok if ok else ctx.fail)("R09.d", ao, ao.node, "_apply_operator records the reverse flag in the operation" if ok else "_apply_operator drops the reverse flag")
    ev = ctx.repo.method(RX, "_eval_operation")
    ok = False
    for st in ast.walk(ev.node):
        if isinstance(st, ast.If):
            chain = [st]
            while chain[-1].orelse and len(chain[-1].orelse) == 1 and isinstance(chain[-1].orelse[0], ast.If):
                chain.append(chain[-1].orelse[0])
            for i in chain:
                if "reverse" in norm(i.test):
                    calls = [c for s in i.body for c in ast.walk(s) if isinstance(c, ast.Call) and norm(c.func) == "fn"]
                    if calls and len(calls[0].args) >= 2 and norm(calls[0].args[1]) == "obj" and "resolved_args[0]" in norm(calls[0].args[0]):
                        els = [c for s in i.orelse for c in ast.walk(s) if isinstance(c, ast.Call) and norm(c.func) == "fn"]
                        if els and norm(els[0].args[0]) == "obj":
                            ok = True
    (ctx.ok if ok else ctx.fail)("R09.d", ev, ev.node, "_eval_operation calls fn(arg0, obj, ...) iff reverse, else fn(obj, ...)" if ok else
                                 "_eval_operation does not swap the operands exactly when the operation is reflected")
