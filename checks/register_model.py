"""Registration model (C03): Parameters._register_watcher interpreted abstractly.

Tables: the instance table {parameter: {what: [watchers]}} and the
per-Parameter tables {what: [watchers]}.  The list for (a, value) already holds
w1, a second registration `twin` with the same fields as the one being handled
(Watcher is a namedtuple: they compare equal) and w2.

Specification: 'append' adds the given watcher, once, at the end of the list of
each of its parameters, in the table the dispatchers read for that kind of
watcher (instance table for value watchers of an instance, the Parameter's own
table otherwise) and leaves the other registrations alone; 'remove' takes away
exactly one registration equal to the given one from each of those lists --
every other registration, in particular an equal second one, stays.
"""
from __future__ import annotations

import itertools

from engine.absint import Interp, Obj, Unsupported
from engine.loader import AnalysisError

P = "param.parameterized."


def _record_hook():
    """Hook for code that handles Watcher records as namedtuples (`w._replace(...)`, getattr with a default)."""
    def hook(fn, args, kwargs):
        if fn.endswith("._replace") and not args:
            recv = getattr(hook.it, "current_receiver", None)
            if isinstance(recv, Obj):
                attrs = dict(recv.attrs)
                attrs.update(kwargs)
                # two records whose fields are equal compare equal: without their callers two dependency watchers of one
                # method on one object are the same record
                attrs["__eqclass__"] = "same-fields-without-fn" if "fn" in kwargs else recv.attrs.get("__eqclass__")
                return Obj("record_from_" + recv.name, **attrs)
        if fn == "getattr" and len(args) in (2, 3) and isinstance(args[0], Obj) and isinstance(args[1], str):
            return args[0].attrs.get(args[1], args[2] if len(args) == 3 else None)
        return NotImplemented
    hook.needs_receiver = True
    return hook


def run_case(ctx, f, action, instance, what, names, present):
    cb = Obj("user_callback")        # a plain callback: no method name attached
    w1, w2 = Obj("w1", __eqclass__="w1", fn=Obj("callback_1")), Obj("w2", __eqclass__="w2", fn=Obj("callback_2"))
    twin = Obj("equal_twin", __eqclass__="same-fields", fn=cb)
    w = Obj("the_watcher", __eqclass__="same-fields", parameter_names=tuple(names), fn=cb)
    base = [w1, twin, w2] + ([w] if present else [])
    inst_tab = {"a": {"value": list(base)}}
    p_tabs = {k: Obj("P_" + k, watchers={"value": list(base)} if k == "a" else {}) for k in ("a", "b")}
    if present and "b" in names:
        inst_tab["b"] = {"value": [w]}
        p_tabs["b"].attrs["watchers"]["value"] = [w]
    inst = Obj("instance", _param__private=Obj("private", initialized=True, watchers=inst_tab)) if instance else None
    ns = Obj("ns", self=inst, cls=Obj("Cls", __name__="Cls", param=Obj("cls_param", __contains__=["a", "b"])), __getitem__=dict(p_tabs), __contains__=["a", "b"])
    hook = _record_hook()
    it = Interp(ctx.hier, dyn=P + "Parameters", inline=lambda m: True, call_hook=hook, strict_self_calls=True, inline_module_functions=True)
    hook.it = it
    outs = it.run_all(f, {"self_": ns, "action": action, "watcher": w, "what": what})
    if len(outs) != 1 or outs[0].imprecise:
        raise AnalysisError("registration model: Parameters._register_watcher is not interpretable precisely (%s)" % (outs[0].notes[:2] if outs else "no outcome"))
    return outs[0], inst_tab, p_tabs, w, twin, (w1, w2), base


def model(ctx):
    f = ctx.repo.func(P + "Parameters._register_watcher")
    problems, n = [], 0
    for action, instance, what, names in itertools.product(["append", "remove"], [True, False], ["value", "bounds"], [("a",), ("a", "b")]):
        present = action == "remove"
        if what == "bounds":
            # slot watchers of `a` live in the Parameter's table under their own key: start from an empty list there
            pass
        try:
            o, inst_tab, p_tabs, w, twin, (w1, w2), base = run_case(ctx, f, action, instance, what, names, present)
        except Unsupported as e:
            raise AnalysisError("registration model: absint cannot interpret Parameters._register_watcher: %s" % e)
        n += 1
        desc = "%s of a watcher of %s (%s) on %s" % ("registration" if action == "append" else "removal", "/".join(names), what, "an instance" if instance else "a class")
        use_inst = instance and what == "value"
        for pn in names:
            lst = (inst_tab.get(pn, {}) if use_inst else p_tabs[pn].attrs["watchers"]).get(what)
            had = list(base) if (pn == "a" and what == "value") else ([w] if (pn == "b" and what == "value" and present) else [])
            if action == "remove" and not had:
                continue           # removing from a list that never held it: raising is fine, not specified
            if o.kind != "return":
                problems.append((desc, "raises %s" % getattr(o, "what", "?")))
                break
            if not isinstance(lst, list):
                problems.append((desc, "no list of watchers for (%s, %s) in the table the dispatchers read" % (pn, what)))
                continue
            if action == "append":
                if len(lst) != len(had) + 1 or lst[-1] is not w or any(a is not b for a, b in zip(lst, had)):
                    problems.append((desc, "the list for (%s, %s) becomes %s, specification %s + [the watcher]" % (pn, what, [x.name for x in lst], [x.name for x in had])))
            else:
                same = [x for x in lst if x is w or x is twin]
                others = [x for x in lst if x is not w and x is not twin]
                if pn == "b":
                    if lst:
                        problems.append((desc, "the list for (b, %s) still holds %s" % (what, [x.name for x in lst])))
                elif len(same) != 1 or [x.name for x in others] != ["w1", "w2"]:
                    problems.append((desc, "the list for (%s, %s) becomes %s: specification: exactly one of the two equal registrations is removed and every other registration stays "
                                           "(a registration that was not unwatched must keep receiving events)" % (pn, what, [x.name for x in lst])))
        # the other table is left alone
        other = p_tabs["a"].attrs["watchers"].get("value") if use_inst else inst_tab["a"]["value"]
        if [x.name for x in other] != [x.name for x in base]:
            problems.append((desc, "the table that is not concerned changes too"))
    return n, problems


def sibling_callers(ctx):
    """One sub-object attached to TWO parents of the same class: both parents have a dependency watcher on it whose fields
    are identical except for the caller (`fn` -- each caller is bound to its own parent; both carry the same method
    name).  Removing the watcher of the parent that registered second must remove THAT watcher: the other parent keeps
    firing on the sub-object's changes."""
    f = ctx.repo.func(P + "Parameters._register_watcher")
    fn_other = Obj("caller_bound_to_the_other_parent", _watcher_name="cb")
    fn_mine = Obj("caller_bound_to_this_parent", _watcher_name="cb")
    common = dict(inst=Obj("shared_sub_object"), cls=Obj("SubCls"), mode="args", onlychanged=True, parameter_names=("x",), what="value", queued=False, precedence=-1)
    w_other = Obj("watcher_of_the_other_parent", fn=fn_other, __eqclass__="other", **common)
    w_mine = Obj("watcher_of_this_parent", fn=fn_mine, __eqclass__="mine", **common)
    lst = [w_other, w_mine]
    inst_tab = {"x": {"value": lst}}
    inst = Obj("instance", _param__private=Obj("private", initialized=True, watchers=inst_tab))
    ns = Obj("ns", self=inst, cls=Obj("Cls", __name__="Cls", param=Obj("cls_param", __contains__=["x"])), __getitem__={"x": Obj("P_x", watchers={})}, __contains__=["x"])

    hook = _record_hook()
    it = Interp(ctx.hier, dyn=P + "Parameters", inline=lambda m: True, call_hook=hook, strict_self_calls=True, inline_module_functions=True)
    hook.it = it
    try:
        outs = it.run_all(f, {"self_": ns, "action": "remove", "watcher": w_mine, "what": "value"})
    except Unsupported as e:
        raise AnalysisError("registration model: absint cannot interpret Parameters._register_watcher: %s" % e)
    if len(outs) != 1 or outs[0].imprecise or outs[0].kind != "return":
        raise AnalysisError("registration model: Parameters._register_watcher is not interpretable precisely (%s)" % (outs[0].notes[:2] if outs else "no outcome"))
    left = inst_tab["x"]["value"]
    if len(left) != 1 or left[0] is not w_other:
        return ["removing the dependency watcher of one parent from a sub-object attached to two parents leaves %s registered, specification [the other parent's watcher]: the parent that still "
                "holds the object stops firing on its changes, the parent that detached it keeps a live watcher (the watchers differ only in the caller they run)" % [x.name for x in left]]
    return []


def report(ctx, rule):
    n, problems = model(ctx)
    sib = sibling_callers(ctx)
    n += 1
    problems = problems + [("removal of one of two dependency watchers that differ only in their caller", s_) for s_ in sib]
    f = ctx.repo.func(P + "Parameters._register_watcher")
    ctx.abstract_cases += n
    if not problems:
        ctx.ok(rule, f, f.node, "registration model, %d abstract cases: append adds the watcher once at the end of the right lists, remove takes away exactly one equal registration" % n)
    else:
        desc, what = problems[0]
        ctx.fail(rule, f, f.node, "registration model: %s: %s (%d disagreeing case(s))" % (desc, what, len(problems)), key=f.qualname + "::registration-model", input=desc)


def api_model(ctx):
    """The public registration calls: watch(...) and watch_values(...) interpreted with a distinct abstract value for every
    argument; the Watcher record handed to _register_watcher must carry every argument given (a dropped `queued`,
    `onlychanged` or `precedence` silently falls back to the default), the right calling mode, and the names as a tuple."""
    problems, n = [], 0
    for api, mode in (("watch", "args"), ("watch_values", "kwargs")):
        f = ctx.repo.func(P + "Parameters." + api)
        for names_in, queued, onlychanged, precedence in itertools.product([["a", "b"], "a"], [True, False], [True, False], [0, 7]):
            fn = Obj("callback")
            inst = Obj("instance")
            cls = Obj("Cls")
            ns = Obj("ns", self=inst, cls=cls)
            registered = []

            def hook(fn_, args, kwargs):
                if fn_ == "self_._register_watcher":
                    registered.append((args, kwargs))
                    return None
                if fn_ == "isinstance" and len(args) == 2 and args[1] in ("<type list>", "<type tuple>", "<type str>"):
                    return {"<type list>": isinstance(args[0], list), "<type tuple>": isinstance(args[0], tuple), "<type str>": isinstance(args[0], str)}[args[1]]
                return NotImplemented
            it = Interp(ctx.hier, dyn=P + "Parameters", inline=lambda m: m == "_watch", call_hook=hook, strict_self_calls=True)
            try:
                outs = it.run_all(f, {"self_": ns, "fn": fn, "parameter_names": list(names_in) if isinstance(names_in, list) else names_in, "what": "value",
                                      "onlychanged": onlychanged, "queued": queued, "precedence": precedence})
            except Unsupported as e:
                raise AnalysisError("registration model: absint cannot interpret Parameters.%s: %s" % (api, e))
            if len(outs) != 1 or outs[0].imprecise or outs[0].kind != "return":
                raise AnalysisError("registration model: Parameters.%s is not interpretable precisely (%s)" % (api, outs[0].notes[:2] if outs else "no outcome"))
            n += 1
            desc = "%s(fn, %r, onlychanged=%s, queued=%s, precedence=%s)" % (api, names_in, onlychanged, queued, precedence)
            if len(registered) != 1 or len(registered[0][0]) < 2 or registered[0][0][0] != "append":
                problems.append((desc, "registers %d watcher(s)" % len(registered)))
                continue
            w = registered[0][0][1]
            fields = getattr(w, "kwargs", None)
            if not isinstance(fields, dict):
                raise AnalysisError("registration model: the Watcher built by Parameters.%s is not a keyword-built record (%r)" % (api, w))
            want = {"inst": inst, "cls": cls, "fn": fn, "mode": mode, "onlychanged": onlychanged, "parameter_names": tuple(names_in) if isinstance(names_in, list) else (names_in,),
                    "what": "value", "queued": queued, "precedence": precedence}
            for k, v in want.items():
                got = fields.get(k, "<not given>")
                same = (got is v) if isinstance(v, Obj) or isinstance(v, bool) else (got == v and type(got) is type(v))
                if not same:
                    problems.append((desc, "the registered Watcher has %s=%r, specification %r%s" % (k, got, v,
                                     ": assignments made by the callback are dispatched while it is still running instead of after it" if k == "queued" else "")))
            if outs[0].value is not w:
                problems.append((desc, "returns %r, not the registered Watcher (it could never be unwatched)" % (outs[0].value,)))
    return n, problems


def report_api(ctx, rule):
    n, problems = api_model(ctx)
    f = ctx.repo.func(P + "Parameters.watch_values")
    ctx.abstract_cases += n
    if not problems:
        ctx.ok(rule, f, f.node, "registration model (public calls), %d abstract cases: the Watcher registered by watch / watch_values carries every argument given" % n)
    else:
        desc, what = problems[0]
        ctx.fail(rule, f, f.node, "registration model: %s: %s (%d disagreeing case(s))" % (desc, what, len(problems)), key=f.qualname + "::watch-api-model", input=desc)
