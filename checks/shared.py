"""Rule bodies shared by several properties (the same structural fact is a
necessary condition of more than one property)."""
import ast

from engine.facts import calls_in, stores_in
from engine.loader import norm

P = "param.parameterized."


def sorted_by_precedence(expr) -> bool:
    if isinstance(expr, ast.Call) and norm(expr.func) == "sorted":
        for k in expr.keywords:
            if k.arg == "key":
                if isinstance(k.value, ast.Lambda) and isinstance(k.value.body, ast.Attribute) and k.value.body.attr == "precedence":
                    return not any(kk.arg == "reverse" and not (isinstance(kk.value, ast.Constant) and kk.value.value is False) for kk in expr.keywords)
                if isinstance(k.value, ast.Call) and norm(k.value.func) in ("attrgetter", "operator.attrgetter") and k.value.args \
                        and isinstance(k.value.args[0], ast.Constant) and k.value.args[0].value == "precedence":
                    return True
    return False


def dispatch_loops_sorted(ctx, rule, sites):
    """Each loop that calls `callee` iterates sorted(watchers, key=precedence),
    a local bound only to that, or a list sorted in place on every path."""
    for q, callee in sites:
        g = ctx.repo.func(q)
        loops = [st for st in ast.walk(g.node) if isinstance(st, ast.For)
                 and any(isinstance(c, ast.Call) and isinstance(c.func, ast.Attribute) and c.func.attr == callee for c in ast.walk(st))]
        ctx.require(loops, "dispatch loop calling %s not found in %s" % (callee, q))
        for lp in loops:
            it = lp.iter
            ok = sorted_by_precedence(it)
            if not ok and isinstance(it, ast.Name):
                defs = [st for st in ast.walk(g.node) if isinstance(st, ast.Assign) and any(isinstance(t, ast.Name) and t.id == it.id for t in st.targets)]
                ok = bool(defs) and all(sorted_by_precedence(d.value) for d in defs)
                if not ok:
                    gcfg = ctx.facts.cfg(g)
                    heads = [n for n in gcfg.live_nodes() if n.kind == "iter" and n.stmt is lp]
                    sorts = [n for n in gcfg.live_nodes() for c in calls_in(n) if isinstance(c.func, ast.Attribute) and c.func.attr == "sort"
                             and norm(c.func.value) == it.id and sorted_by_precedence(ast.Call(func=ast.Name(id="sorted"), args=[], keywords=c.keywords))]
                    ok = bool(heads) and any(all(gcfg.dominates(sn, h) for h in heads) for sn in sorts)
            if ok:
                ctx.ok(rule, g, lp, "iterates sorted(..., key=precedence)")
            else:
                ctx.fail(rule, g, lp, "the dispatch loop `for %s in %s` does not (on every path) iterate the watchers sorted by precedence with a stable sort: "
                                      "watchers run in queue/registration order regardless of precedence" % (norm(lp.target), norm(it)[:60]),
                         key="%s::unsorted-dispatch" % g.qualname)


def flush_drains(ctx, rule):
    """The flush empties both queues before running the watchers, inside a
    `while <events>` loop (events raised by the watchers are flushed too)."""
    fl = ctx.repo.func(P + "Parameters._batch_call_watchers")
    fc = ctx.facts.cfg(fl)
    loops = [nd for nd in fc.live_nodes() if nd.kind == "iter" and any(
        isinstance(c, ast.Call) and isinstance(c.func, ast.Attribute) and c.func.attr == "_execute_watcher" for c in ast.walk(nd.stmt))]
    resets = {}
    for nd in fc.live_nodes():
        for t in stores_in(nd):
            fld = ctx.facts.field_of(t, {})
            if fld in ("_events", "_state_watchers") and isinstance(nd.ast, ast.Assign) and isinstance(nd.ast.value, ast.List) and not nd.ast.value.elts:
                resets.setdefault(fld, []).append(nd)
    outer = [nd for nd in fc.live_nodes() if nd.kind == "test" and isinstance(nd.stmt, ast.While) and norm(nd.ast).endswith("._events")]
    inside = bool(outer) and all(any(any(x is lp for x in fc.reachable_from([o], labels={"t", "n", "f"})) and any(x is o for x in fc.reachable_from([lp])) for o in outer) for lp in loops)
    if loops and all(any(fc.dominates(r, lp) for r in resets.get(fld, [])) for lp in loops for fld in ("_events", "_state_watchers")) and inside:
        ctx.ok(rule, fl, loops[0], "both queues are emptied before the watchers run, inside `while <events>` (events raised by queued watchers are flushed too)")
    else:
        ctx.fail(rule, fl, fl.node, "the flush does not empty both queues before running the watchers inside a `while <events>` loop: "
                                    "events raised by the watchers it runs (queued watchers) are lost or delivered twice", key=fl.qualname + "::no-drain-loop",
                 input="queued watcher on a sets b; queued watcher on b sets c; p.a = 1 -> c's watcher is never called")


def ctor_records_every_ref(ctx, rule):
    from engine.cfg import decompose
    sp_ = ctx.repo.func(P + "Parameters._setup_params")
    spc_ = ctx.facts.cfg(sp_)
    recs = [n for n in spc_.live_nodes() if n.kind == "stmt" and isinstance(n.ast, ast.Assign) and isinstance(n.ast.targets[0], ast.Subscript)
            and norm(n.ast.targets[0].value) == "refs" and norm(n.ast.value) == "ref"]
    ctx.require(recs, "_setup_params no longer records refs[name] = ref")
    for n in recs:
        inner = []
        for d in spc_.dominating(n):
            if d.kind == "br":
                inner = [(norm(e), t) for e, t in decompose(d.ast, d.polarity)]
                break
        if inner == [("ref is None", False)] or inner == [("ref is not None", True)]:
            ctx.ok(rule, sp_, n, "constructor records every reference (guard: ref is not None)")
        else:
            ctx.fail(rule, sp_, n, "the constructor records a reference only when %s: other references are evaluated but never entered in refs, so a later override "
                                   "can neither end the link nor cancel a pending asynchronous evaluation" % (" and ".join("%s is %s" % x for x in inner)),
                     key=sp_.qualname + "::conditional-ref-recording",
                     input="P(x=coro_fn_without_dependencies); p.x = 'plain' while pending -> the stale async result overwrites 'plain'")
