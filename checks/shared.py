"""Rule bodies shared by several properties (the same structural fact is a
necessary condition of more than one property)."""
import ast

from engine.facts import calls_in, stores_in
from engine.loader import norm

P = "param.parameterized."


def sorted_by_precedence(expr) -> bool:
    if isinstance(expr, ast.Call) and norm(expr.func) == "sorted":
        for k in expr.keywords:
            if k.arg == "key":
                if isinstance(k.value, ast.Lambda) and isinstance(k.value.body, ast.Attribute) and k.value.body.attr == "precedence":
                    return not any(kk.arg == "reverse" and not (isinstance(kk.value, ast.Constant) and kk.value.value is False) for kk in expr.keywords)
                if isinstance(k.value, ast.Call) and norm(k.value.func) in ("attrgetter", "operator.attrgetter") and k.value.args \
                        and isinstance(k.value.args[0], ast.Constant) and k.value.args[0].value == "precedence":
                    return True
    return False


def dispatch_loops_sorted(ctx, rule, sites):
    """Each loop that calls `callee` iterates sorted(watchers, key=precedence),
    a local bound only to that, or a list sorted in place on every path."""
    for q, callee in sites:
        g = ctx.repo.func(q)
        loops = [st for st in ast.walk(g.node) if isinstance(st, ast.For)
                 and any(isinstance(c, ast.Call) and isinstance(c.func, ast.Attribute) and c.func.attr == callee for c in ast.walk(st))]
        ctx.require(loops, "dispatch loop calling %s not found in %s" % (callee, q))
        for lp in loops:
            it = lp.iter
            ok = sorted_by_precedence(it)
            if not ok and isinstance(it, ast.Name):
                defs = [st for st in ast.walk(g.node) if isinstance(st, ast.Assign) and any(isinstance(t, ast.Name) and t.id == it.id for t in st.targets)]
                ok = bool(defs) and all(sorted_by_precedence(d.value) for d in defs)
                if not ok:
                    gcfg = ctx.facts.cfg(g)
                    heads = [n for n in gcfg.live_nodes() if n.kind == "iter" and n.stmt is lp]
                    sorts = [n for n in gcfg.live_nodes() for c in calls_in(n) if isinstance(c.func, ast.Attribute) and c.func.attr == "sort"
                             and norm(c.func.value) == it.id and sorted_by_precedence(ast.Call(func=ast.Name(id="sorted"), args=[], keywords=c.keywords))]
                    ok = bool(heads) and any(all(gcfg.dominates(sn, h) for h in heads) for sn in sorts)
            if ok:
                ctx.ok(rule, g, lp, "iterates sorted(..., key=precedence)")
            else:
                ctx.fail(rule, g, lp, "the dispatch loop `for %s in %s` does not (on every path) iterate the watchers sorted by precedence with a stable sort: "
                                      "watchers run in queue/registration order regardless of precedence" % (norm(lp.target), norm(it)[:60]),
                         key="%s::unsorted-dispatch" % g.qualname)


def flush_drains(ctx, rule):
    """The flush empties both queues before running the watchers, inside a
    `while <events>` loop (events raised by the watchers are flushed too)."""
    fl = ctx.repo.func(P + "Parameters._batch_call_watchers")
    fc = ctx.facts.cfg(fl)
    loops = [nd for nd in fc.live_nodes() if nd.kind == "iter" and any(
        isinstance(c, ast.Call) and isinstance(c.func, ast.Attribute) and c.func.attr == "_execute_watcher" for c in ast.walk(nd.stmt))]
    resets = {}
    for nd in fc.live_nodes():
        for t in stores_in(nd):
            fld = ctx.facts.field_of(t, {})
            if fld in ("_events", "_state_watchers") and isinstance(nd.ast, ast.Assign) and isinstance(nd.ast.value, ast.List) and not nd.ast.value.elts:
                resets.setdefault(fld, []).append(nd)
    outer = [nd for nd in fc.live_nodes() if nd.kind == "test" and isinstance(nd.stmt, ast.While) and norm(nd.ast).endswith("._events")]
    inside = bool(outer) and all(any(any(x is lp for x in fc.reachable_from([o], labels={"t", "n", "f"})) and any(x is o for x in fc.reachable_from([lp])) for o in outer) for lp in loops)
    if loops and all(any(fc.dominates(r, lp) for r in resets.get(fld, [])) for lp in loops for fld in ("_events", "_state_watchers")) and inside:
        ctx.ok(rule, fl, loops[0], "both queues are emptied before the watchers run, inside `while <events>` (events raised by queued watchers are flushed too)")
    else:
        ctx.fail(rule, fl, fl.node, "the flush does not empty both queues before running the watchers inside a `while <events>` loop: "
                                    "events raised by the watchers it runs (queued watchers) are lost or delivered twice", key=fl.qualname + "::no-drain-loop",
                 input="queued watcher on a sets b; queued watcher on b sets c; p.a = 1 -> c's watcher is never called")


def ctor_records_every_ref(ctx, rule):
    from engine.cfg import decompose
    sp_ = ctx.repo.func(P + "Parameters._setup_params")
    spc_ = ctx.facts.cfg(sp_)
    recs = [n for n in spc_.live_nodes() if n.kind == "stmt" and isinstance(n.ast, ast.Assign) and isinstance(n.ast.targets[0], ast.Subscript)
            and norm(n.ast.targets[0].value) == "refs" and norm(n.ast.value) == "ref"]
    ctx.require(recs, "_setup_params no longer records refs[name] = ref")
    for n in recs:
        # every branch fact that must hold at the store and talks about a result of the _resolve_ref call
        res_names = set()
        for d in spc_.dominating(n):
            if d.kind == "stmt" and isinstance(d.ast, ast.Assign) and isinstance(d.ast.value, ast.Call) and norm(d.ast.value.func).endswith("_resolve_ref"):
                res_names = {x.id for t in d.ast.targets for x in ast.walk(t) if isinstance(x, ast.Name)}
        ctx.require(res_names, "the constructor's _resolve_ref call does not dominate refs[name] = ref")
        inner = []
        for e, t in spc_.conditions(n):
            if {x.id for x in ast.walk(e) if isinstance(x, ast.Name)} & res_names:
                inner.append((norm(e), t))
        inner = sorted(set(inner))
        if inner == [("ref is None", False)] or inner == [("ref is not None", True)]:
            ctx.ok(rule, sp_, n, "constructor records every reference (guard: ref is not None)")
        else:
            ctx.fail(rule, sp_, n, "the constructor records a reference only when %s: other references are evaluated but never entered in refs, so no watcher is installed for them "
                                   "(later source updates never arrive) and a later override can neither end the link nor cancel a pending asynchronous evaluation" % (
                                       " and ".join("%s is %s" % x for x in inner)),
                     key=sp_.qualname + "::conditional-ref-recording",
                     input="P(x=bind(fn, src.param.v)) where fn raises Skip for the initial value; src.v = <valid> later -> p.x never updates")


def inherited_default_revalidated(ctx, rule):
    """Class creation: after inherited slots were merged, the default is validated again whenever the type
    changed or a slot was overridden -- for every default other than None (0, '', [] and False included)."""
    import itertools
    from engine.absint import Interp, Obj, Unsupported, TOP
    from engine.loader import AnalysisError
    f = ctx.repo.func(P + "ParameterizedMetaclass.__param_inheritance")
    cfg = ctx.facts.cfg(f)
    vals = [n for n in cfg.live_nodes() for c in calls_in(n) if isinstance(c.func, ast.Attribute) and c.func.attr == "_validate"
            and len(c.args) == 1 and norm(c.args[0]).endswith(".default")]
    ctx.require(vals, "__param_inheritance no longer validates the default after merging the inherited slots")
    vn = vals[0]
    pname = norm([c for c in calls_in(vn) if isinstance(c.func, ast.Attribute) and c.func.attr == "_validate"][0].func.value)
    tests = [(d, d.polarity) for d in cfg.dominating(vn) if d.kind == "br"]
    flag_names = sorted({x.id for d, _ in tests for x in ast.walk(d.ast) if isinstance(x, ast.Name) and x.id != pname})
    it = Interp(ctx.hier)
    bad = []
    n = 0
    for kind in ("none", "falsy", "truthy"):
        for flags in itertools.product([False, True], repeat=len(flag_names)):
            d = None if kind == "none" else Obj("default_" + kind)
            if kind == "falsy":
                d.attrs["__bool__"] = False
            env = dict(zip(flag_names, flags))
            env[pname] = Obj("param", default=d)
            try:
                reached = all(it.truth(it.eval(t.ast, dict(env), f)) is pol for t, pol in tests)
                res = [it.truth(it.eval(t.ast, dict(env), f)) for t, _ in tests]
            except Unsupported as e:
                raise AnalysisError("cannot evaluate the re-validation guard of __param_inheritance: %s -- %s cannot decide" % (e, rule))
            if any(r is TOP for r in res):
                raise AnalysisError("the re-validation guard of __param_inheritance depends on something the model does not know (%s) -- %s cannot decide" % (
                    ", ".join(norm(t.ast) for t, _ in tests), rule))
            n += 1
            bad.append((kind, env, reached))
    ctx.abstract_cases += n
    table = {(k, tuple(sorted((a, b) for a, b in e.items() if a != pname))): r for k, e, r in bad}
    problems = []
    for (k, fl), r in table.items():
        if k == "falsy" and table[("truthy", fl)] != r:
            problems.append("a default that is falsy but not None (0, 0.0, '', [], False) is %s with %s while any other default is %s" % (
                "validated" if r else "NOT validated", dict(fl), "validated" if table[("truthy", fl)] else "not validated"))
        if k == "truthy" and any(v for _, v in fl) and not r and all(v for _, v in fl):
            problems.append("a default is not validated although every re-validation trigger holds (%s)" % dict(fl))
    if not any(r for (k, fl), r in table.items() if k == "truthy"):
        problems.append("the default is never validated again")
    if problems:
        ctx.fail(rule, f, vn, "class creation: %s -- a subclass that overrides only the default inherits bounds it does not satisfy, and the class is created with an invalid default" % problems[0],
                 key=f.qualname + "::revalidation-guard",
                 input="class A(Parameterized): n = Integer(5, bounds=(1, 10));  class B(A): n = Integer(0)  -> must raise at class creation")
    else:
        ctx.ok(rule, f, vn, "guard `%s`: %d abstract cases, falsy non-None defaults are treated like any other default" % (" / ".join(norm(t.ast) for t, _ in tests), n))


def slot_event_carries_assigned_value(ctx, rule):
    """Parameter.__setattr__: the event announcing a change of a Parameter attribute has, as old, what was read before
    the store and, as new, the very value that was assigned (not something read back through a property, which may be a
    different view: Selector.objects reads back as a bare list, so a rename of the labels would compare 'unchanged')."""
    sa = ctx.repo.method(P + "Parameter", "__setattr__")
    cfg = ctx.facts.cfg(sa)
    calls = [(n, c) for n in cfg.live_nodes() for c in calls_in(n) if isinstance(c.func, ast.Attribute) and c.func.attr == "_trigger_event" and len(c.args) == 3]
    ctx.require(calls, "Parameter.__setattr__ no longer calls _trigger_event(attribute, old, new)")
    vparam = sa.params[2] if len(sa.params) > 2 else "value"
    for n, c in calls:
        new_e, old_e = c.args[2], c.args[1]
        rebinds = [st for st in ast.walk(sa.node) if isinstance(st, (ast.Assign, ast.AugAssign)) and any(isinstance(t, ast.Name) and t.id == vparam for t in (st.targets if isinstance(st, ast.Assign) else [st.target]))]
        if not (isinstance(new_e, ast.Name) and new_e.id == vparam) or rebinds:
            ctx.fail(rule, sa, n, "the event's new value is `%s`, not the assigned value `%s`: what watchers of a Parameter attribute are told (and what the changes-only filter compares) is a "
                                  "read-back that a property may have transformed -- replacing a Selector's objects by the same objects under other names then looks unchanged and notifies nobody" % (
                                      norm(new_e), vparam), key=sa.qualname + "::event-new-not-assigned-value", input="s.objects = {'x': 1, 'y': 2} after {'a': 1, 'b': 2}: no `objects` event")
        else:
            ctx.ok(rule, sa, n, "_trigger_event(attribute, old, %s): the assigned value itself" % vparam)


def getstate_complete(ctx, rule):
    """Parameterized.__getstate__ interpreted abstractly: the state handed to pickle / deepcopy holds the instance's
    complete value store -- also the entries that are (still) the very object the class declares as default: that
    entry is what pins a constant to the instance."""
    from engine.absint import Interp, Obj, Unsupported
    from engine.loader import AnalysisError
    gs = ctx.repo.method(P + "Parameterized", "__getstate__")
    dflt = Obj("class_default_of_c")
    own = Obj("own_value_of_x")
    # a per-instance Parameter object that differs from the class-level one ONLY in its default (the class default was
    # changed after the copy was made, or `obj.param.x.default` was edited): values(onlychanged=True) and repr read it
    ptype = Obj("NumberType", _all_slots_=["name", "default", "bounds", "owner", "watchers"])
    bounds = (0, 1)
    class_px = Obj("P_x", name="x", default=Obj("class_default_of_x"), bounds=bounds, owner=None, watchers={}, __type__=ptype)
    inst_px = Obj("per_instance_Parameter_x", name="x", default=Obj("default_of_the_instance_copy"), bounds=bounds, owner=None, watchers={}, __type__=ptype)
    priv = Obj("instance_private", values={"c": dflt, "x": own, "name": "P00001"}, params={"x": inst_px}, __kind__="_InstancePrivate")
    cls = Obj("Cls", param=Obj("class_namespace"))
    me = Obj("instance", _param__private=priv, plain_attribute=Obj("attr"))
    me.attrs["__dict__"] = {"_param__private": priv, "plain_attribute": me.attrs["plain_attribute"]}
    me.attrs["__type__"] = cls

    def hook(fn, args, kwargs):
        if fn == "get_occupied_slots":
            return []
        if fn == "isinstance" and len(args) == 2:
            return isinstance(args[0], Obj) and args[0].attrs.get("__kind__") == "_InstancePrivate"
        if fn == "type" and args and args[0] is me:
            return cls
        if fn.endswith(".param.objects"):
            return {"c": Obj("P_c", default=dflt), "x": class_px, "name": Obj("P_name", default="P")}
        if fn == "type" and args and isinstance(args[0], Obj) and "__type__" in args[0].attrs:
            return args[0].attrs["__type__"]
        if fn == "getattr" and len(args) == 2 and isinstance(args[0], Obj) and isinstance(args[1], str) and args[1] in args[0].attrs:
            return args[0].attrs[args[1]]
        if fn == "Comparator.is_equal" and len(args) == 2:
            return args[0] is args[1] or (isinstance(args[0], tuple) and args[0] == args[1])
        if fn in ("copy.copy", "copy"):
            a = args[0]
            return Obj("copy_of_" + a.name, **dict(a.attrs)) if isinstance(a, Obj) else (dict(a) if isinstance(a, dict) else a)
        return NotImplemented
    it = Interp(ctx.hier, dyn=P + "Parameterized", inline=lambda m: False, call_hook=hook, globals={"_InstancePrivate": "<_InstancePrivate>"}, inline_module_functions=True)
    try:
        outs = it.run_all(gs, {gs.params[0]: me})
    except Unsupported as e:
        raise AnalysisError("absint cannot interpret Parameterized.__getstate__: %s -- %s cannot decide" % (e, rule))
    ctx.abstract_cases += 1
    if len(outs) != 1 or outs[0].imprecise or outs[0].kind != "return" or not isinstance(outs[0].value, dict):
        raise AnalysisError("absint imprecise on Parameterized.__getstate__ -- %s cannot decide" % rule)
    st = outs[0].value
    p2 = st.get("_param__private")
    vals = p2.attrs.get("values") if isinstance(p2, Obj) else None
    if not isinstance(vals, dict) or set(vals) != {"c", "x", "name"} or vals.get("c") is not dflt or vals.get("x") is not own:
        ctx.fail(rule, gs, gs.node, "the state saved for an instance whose value store holds {c: <the class default object>, x: <own value>} holds %s: the entry that is still the class default is what "
                                    "pins a constant to the instance -- a copy / unpickled object without it follows later class-level changes" % (
                                        sorted(vals) if isinstance(vals, dict) else vals), key=gs.qualname + "::value-store-incomplete",
                 input="c = copy.deepcopy(p); P.const = other -> c.const is other")
    elif st.get("plain_attribute") is not me.attrs["plain_attribute"]:
        ctx.fail(rule, gs, gs.node, "an ordinary attribute of the instance is missing from the saved state", key=gs.qualname + "::attribute-missing")
    elif not isinstance(p2.attrs.get("params"), dict) or p2.attrs["params"].get("x") is not inst_px:
        ctx.fail(rule, gs, gs.node, "the state saved for an instance that owns a per-instance Parameter object (one that differs from the class-level Parameter in its `default` only) holds the "
                                    "per-instance Parameters %s: the copy re-derives the Parameter from the class, so its per-instance Parameter attributes (the default that repr and "
                                    "values(onlychanged=True) read) are not the original's" % (sorted(p2.attrs["params"]) if isinstance(p2.attrs.get("params"), dict) else p2.attrs.get("params")),
                 key=gs.qualname + "::parameter-table-incomplete", input="p.param.x; P.x = 5; c = copy.deepcopy(p) -> c.param.x.default != p.param.x.default")
    else:
        ctx.ok(rule, gs, gs.node, "the saved state holds every ordinary attribute and the complete value store (entries equal to the class default included)")


def class_cm_restores(ctx, rule):
    """Class-based context managers (__enter__/__exit__): every attribute that __enter__ assigns is assigned again on
    every path through __exit__ (exceptional outcome of the block included: __exit__ is what runs then)."""
    n = 0
    for cq, cobj in ctx.repo.classes.items():
        en, ex = cobj.method("__enter__"), cobj.method("__exit__")
        if en is None or ex is None:
            continue
        targets = sorted({norm(t) for st in ast.walk(en.node) if isinstance(st, ast.Assign) for t in st.targets if isinstance(t, ast.Attribute)})
        if not targets:
            continue
        cfg = ctx.facts.cfg(ex)
        for tgt in targets:
            n += 1
            seen, stack, skipped = set(), [cfg.entry], False
            while stack:
                nd = stack.pop()
                if nd.id in seen:
                    continue
                seen.add(nd.id)
                if nd.kind == "stmt" and isinstance(nd.ast, ast.Assign) and any(norm(t) == tgt for t in nd.ast.targets):
                    continue
                if nd is cfg.exit:
                    skipped = True
                    break
                stack.extend(t for l, t in nd.succ if l != "e")
            if skipped:
                ctx.fail(rule, ex, ex.node, "%s.__enter__ sets `%s`, but a path through __exit__ returns without setting it again: when the block ends that way (e.g. with an exception) "
                                            "the switch stays on for everything that follows" % (cobj.name, tgt), key="%s::%s::not-restored-on-every-path" % (ex.qualname, tgt),
                         input="with shared_parameters(): raise ...  (caught by the caller) -> later instances share their instantiate=True values")
            else:
                ctx.ok(rule, ex, ex.node, "%s: `%s` is assigned on every path through __exit__" % (cobj.name, tgt))
    ctx.require(n >= 1, "no class-based context manager with state found")


def event_model(ctx, rule, prop):
    """Event.__set__ interpreted abstractly: mode x outcome of the assignment proper (succeeds / refused / a watcher raises)."""
    import itertools
    from engine.absint import Interp, Obj, Unsupported, _Raise
    from engine.loader import AnalysisError
    ev = ctx.repo.method("param.parameters.Event", "__set__")
    problems = []
    n = 0
    for mode, outcome, value in itertools.product(["set-reset", "set", "reset"], ["ok", "refused", "watcher-raises"], [True, False]):
        log = []

        def hook(fn, args, kwargs, outcome=outcome, log=log):
            if fn == "super().__set__":
                log.append("assign")
                if outcome != "ok":
                    raise _Raise("ValueError" if outcome == "refused" else "RuntimeError")
                return None
            if fn == "self._reset_event":
                log.append("reset")
                return None
            return NotImplemented
        me = Obj("event_parameter", _mode=mode, name="e", _autotrigger_value=True, _autotrigger_reset_value=False)
        it = Interp(ctx.hier, dyn="param.parameters.Event", inline=lambda m: False, call_hook=hook)
        try:
            outs = it.run_all(ev, {ev.params[0]: me, ev.params[1]: Obj("instance"), ev.params[2]: value})
        except Unsupported as e:
            raise AnalysisError("absint cannot interpret Event.__set__: %s -- %s cannot decide" % (e, rule))
        n += 1
        if len(outs) != 1 or outs[0].imprecise:
            raise AnalysisError("absint imprecise on Event.__set__ -- %s cannot decide" % rule)
        want = {"set-reset": ["assign", "reset"], "set": ["assign"], "reset": ["reset"]}[mode]
        desc = "Event in mode %r, the assignment of %s %s" % (mode, value, {"ok": "succeeds", "refused": "is refused", "watcher-raises": "is stored and a watcher raises"}[outcome])
        if log != want:
            why = ""
            if mode == "set" and "reset" in log:
                why = ": while update()/trigger() deliver the Event it is held in mode 'set'; an assignment to it that fails (e.g. a refused one made by one of its own watchers) must not flip it to False under the watchers still to come"
            elif mode == "set-reset" and "reset" not in log and value is True:
                why = ": the Event stays True, its next firing is an unchanged assignment that nobody is told about"
            elif "assign" not in log and "assign" in want:
                why = ": `obj.e = False` is an assignment like any other -- a set-watcher (onlychanged=False) is owed its event, and a callback that switches the Event off while it is being delivered changes its value"
            problems.append("%s: does %s, specification %s%s" % (desc, log, want, why))
        elif (outcome != "ok" and mode != "reset") != (outs[0].kind == "raise"):
            problems.append("%s: outcome %s" % (desc, outs[0].kind))
    ctx.abstract_cases += n
    # C02 is concerned only by a failed assignment that changes the Event (mode 'set': the reset flips it under the watchers still to come)
    rel = [p_ for p_ in problems if prop != "C02" or "in mode 'set'," in p_]
    if rel:
        ctx.fail(rule, ev, ev.node, "Event model: %s (%d disagreeing case(s))" % (rel[0], len(rel)), key=ev.qualname + "::event-model",
                 input="a watcher of Event e makes a refused assignment to e while p.param.trigger('e') delivers it -> later watchers see e == False")
    else:
        ctx.ok(rule, ev, ev.node, "Event model, %d abstract cases (mode x assignment succeeds / is refused / a watcher raises x True / False assigned): assigned and reset exactly as the mode says" % n)


def restorer_model(ctx, rule):
    """_ParametersRestorer.__exit__ interpreted abstractly: leaving `with obj.param.update(...)` assigns back
    EVERY recorded previous value (also one identical to the current value: that plain assignment is what ends a
    temporary link and cancels a pending asynchronous reference) together with every remembered reference, in one
    update, and forgets the record -- also when that update raises."""
    from engine.absint import Interp, Obj, Unsupported, _Raise
    from engine.loader import AnalysisError
    ex = ctx.repo.method(P + "_ParametersRestorer", "__exit__")
    prev_a, prev_b, ref_c = Obj("previous_value_of_a"), Obj("previous_value_of_b"), Obj("remembered_reference_of_c")
    bad = None
    n = 0
    for same, fails in ((False, False), (True, False), (False, True)):
        calls = []
        cur = {"a": prev_a if same else Obj("temporary_value_of_a"), "b": Obj("temporary_value_of_b"), "c": Obj("temporary_value_of_c")}

        def hook(fn, args, kwargs, calls=calls, fails=fails):
            if fn.endswith("._update") or fn.endswith(".update") and fn.startswith("self._parameters"):
                calls.append(dict(args[0]) if args and isinstance(args[0], dict) else dict(kwargs))
                if fails:
                    raise _Raise("ValueError")
                return {}
            if fn.endswith(".values"):
                return dict(cur)
            if fn == "getattr" and len(args) >= 2 and isinstance(args[1], str):
                return cur.get(args[1], args[2] if len(args) > 2 else None)
            return NotImplemented
        params = Obj("namespace", self_or_cls=Obj("instance", **cur), __getitem__={k: Obj("P_" + k) for k in cur})
        me = Obj("restorer", _parameters=params, _restore={"a": prev_a, "b": prev_b, "c": Obj("previous_value_of_c")}, _refs={"c": ref_c})
        it = Interp(ctx.hier, dyn=P + "_ParametersRestorer", inline=lambda m: True, call_hook=hook)
        try:
            outs = it.run_all(ex, {ex.params[0]: me, ex.params[1]: None, ex.params[2]: None, ex.params[3]: None})
        except Unsupported as e:
            raise AnalysisError("absint cannot interpret _ParametersRestorer.__exit__: %s -- %s cannot decide" % (e, rule))
        n += 1
        if len(outs) != 1 or outs[0].imprecise:
            raise AnalysisError("absint imprecise on _ParametersRestorer.__exit__ -- %s cannot decide" % rule)
        desc = "leaving the block%s%s" % (" while `a` still holds the very object it held before" if same else "", ", the restoring update raises" if fails else "")
        merged = {}
        for c in calls:
            merged.update(c)
        want = {"a": prev_a, "b": prev_b, "c": ref_c}
        if len(calls) != 1 or set(merged) != set(want) or any(merged[k] is not want[k] for k in want):
            bad = "%s: the restorer assigns %s in %d update(s), specification: one update with the previous value of a and b and the remembered reference of c -- a value that looks unchanged must be " \
                  "assigned back too: that plain assignment is what ends a temporary link and cancels a reference that is still pending" % (
                      desc, {k: getattr(v, "name", v) for k, v in merged.items()}, len(calls))
            break
        if me.attrs["_restore"]:
            bad = "%s: the record of previous values is kept (a second exit would restore stale values)" % desc
            break
        if fails != (outs[0].kind == "raise"):
            bad = "%s: outcome %s" % (desc, outs[0].kind)
            break
    ctx.abstract_cases += n
    if bad:
        ctx.fail(rule, ex, ex.node, "update-context exit: " + bad, key=ex.qualname + "::restorer-model",
                 input="with p.param.update(x=coro_fn): pass   (left while the coroutine is suspended) -> the late result overwrites the restored value")
    else:
        ctx.ok(rule, ex, ex.node, "3 abstract cases: every previous value and remembered reference is assigned back in one update, the record is cleared, also on failure")


def syncing_set_replaced(ctx, rule):
    """_syncing must replace the syncing set by a fresh object and restore the saved one."""

    sy = ctx.repo.func("param.parameterized._syncing")
    al = ctx.facts.local_aliases(sy)
    saves = {t.id for st in ast.walk(sy.node) if isinstance(st, ast.Assign) and ctx.facts.field_of(st.value, al) == "private.syncing" for t in st.targets if isinstance(t, ast.Name)}
    ctx.require(saves, "_syncing no longer saves the syncing set")
    bad = None
    for st in ast.walk(sy.node):
        if isinstance(st, ast.AugAssign) and (ctx.facts.field_of(st.target, al) == "private.syncing" or (isinstance(st.target, ast.Name) and st.target.id in saves)):
            bad = st
        if isinstance(st, ast.Call) and isinstance(st.func, ast.Attribute) and st.func.attr in ("add", "update", "discard", "remove", "clear", "difference_update", "__ior__") \
                and (ctx.facts.field_of(st.func.value, al) == "private.syncing" or (isinstance(st.func.value, ast.Name) and st.func.value.id in saves)):
            bad = st
    if bad is not None:
        ctx.fail(rule, sy, bad, "`%s` mutates in place the very set object that was saved for the restore: the names stay marked as syncing after the scope, so a later plain "
                                   "assignment is taken for the sync's own write and does not cancel the pending reference" % norm(bad), key=sy.qualname + "::saved-set-mutated-in-place",
                 input="a reference delivers one value to p.x; later p.x = coro_ref (pending); p.x = 'plain'; the coroutine completes -> p.x holds the stale result")
    else:
        ctx.ok(rule, sy, sy.node, "the syncing set is replaced, never mutated in place")



def comparator_model(ctx, rule):
    """Comparator.compare_iterator / compare_mapping interpreted abstractly on small containers of
    abstract elements (element equality = identity of the abstract element): equal iff same container
    type, same length / key set and pairwise-equal elements."""
    from engine.absint import Interp, Obj, Unsupported
    from engine.loader import AnalysisError
    x, y, z = Obj("x"), Obj("y"), Obj("z")

    class ListProxyLike(list):
        """A list subclass (what `Selector.objects` hands out; the `old` of a wholesale replacement event)."""

    class OrderedDictLike(dict):
        """A dict subclass."""
    cases = {
        "compare_iterator": [
            # a list subclass and a plain list of the same elements are different values (replacing a dict-declared Selector's
            # objects by a plain list of the same objects drops the labels: its watchers must hear about it)
            (ListProxyLike([x, y]), [x, y], False), ([x, y], ListProxyLike([x, y]), False), (ListProxyLike([x, y]), ListProxyLike([x, y]), True),
            ([x, y], [x, y], True), ([x, y], [x, z], False), ([x, y], [z, y], False), ([x], [x, y], False), ([x, y], [x], False),
            ([x, y], (x, y), False), ([], [], True), ((x, y), (x, y), True), ([x, y], [y, x], False), ([None, x], [None, x], True), ([None], [x], False),
        ],
        "compare_mapping": [
            # the same keys in another insertion order, values matching position by position but not key by key
            ({"lo": x, "hi": y}, {"hi": x, "lo": y}, False), ({"lo": x, "hi": y}, {"hi": y, "lo": x}, True),
            (OrderedDictLike({"a": x}), {"a": x}, False),
            ({"a": x, "b": y}, {"a": x, "b": y}, True), ({"a": x, "b": y}, {"b": y, "a": x}, True), ({"a": x, "b": y}, {"a": x, "b": z}, False),
            ({"a": x, "b": y}, {"a": x, "c": y}, False), ({"a": x, "b": y}, {"c": x, "d": y}, False), ({"a": x}, {"a": x, "b": y}, False),
            ({"a": x, "b": y}, {"a": x}, False), ({}, {}, True), ({"a": x}, {"b": x}, False),
            # None is a legal value: a missing key must not be mistaken for a key holding None
            ({"a": x, "b": None}, {"a": x, "c": y}, False), ({"a": None}, {"b": None}, False), ({"a": x, "c": y}, {"a": x, "b": None}, False), ({"a": None}, {"a": None}, True),
        ],
    }

    def hook(fn, args, kwargs):
        if fn == "cls.is_equal" and len(args) == 2:
            return args[0] is args[1]
        if fn == "type" and len(args) == 1:
            return type(args[0]).__name__
        if fn == "isinstance" and len(args) == 2 and isinstance(args[1], str) and isinstance(args[0], (list, tuple, dict)):
            # the second argument is a type as the `type` hook above names it
            return args[1] in [c.__name__ for c in type(args[0]).__mro__]
        return NotImplemented
    for m, cs in cases.items():
        g = ctx.repo.method(P + "Comparator", m)
        bad = []
        for o1, o2, want in cs:
            it = Interp(ctx.hier, dyn=P + "Comparator", inline=lambda mm: mm != "is_equal", call_hook=hook, strict_self_calls=True)
            try:
                outs = it.run_all(g, {g.params[0]: Obj("Comparator"), g.params[1]: o1, g.params[2]: o2})
            except Unsupported as e:
                raise AnalysisError("absint cannot interpret Comparator.%s: %s -- %s cannot decide" % (m, e, rule))
            ctx.abstract_cases += 1
            if len(outs) != 1 or outs[0].imprecise or outs[0].kind != "return" or outs[0].value not in (True, False):
                raise AnalysisError("absint imprecise on Comparator.%s(%r, %r): %s" % (m, o1, o2, outs[0].notes[:2] if outs else "no outcome"))
            if outs[0].value is not want:
                bad.append((o1, o2, outs[0].value, want))
        if bad:
            o1, o2, got, want = bad[0]
            ctx.fail(rule, g, g.node, "Comparator.%s(%s %r, %s %r) answers %s, specification %s: %s" % (
                m, type(o1).__name__, o1, type(o2).__name__, o2, got, want, "a genuine change is reported as no change, so changes-only watchers (and every reactive expression downstream) are not notified" if got
                else "equal values are reported as a change"), key="%s::comparer-model::%s" % (g.qualname, "false-equal" if got else "false-change"),
                input="p.d = {'a': 1, 'b': 2}; p.d = {'a': 1, 'c': 2} -> no event")
        else:
            ctx.ok(rule, g, g.node, "%d/%d abstract container pairs agree (type, size, key set, element-wise equality)" % (len(cs), len(cs)))


def flush_model(ctx, rule):
    """Abstract interpretation of Parameters._batch_call_watchers on small
    queues: every queued watcher runs exactly once, in (precedence, queue
    position) order, with one event per watched parameter that has one -- the
    LAST queued event for that (name, what); events raised while a queued
    watcher runs are delivered in a further round."""
    import itertools
    from engine.absint import Interp, Obj, Unsupported
    from engine.loader import AnalysisError
    fl = ctx.repo.func(P + "Parameters._batch_call_watchers")

    def mk_watchers():
        return {
            "w1": Obj("w1", precedence=0, parameter_names=["a"], what="value", queued=False, onlychanged=True),
            "w2": Obj("w2", precedence=-1, parameter_names=["a", "b"], what="value", queued=False, onlychanged=False),
            "w3": Obj("w3", precedence=0, parameter_names=["b"], what="value", queued=True, onlychanged=True),
            "w4": Obj("w4", precedence=1, parameter_names=["a"], what="value", queued=False, onlychanged=True),
            "w5": Obj("w5", precedence=0, parameter_names=["a", "b"], what="value", queued=False, onlychanged=True),
            # a watcher of the `bounds` slot of parameter a (events named A*): same name, other `what`
            "w6": Obj("w6", precedence=0, parameter_names=["a"], what="bounds", queued=False, onlychanged=True),
        }
    # a0: an assignment of the value `a` already holds (queued on behalf of a set-watcher); what a
    # watcher qualifies for is decided when the event is queued, not again at the flush
    # aback: `a` is assigned the value it held before the batch again (each of the two assignments is a change)
    event_seqs = [["a1"], ["a1", "b1"], ["a1", "b1", "a2"], ["b1", "a1"], ["a1", "a2"], ["a1", "a0", "b1"], ["a0", "b1"], ["a1", "aback"], ["a1", "b1", "aback"],
                  ["a1", "A1"], ["A1", "a1"], ["A1", "a1", "A2"], ["A1"]]
    n, bad, badflag = 0, [], []
    for evnames in event_seqs:
        for r in (1, 2, 3):
            for order in itertools.permutations(["w1", "w2", "w3", "w4", "w5", "w6"] if any(e[0] == "A" for e in evnames) else ["w1", "w2", "w3", "w4", "w5"], r):
                ws = mk_watchers()
                # a watcher is queued together with an event of a parameter it watches: other queue contents cannot arise
                def _what(e):
                    return "bounds" if e[0] == "A" else "value"
                if any(not ({(e[0].lower(), _what(e)) for e in evnames} & {(nm, ws[k].attrs["what"]) for nm in ws[k].attrs["parameter_names"]}) for k in order):
                    continue
                cur = {"a": Obj("value_of_a_before_the_batch"), "b": Obj("value_of_b_before_the_batch"), "A": Obj("bounds_of_a_before_the_batch")}
                start = dict(cur)
                events = []
                for e in evnames:
                    new = cur[e[0]] if e.endswith("0") else start[e[0]] if e.endswith("back") else Obj("value_installed_by_" + e)
                    events.append(Obj(e, name=e[0].lower(), what=_what(e), id=e, old=cur[e[0]], new=new, obj=None, cls=None, type=None))
                    cur[e[0]] = new
                # the queued watchers are no longer registered anywhere (e.g. a relink rebuilt the source watchers after
                # the event was queued): what was queued for an event that happened is delivered all the same
                pnames = {k: Obj("P_" + k, watchers={}) for k in ("a", "b", "c")}
                ns = Obj("ns", _events=list(events), _state_watchers=[ws[k] for k in order], _TRIGGER=False, _BATCH_WATCH=False, self_or_cls=Obj("owner"),
                         self=None, __getitem__=pnames, __contains__=list(pnames))
                ns.attrs["cls"] = Obj("Cls", param=ns)
                runs = []
                cascade = {"done": False}
                scope = {"enable": None}
                flags = []

                def hook(fn, args, kwargs):
                    if fn.endswith("._update_event_type"):
                        return args[1]
                    if fn == "_batch_call_watchers":
                        # the per-watcher scope: batching is on inside it iff `enable` (it covers the execution that follows)
                        scope["enable"] = kwargs.get("enable", args[1] if len(args) > 1 else True)
                        return Obj("scope")
                    if fn.endswith("._changed") and len(args) == 1 and isinstance(args[0], Obj):
                        return args[0].attrs.get("old") is not args[0].attrs.get("new")
                    if fn == "Event" and not args:
                        # an event the flush builds itself (e.g. one transition per parameter): judged by what it carries
                        return Obj("event_built_by_the_flush", id="built", **kwargs)
                    if fn.endswith("._execute_watcher"):
                        if not (len(args) == 2 and isinstance(args[0], Obj) and isinstance(args[1], (list, tuple)) and all(isinstance(e, Obj) for e in args[1])):
                            raise AnalysisError("flush model: _execute_watcher is called with arguments the model cannot follow (%r)" % (args,))
                        runs.append((args[0].name, [(e.attrs.get("name"), e.attrs.get("new")) for e in args[1]]))
                        flags.append((args[0].name, bool(ns.attrs.get("_BATCH_WATCH")) or scope["enable"] is True, bool(args[0].attrs.get("queued"))))
                        scope["enable"] = None
                        # a queued watcher assigns `c` while it runs: raised once
                        if args[0].name == "w3" and not cascade["done"]:
                            cascade["done"] = True
                            ns.attrs["_events"].append(Obj("c1", name="c", what="value", id="c1", old=Obj("value_of_c_before"), new=c_new))
                            ns.attrs["_state_watchers"].append(wc)
                        return None
                    return NotImplemented
                # the watcher of the second round watches `a` as well: in that round only `c` had an event (what the first round
                # delivered for `a` is not delivered again)
                wc = Obj("wc", precedence=0, parameter_names=["c", "a"], what="value", queued=False, onlychanged=True)
                c_new = Obj("value_installed_by_c1")
                it = Interp(ctx.hier, dyn=P + "Parameters", inline=lambda m: True, call_hook=hook, strict_self_calls=True)
                try:
                    outs = it.run_all(fl, {"self_": ns})
                except Unsupported as e:
                    raise AnalysisError("absint cannot interpret the flush: %s -- %s cannot decide" % (e, rule))
                n += 1
                if any(o.imprecise for o in outs) or len(outs) != 1:
                    raise AnalysisError("absint imprecise on the flush (%s): %s" % (order, outs[0].notes[:2]))
                last = {}
                for e in events:
                    last[(e.attrs["name"], e.attrs["what"])] = (e.attrs["name"], e.attrs["new"])
                expect = []
                for k in sorted(order, key=lambda k: (ws[k].attrs["precedence"], order.index(k))):
                    evs = [last[(nm, ws[k].attrs["what"])] for nm in ws[k].attrs["parameter_names"] if (nm, ws[k].attrs["what"]) in last]
                    expect.append((k, evs))
                if "w3" in order:
                    expect.append(("wc", [("c", c_new)]))
                leftover = len(ns.attrs["_events"]) + len(ns.attrs["_state_watchers"])
                if runs != expect or leftover:
                    bad.append((list(order), evnames, runs, expect, leftover))
                wrong_flag = [(k, on) for k, on, queued in flags if on != queued]
                if wrong_flag or ns.attrs.get("_BATCH_WATCH") is not False:
                    badflag.append((list(order), evnames, wrong_flag, ns.attrs.get("_BATCH_WATCH")))
    ctx.abstract_cases += n
    if badflag and not bad:
        order, evnames, wrong, after = badflag[0]
        ctx.fail(rule, fl, fl.node, "flush model: with queued watchers %s (w3 is a queued=True watcher) and queued events %s, %s; specification: batching is on while a queued=True watcher runs, off while "
                                    "any other watcher runs (what it assigns, and a batch or update it opens itself, is delivered before it returns) and off after the flush" % (
                                        order, evnames, "; ".join("%s runs with batching %s" % (k, "on" if on else "off") for k, on in wrong) or "the batching flag is %r after the flush" % (after,)),
                 key=fl.qualname + "::flush-model-batching-flag", input="a queued=True watcher and a plain watcher of lower priority in one flush: the plain watcher's own `with batch_call_watchers(...)` does not deliver at its exit")
        return
    if bad:
        order, evnames, runs, expect, leftover = bad[0]
        ctx.fail(rule, fl, fl.node, "flush model: with queued watchers %s (w2 has precedence -1, w4 +1) and queued events %s the flush runs %s, specification %s%s" % (
            order, evnames, runs, expect, "; %d item(s) left in the queues" % leftover if leftover else ""), key=fl.qualname + "::flush-model",
            input="two watchers of one parameter with different precedence, queued in the other order inside a batch")
    else:
        ctx.ok(rule, fl, fl.node, "%d abstract queue configurations: each queued watcher runs once, in (precedence, queue position) order, with the last event per watched parameter; "
                                  "events raised by a queued watcher are delivered in a further round; queues end empty" % n)


def memo_not_mutated_in_place(ctx, rule):
    """The class-level `.param` memo is handed out by reference (objects(instance=False),
    edit_constant keeps it across its body), so invalidation must rebind it; an
    in-place clear/pop/update empties the dict other code is still holding."""
    n = 0
    for f in ctx.repo.all_funcs("param.parameterized"):
        src = ast.unparse(f.node)
        if ".params" not in src:
            continue
        al = ctx.facts.local_aliases(f)
        for c in ast.walk(f.node):
            if isinstance(c, ast.Call) and isinstance(c.func, ast.Attribute) and c.func.attr in ("clear", "pop", "popitem", "update", "setdefault", "__setitem__"):
                recv = c.func.value
                if isinstance(recv, ast.Name) and recv.id in al:
                    recv = al[recv.id]
                if isinstance(recv, ast.Attribute) and recv.attr == "params":
                    base = recv.value
                    if isinstance(base, ast.Name) and base.id in al:
                        base = al[base.id]
                    root = norm(base)
                    classlike = root.endswith("_param__private") and (root.startswith(("cls.", "mcs.", "self_.cls.", "type(")) or "cls" in root.split(".")[0]) \
                        or root in ("private", "ns") and f.cls is not None and f.cls.name == "ParameterizedMetaclass"
                    if classlike:
                        n += 1
                        ctx.fail(rule, f, c, "`%s` mutates the class-level parameter memo in place; the same dict has been handed out by objects(instance=False) and is held by "
                                             "edit_constant across its body, so its holder suddenly sees an empty/changed mapping (e.g. constant flags are not restored)" % norm(c)[:70],
                                 key="%s::memo-mutated-in-place" % f.qualname,
                                 input="with edit_constant(obj): Cls.param.add_parameter(...)  -> class-level constant flags are not restored on exit")
    # objects(instance=False) and _cls_parameters hand the memo itself out: a local bound to such a call is the memo
    MUT = ("clear", "pop", "popitem", "update", "setdefault", "__setitem__", "__delitem__")
    for f in ctx.repo.all_funcs("param"):
        handed = {}
        for st in ast.walk(f.node):
            if isinstance(st, ast.Assign) and len(st.targets) == 1 and isinstance(st.targets[0], ast.Name):
                v = st.value
                is_memo = (isinstance(v, ast.Attribute) and v.attr == "_cls_parameters") or (
                    isinstance(v, ast.Call) and isinstance(v.func, ast.Attribute) and v.func.attr == "objects"
                    and ((v.args and isinstance(v.args[0], ast.Constant) and v.args[0].value is False)
                         or any(k.arg == "instance" and isinstance(k.value, ast.Constant) and k.value.value is False for k in v.keywords)))
                if is_memo:
                    handed[st.targets[0].id] = norm(v)
        for _ in range(3):          # plain aliases of the memo are the memo too (params = kls_params)
            for st in ast.walk(f.node):
                if isinstance(st, ast.Assign) and len(st.targets) == 1 and isinstance(st.targets[0], ast.Name) and isinstance(st.value, ast.Name) and st.value.id in handed:
                    handed.setdefault(st.targets[0].id, handed[st.value.id])
        if not handed:
            continue
        rebound = {nm for nm in handed if sum(1 for st in ast.walk(f.node) if isinstance(st, (ast.Assign, ast.AugAssign))
                                              for t in (st.targets if isinstance(st, ast.Assign) else [st.target]) if isinstance(t, ast.Name) and t.id == nm) > 1}
        for c in ast.walk(f.node):
            hit = None
            if isinstance(c, ast.Call) and isinstance(c.func, ast.Attribute) and c.func.attr in MUT and isinstance(c.func.value, ast.Name) and c.func.value.id in handed:
                hit = (c.func.value.id, norm(c)[:60])
            if isinstance(c, (ast.Assign, ast.AugAssign, ast.Delete)):
                tg = c.targets if isinstance(c, (ast.Assign, ast.Delete)) else [c.target]
                for t in tg:
                    if isinstance(t, ast.Subscript) and isinstance(t.value, ast.Name) and t.value.id in handed:
                        hit = (t.value.id, norm(c)[:60])
                    if isinstance(c, ast.AugAssign) and isinstance(t, ast.Name) and t.id in handed:
                        hit = (t.id, norm(c)[:60])
            if hit and hit[0] not in rebound:
                n += 1
                ctx.fail(rule, f, c, "`%s` changes, in place, the dict obtained from `%s`: that is the class-level `.param` lookup itself (it is handed out by reference), so what the statement "
                                     "puts in -- e.g. per-instance Parameter copies -- becomes what `Cls.param[name]` answers for every user of the class" % (hit[1], handed[hit[0]]),
                         key="%s::memo-mutated-through-alias" % f.qualname, input="inst.param.x; with edit_constant(inst): pass; Cls.param['x'] is no longer Cls.__dict__['x']")
    inval = [g for g in ctx.repo.all_funcs("param.parameterized") if g.name == "_clear_params_cache"]
    for g in inval:
        rebinding = [st for st in ast.walk(g.node) if isinstance(st, ast.Assign) and any(isinstance(t, ast.Attribute) and t.attr == "params" for t in st.targets)]
        if rebinding and not any(o.rule == rule and o.func == g.qualname and o.verdict == "violation" for o in ctx.obligations):
            ctx.ok(rule, g, rebinding[0], "invalidation rebinds the memo to a fresh dict")


def slot_set_model(ctx, rule):
    """Parameter.__setattr__ interpreted abstractly: attribute (a watched slot / an unwatched slot / `default`, which has its own
    route) x what the slot holds (nothing yet: initialisation / another object / the identical object).

    Specification: the value is stored exactly once; watchers of the attribute are notified exactly once -- with what the slot
    held before as `old` and the assigned value as `new` -- iff there are watchers and the slot held a value before, ALSO when
    that value is the identical object (whether an unchanged assignment reaches a watcher is the watcher's onlychanged
    filter, decided at dispatch, not here)."""
    from engine.absint import Interp, Obj, Unsupported
    from engine.loader import AnalysisError
    sa = ctx.repo.method(P + "Parameter", "__setattr__")
    NI = Obj("NotImplemented")
    problems, n = [], 0
    for attribute, watched, held, wraises in [(a, w, h, False) for a in ("bounds", "default", "doc") for w in (True, False) for h in ("unset", "other", "identical")] + [("constant", True, "other", True)]:
        value = Obj("assigned_value")
        prev = {"unset": None, "other": Obj("previous_value"), "identical": value}[held]
        me = Obj("parameter", name="p", owner=Obj("Owner"))
        me.attrs["__class__"] = Obj("ParameterType", _all_slots_=["name", "default", "bounds", "doc", "watchers", "constant"])
        me.attrs["watchers"] = {attribute: [Obj("watcher")]} if watched else {}
        if held != "unset":
            me.attrs[attribute] = prev
        stores, events, onset = [], [], []

        def hook(fn, args, kwargs):
            if fn == "super().__setattr__" and len(args) == 2:
                stores.append((args[0], args[1]))
                me.attrs[args[0]] = args[1]
                return None
            if fn == "self._trigger_event":
                events.append(tuple(args))
                if wraises:
                    from engine.absint import _Raise as _Rw
                    raise _Rw("RuntimeError")
                return None
            if fn == "self._on_set":
                onset.append(tuple(args))
                return None
            return NotImplemented
        it = Interp(ctx.hier, dyn=P + "Parameter", inline=lambda m: False, call_hook=hook, globals={"NotImplemented": NI}, strict_self_calls=True)
        try:
            outs = it.run_all(sa, {sa.params[0]: me, sa.params[1]: attribute, sa.params[2]: value})
        except Unsupported as e:
            raise AnalysisError("slot-set model: absint cannot interpret Parameter.__setattr__: %s" % e)
        if len(outs) != 1 or outs[0].imprecise or outs[0].kind != ("raise" if wraises else "return"):
            raise AnalysisError("slot-set model: Parameter.__setattr__ is not interpretable precisely (%s)" % (outs[0].notes[:2] if outs else "no outcome"))
        n += 1
        if wraises:
            # a watcher of the slot raises while it is being told: the store stands (edit_constant re-locks with `pobj.constant = True`
            # on its way out; undoing that store leaves the constant unlocked for good)
            if stores != [(attribute, value)] or me.attrs.get(attribute) is not value:
                problems.append("p.%s = v where a watcher of the slot raises: the slot holds %r afterwards (stores %r), specification: the assigned value stays -- the re-locking store of "
                                "edit_constant must not be undone by a failing watcher" % (attribute, me.attrs.get(attribute), [a for a, _ in stores]))
            continue
        desc = "p.%s = v where the slot %s and %s watch it" % (attribute, {"unset": "is being initialised", "other": "holds another object", "identical": "already holds that very object"}[held],
                                                               "watchers" if watched else "no watchers")
        if stores != [(attribute, value)]:
            problems.append("%s: stored %r, specification: the assigned value, once" % (desc, stores))
        want = watched and attribute != "default" and held != "unset"
        if len(events) != (1 if want else 0):
            problems.append("%s: watchers of the attribute are notified %d time(s), specification %d%s" % (
                desc, len(events), 1 if want else 0, " (an onlychanged=False watcher must see every assignment)" if want and held == "identical" else ""))
        elif want and (events[0][0] != attribute or events[0][1] is not prev or events[0][2] is not value):
            problems.append("%s: the event carries (%r, old=%r, new=%r), specification (old = what the slot held, new = the assigned value)" % (desc, events[0][0], events[0][1], events[0][2]))
    ctx.abstract_cases += n
    if problems:
        ctx.fail(rule, sa, sa.node, "slot-set model: %s (%d disagreeing case(s))" % (problems[0], len(problems)), key=sa.qualname + "::slot-set-model")
    else:
        ctx.ok(rule, sa, sa.node, "slot-set model, %d cases (watched slot / unwatched slot / default x initialisation / another object / the identical object): stored once, "
                                  "watchers notified once iff the slot held a value before" % n)


def sync_refs_async(ctx, rule):
    """Parameters._sync_refs interpreted with an asynchronous link: parameter w follows a coroutine function bound to
    S.a.  An event for S.a arrives (a) at an ordinary moment, (b) while w's own previous result is being delivered
    (w is in the syncing set: a watcher of w assigned S.a), (c) while another parameter is being synced.

    Specification: every time a dependency of the link changes, a new evaluation is scheduled exactly once, with the
    awaitable resolved NOW -- whatever is being synced at that moment: the assignment made during delivery is the most
    recent one, and its evaluation is what the parameter must end up with."""
    from engine.absint import Interp, Obj, Unsupported
    from engine.loader import AnalysisError
    sr = ctx.repo.method(P + "Parameters", "_sync_refs")
    problems, n = [], 0
    for syncing in ([], ["w"], ["other"]):
        S = Obj("source")
        depw = Obj("dep_S_a", owner=S, name="a")
        refw = Obj("async_ref_of_w")
        awaitable = Obj("awaitable_for_current_inputs")
        scheduled, updates = [], []

        def hook(fn, args, kwargs):
            if fn == "resolve_ref":
                return [depw] if args and args[0] is refw else []
            if fn == "resolve_value":
                return awaitable
            if fn == "inspect.isgeneratorfunction":
                return False
            if fn == "iscoroutinefunction":
                return bool(args) and args[0] is refw
            if fn in ("edit_constant", "_syncing"):
                return Obj("scope")
            if fn == "partial":
                return Obj("partial", args=list(args))
            if fn == "async_executor":
                scheduled.append(args[0] if args else None)
                return None
            if fn.endswith(".update") and fn.startswith("self_"):
                updates.append(args[0] if args else None)
                return None
            return NotImplemented
        inst = Obj("target", _param__private=Obj("private", refs={"w": refw}, syncing=list(syncing), async_refs={}))
        ns = Obj("ns", self=inst, _async_ref=Obj("bound__async_ref"), __getitem__={"w": Obj("param_w", nested_refs=False)})
        it = Interp(ctx.hier, call_hook=hook, globals={"Skip": Obj("Skip"), "Undefined": Obj("Undefined")})
        try:
            outs = it.run_all(sr, {"self_": ns, "events": [Obj("event_a", obj=S, name="a")]})
        except Unsupported as e:
            raise AnalysisError("absint cannot interpret _sync_refs: %s -- %s cannot decide" % (e, rule))
        if len(outs) != 1 or outs[0].imprecise or outs[0].kind != "return":
            raise AnalysisError("absint imprecise on _sync_refs with an asynchronous link (%s) -- %s cannot decide" % (outs[0].notes[:2] if outs else "no outcome", rule))
        n += 1
        when = {"": "at an ordinary moment", "w": "while the link's own previous result is being delivered (a watcher of the parameter assigned the source)",
                "other": "while another parameter is being synced"}["".join(syncing)]
        ok = len(scheduled) == 1 and isinstance(scheduled[0], Obj) and len(scheduled[0].attrs.get("args", [])) == 3 and scheduled[0].attrs["args"][1] == "w" and scheduled[0].attrs["args"][2] is awaitable
        if not ok:
            problems.append("the source of an asynchronous link changes %s: %d evaluation(s) scheduled (%r), specification: exactly one, for the inputs as they are now -- the parameter ends up "
                            "with the result of an older evaluation" % (when, len(scheduled), scheduled[:1]))
        if any(isinstance(u, dict) and "w" in u for u in updates):
            problems.append("the source of an asynchronous link changes %s: the awaitable itself is assigned to the parameter" % when)
    ctx.abstract_cases += n
    if problems:
        ctx.fail(rule, sr, sr.node, "sync model (asynchronous link): %s (%d disagreeing case(s))" % (problems[0], len(problems)), key=sr.qualname + "::async-link-resync")
    else:
        ctx.ok(rule, sr, sr.node, "sync model: a change of an asynchronous link's source schedules exactly one new evaluation, whatever is being synced at that moment (%d cases)" % n)


def instance_tested_by_identity(ctx, rule):
    """Whether a namespace / descriptor is working for an instance or for the class is decided by `is None`, never by the
    truth value of the instance: a Parameterized subclass may define __len__ or __bool__, and an empty (falsy) instance
    is still an instance.  Flags every boolean-context use (if / while / conditional expression / and / or / not /
    assert / comprehension filter) of `self_.self` (or a local alias of it) in class Parameters, and of the `obj`
    argument in the descriptor methods of Parameter types."""
    def bool_ctx(fn):
        out = []
        for n in ast.walk(fn):
            if isinstance(n, (ast.If, ast.While, ast.IfExp, ast.Assert)):
                out.append(n.test)
            if isinstance(n, ast.BoolOp):
                out += n.values
            if isinstance(n, ast.UnaryOp) and isinstance(n.op, ast.Not):
                out.append(n.operand)
            if isinstance(n, ast.comprehension):
                out += n.ifs
        return out
    n_funcs = 0
    for g in ctx.repo.funcs.values():
        if g.cls is None or not g.params:
            continue
        names, attr_of = set(), None
        if g.cls.qualname == P + "Parameters":
            attr_of = g.params[0]
            for n in ast.walk(g.node):
                if isinstance(n, ast.Assign) and isinstance(n.value, ast.Attribute) and n.value.attr == "self" and isinstance(n.value.value, ast.Name) and n.value.value.id == attr_of:
                    names |= {t.id for t in n.targets if isinstance(t, ast.Name)}
        elif ctx.facts.is_parameter_cls(g.cls.qualname) and g.name in ("__get__", "__set__", "_post_setter", "_relink") and "obj" in g.params:
            names = {"obj"}
        else:
            continue
        n_funcs += 1
        hits = [e for e in bool_ctx(g.node) if (isinstance(e, ast.Name) and e.id in names)
                or (attr_of and isinstance(e, ast.Attribute) and e.attr == "self" and isinstance(e.value, ast.Name) and e.value.id == attr_of)]
        for e in hits:
            ctx.fail(rule, g, e, "%s decides between the instance and the class by the truth value of the instance (`%s`): an instance of a class that defines __len__ / __bool__ is treated as "
                                 "'no instance' while it is empty, so instance-level operations act on the class (or on the class-level Parameter)" % (g.qualname, norm(e)),
                     key=g.qualname + "::instance-by-truthiness")
        if not hits:
            ctx.ok(rule, g, g.node, "instance tested by identity only")
    ctx.require(n_funcs >= 40, "fewer than 40 namespace / descriptor functions examined (%d)" % n_funcs)


def descendents_model(ctx, rule):
    """param._utils.descendents interpreted abstractly on A; B(A); C(A); D(B, C); E(Mixin, C) -- the walk behind every
    'drop the caches of all subclasses'.  Specification: every transitive subclass, and the class itself, exactly once
    (D is listed by both of its bases; E's primary base is outside the hierarchy)."""
    from engine.absint import Interp, Obj, Unsupported
    from engine.loader import AnalysisError
    f = ctx.repo.func("param._utils.descendents")
    A, B, C, D, E, M = (Obj(n, __name__=n) for n in ("A", "B", "C", "D", "E", "Mixin"))
    subs = {id(A): [B, C], id(B): [D], id(C): [D, E], id(D): [], id(E): [], id(M): [E]}
    for k, base in ((A, None), (B, A), (C, A), (D, B), (E, M), (M, None)):
        k.attrs["__base__"] = base
    k_bases = {id(D): (B, C), id(E): (M, C)}

    def hook(fn, args, kwargs):
        recv = getattr(hook.it, "current_receiver", None)
        if fn == "isinstance":
            return True
        if fn.endswith(".__subclasses__") and isinstance(recv, Obj):
            return list(subs[id(recv)])
        if fn == "_is_abstract":
            return False
        if fn in ("collections.deque", "deque"):
            return list(args[0]) if args else []
        if fn.endswith(".popleft") and isinstance(recv, list):
            return recv.pop(0)
        if fn.endswith(".appendleft") and isinstance(recv, list) and args:
            recv.insert(0, args[0])
            return None
        return NotImplemented
    hook.needs_receiver = True
    it = Interp(ctx.hier, call_hook=hook, inline_module_functions=False, max_steps=40000)
    hook.it = it
    try:
        outs = it.run_all(f, {"class_": A, "concrete": False})
    except Unsupported as e:
        raise AnalysisError("descendents model: absint cannot interpret descendents(): %s -- %s cannot decide" % (e, rule))
    if len(outs) != 1 or outs[0].imprecise or outs[0].kind != "return" or not isinstance(outs[0].value, (list, tuple)):
        raise AnalysisError("descendents model: descendents() is not interpretable precisely (%s) -- %s cannot decide" % (outs[0].notes[:2] if outs else "no outcome", rule))
    ctx.abstract_cases += 1
    got = list(outs[0].value)
    names = [getattr(x, "name", repr(x)) for x in got]
    missing = [k.name for k in (A, B, C, D, E) if not any(x is k for x in got)]
    dup = [nme for nme in set(names) if names.count(nme) > 1]
    if missing or dup or len(got) != 5:
        ctx.fail(rule, f, f.node, "descendents(A) on A; B(A); C(A); D(B, C); E(Mixin, C) yields %s: %s -- the caches of those classes survive a change made on a secondary base, so their "
                                  "`.param` keeps an outdated Parameter while attribute access follows the MRO" % (
                                      names, ("missing " + ", ".join(missing)) if missing else ("listed twice: " + ", ".join(dup)) if dup else "unexpected members"), key=f.qualname + "::descendents-model")
    else:
        ctx.ok(rule, f, f.node, "descendents(A) yields every transitive subclass once (%s)" % ", ".join(names))


def dynamic_cache_writers(ctx, rule):
    """Who may write the per-generator state of Dynamic parameters.  The value/time pair (_Dynamic_last, _Dynamic_time) is
    written only by Dynamic._initialize_generator (initial state), Dynamic._produce_value (paired, decided by the cache
    table rule) and Parameters._state_pop (restoring a saved pair); the clock (_Dynamic_time_fn) only by
    _initialize_generator and Parameters.set_dynamic_time_fn.  Any other writer bypasses the pairing (a value cached under
    the time of another value) or pins a clock onto state that copies and pickles duplicate."""
    allowed = {
        "_Dynamic_last": {"param.parameters.Dynamic._initialize_generator", "param.parameters.Dynamic._produce_value", P + "Parameters._state_pop"},
        "_Dynamic_time": {"param.parameters.Dynamic._initialize_generator", "param.parameters.Dynamic._produce_value", P + "Parameters._state_pop"},
        "_Dynamic_time_fn": {"param.parameters.Dynamic._initialize_generator", P + "Parameters.set_dynamic_time_fn"},
    }
    n = 0
    for g in ctx.repo.funcs.values():
        for st in ast.walk(g.node):
            tg = st.targets if isinstance(st, ast.Assign) else ([st.target] if isinstance(st, (ast.AugAssign, ast.AnnAssign)) else [])
            flat = []
            for t in tg:
                flat += list(t.elts) if isinstance(t, (ast.Tuple, ast.List)) else [t]
            for t in flat:
                if isinstance(t, ast.Attribute) and t.attr in allowed:
                    n += 1
                    if g.qualname in allowed[t.attr]:
                        ctx.ok(rule, g, st, "sanctioned writer of %s" % t.attr)
                    else:
                        ctx.fail(rule, g, st, "%s writes `%s`: %s" % (g.qualname, norm(t), "the cached value changes without the time it belongs to (a later read at the cached time returns a value produced "
                                 "for another time)" if t.attr != "_Dynamic_time_fn" else "a clock is pinned onto the generator, which lives in the instance's values: copies and pickles duplicate "
                                 "it and stop following the clock the original follows"), key="%s::dynamic-state-writer::%s" % (g.qualname, t.attr))
            if isinstance(st, ast.Call) and norm(st.func) == "setattr" and len(st.args) == 3 and isinstance(st.args[1], ast.Constant) and st.args[1].value in allowed and g.qualname not in allowed[st.args[1].value]:
                n += 1
                ctx.fail(rule, g, st, "%s writes %s through setattr" % (g.qualname, st.args[1].value), key="%s::dynamic-state-writer::%s" % (g.qualname, st.args[1].value))
    ctx.require(n >= 8, "fewer than 8 writes of the Dynamic generator state found (%d)" % n)


def time_fn_model(ctx, rule):
    """Parameters.set_dynamic_time_fn interpreted abstractly for an instance whose parameter n holds a generator set on the
    INSTANCE (the class default is a plain number) and for a class whose default is a generator.

    Specification: the object is given the clock (future generators inherit it) and every generator that currently
    produces the values of THAT object -- asked of the object itself, not of its class -- is given the clock."""
    from engine.absint import Interp, Obj, Unsupported
    from engine.loader import AnalysisError
    f = ctx.repo.func(P + "Parameters.set_dynamic_time_fn")
    problems, n = [], 0
    for route in ("instance", "class"):
        clock = Obj("the_clock")
        gen = Obj("generator", _Dynamic_last=None, _Dynamic_time=-1)
        plain = Obj("plain_parameter")
        cls = Obj("Cls")
        target = Obj("instance") if route == "instance" else cls
        pn = Obj("param_n", __kind__="Dynamic")
        pn.attrs["_value_is_dynamic"] = Obj("bound_method", __callable__=True)

        def hook(fn, args, kwargs):
            if fn == "isinstance" and len(args) == 2 and args[1] in ("type", "<type type>"):
                return args[0] is cls
            if fn == "hasattr" and len(args) == 2:
                return isinstance(args[0], Obj) and args[1] in args[0].attrs
            if fn.endswith(".param.objects"):
                return {"n": pn, "m": plain}
            if fn.endswith("._value_is_dynamic"):
                # dynamic for the object the question is asked about: the instance holds a generator, the class default is a number
                subject = args[0] if args and args[0] is not None else (args[1] if len(args) > 1 else None)
                return subject is target
            if fn.endswith(".get_value_generator"):
                return gen if args and args[0] == "n" else None
            return NotImplemented
        ns = Obj("ns", self_or_cls=target, self=(target if route == "instance" else None), cls=cls)
        target.attrs["param"] = Obj("namespace_of_target")
        cls.attrs.setdefault("param", Obj("namespace_of_class"))
        it = Interp(ctx.hier, dyn=P + "Parameters", inline=lambda m: False, call_hook=hook, globals={"type": "type"})
        try:
            outs = it.run_all(f, {"self_": ns, "time_fn": clock, "sublistattr": None})
        except Unsupported as e:
            raise AnalysisError("time-fn model: absint cannot interpret set_dynamic_time_fn: %s" % e)
        if len(outs) != 1 or outs[0].imprecise or outs[0].kind != "return":
            raise AnalysisError("time-fn model: set_dynamic_time_fn is not interpretable precisely (%s)" % (outs[0].notes[:2] if outs else "no outcome"))
        n += 1
        desc = "set_dynamic_time_fn(clock) on %s" % ("an instance whose parameter holds a generator set on the instance (class default: a number)" if route == "instance" else "a class whose default is a generator")
        if target.attrs.get("_Dynamic_time_fn") is not clock:
            problems.append("%s: the object itself is not given the clock (generators assigned later do not inherit it)" % desc)
        if gen.attrs.get("_Dynamic_time_fn") is not clock:
            problems.append("%s: the generator that produces the object's values is not given the clock: caching goes by the global time function while values are computed from the "
                            "object's own, so the value returned depends on the visiting order" % desc)
    ctx.abstract_cases += n
    if problems:
        ctx.fail(rule, f, f.node, "time-fn model: %s (%d disagreeing case(s))" % (problems[0], len(problems)), key=f.qualname + "::time-fn-model")
    else:
        ctx.ok(rule, f, f.node, "time-fn model: the object and every generator currently producing its values receive the clock (instance and class route)")


def dynamic_set_model(ctx, rule):
    """Dynamic.__set__ interpreted abstractly, with the superclass setter's effect on the instance given: what is assigned is
    a number / a generator (a callable that is not a reference) / a callable REFERENCE (a depends-decorated bound method on a
    parameter with allow_refs) that resolves to a number / one that resolves to a fresh generator; instance and class route.

    Specification: generator state is attached (`_initialize_generator`) exactly to the value that was STORED when that
    value is a callable, once; never to the reference itself -- a bound method cannot carry the cache attributes, so the
    assignment would raise AttributeError after the value was stored and the link installed; on the class route
    instantiate follows whether the default is dynamic."""
    from engine.absint import Interp, Obj, Unsupported
    from engine.loader import AnalysisError
    f = ctx.repo.func("param.parameters.Dynamic.__set__")
    problems, n = [], 0
    stateless = []
    for route, kind, rejected in [(r, k, j) for r in ("instance", "class") for k in ("number", "generator", "ref-to-number", "ref-to-generator", "stateless-callable") for j in (False, True)]:
        if route == "class" and kind.startswith("ref"):
            continue
        if kind == "stateless-callable" and (rejected or route == "class"):
            continue
        if rejected and kind != "generator":
            continue
        number = Obj("a_number")
        gen = Obj("a_generator", __callable__=True)
        resolved_gen = Obj("generator_the_reference_resolves_to", __callable__=True)
        ref = Obj("bound_method_reference", __callable__=True)
        # a callable that cannot carry attributes (a builtin function such as len, a bound method): attaching generator state raises
        builtin = Obj("builtin_callable_that_cannot_carry_attributes", __callable__=True)
        given = {"number": number, "generator": gen, "ref-to-number": ref, "ref-to-generator": ref, "stateless-callable": builtin}[kind]
        stored = {"number": number, "generator": gen, "ref-to-number": Obj("resolved_number"), "ref-to-generator": resolved_gen, "stateless-callable": builtin}[kind]
        priv = Obj("private", refs={}, values={}, initialized=True)
        inst = Obj("instance", _param__private=priv) if route == "instance" else None
        me = Obj("dynamic_param", name="n", default=Obj("old_default"), allow_refs=True)
        inits, insts = [], []

        def hook(fn, args, kwargs):
            if fn == "super().__set__":
                if rejected:
                    from engine.absint import _Raise as _Rj
                    raise _Rj("TypeError")          # a constant / read-only parameter, or a value the validator refuses
                if inst is None:
                    me.attrs["default"] = stored
                else:
                    priv.attrs["values"]["n"] = stored
                    if kind.startswith("ref"):
                        priv.attrs["refs"]["n"] = ref
                return None
            if fn == "super().__get__":
                return me.attrs["default"] if inst is None else priv.attrs["values"].get("n", me.attrs["default"])
            if fn == "self._initialize_generator":
                inits.append(tuple(args))
                if args and args[0] is builtin:
                    from engine.absint import _Raise as _Ra
                    raise _Ra("AttributeError")
                return None
            if fn == "self._set_instantiate":
                insts.append(tuple(args))
                return None
            if fn == "hasattr" and len(args) == 2:
                return isinstance(args[0], Obj) and args[1] in args[0].attrs
            if fn == "type" and len(args) == 1:
                return Obj("type_of_instance")
            return NotImplemented
        it = Interp(ctx.hier, dyn="param.parameters.Dynamic", inline=lambda m: False, call_hook=hook, strict_self_calls=True)
        try:
            outs = it.run_all(f, {f.params[0]: me, f.params[1]: inst, f.params[2]: given})
        except Unsupported as e:
            raise AnalysisError("Dynamic set model: absint cannot interpret Dynamic.__set__: %s" % e)
        if kind == "stateless-callable":
            if len(outs) != 1 or outs[0].imprecise:
                raise AnalysisError("Dynamic set model: Dynamic.__set__ is not interpretable precisely (%s)" % (outs[0].notes[:2] if outs else "no outcome"))
            n += 1
            if outs[0].kind == "raise" and priv.attrs["values"].get("n") is builtin:
                stateless.append("instance route, assigning a callable that cannot carry attributes (a builtin such as len; the validator of a numeric Dynamic parameter admits every callable): the "
                                 "assignment raises AttributeError AFTER the value was stored -- the parameter holds the callable although the assignment failed")
            continue
        if len(outs) != 1 or outs[0].imprecise or outs[0].kind != ("raise" if rejected else "return"):
            raise AnalysisError("Dynamic set model: Dynamic.__set__ is not interpretable precisely (%s)" % (outs[0].notes[:2] if outs else "no outcome"))
        n += 1
        if rejected:
            if inits:
                problems.append("%s route, the assignment of a generator is REFUSED (constant parameter / invalid value): generator state is (re)initialised all the same -- a generator "
                                "that already serves another parameter loses its cached value for the current time and its saved states, and yields another value at the same time" % route)
            continue
        desc = "%s route, assigning %s" % (route, {"number": "a number", "generator": "a generator", "ref-to-number": "a callable reference (a depends method) that resolves to a number",
                                                    "ref-to-generator": "a callable reference that resolves to a generator"}[kind])
        targets = [a[0] for a in inits if a]
        if any(t is ref for t in targets):
            problems.append("%s: generator state is attached to the REFERENCE: a bound method cannot carry it, so the assignment raises AttributeError after the resolved value "
                            "was stored and the link installed (and a function that can carry it is mistaken for a generator)" % desc)
            continue
        want = [stored] if getattr(stored, "attrs", {}).get("__callable__") else []
        if len(targets) != len(want) or any(a is not b for a, b in zip(targets, want)):
            problems.append("%s: generator state is attached to %s, specification %s" % (desc, [getattr(t, "name", t) for t in targets], [w.name for w in want]))
        if route == "class" and (len(insts) != 1 or insts[0] != (bool(want),)):
            problems.append("%s: instantiate is set to %r, specification %r" % (desc, insts, bool(want)))
    ctx.abstract_cases += n
    if problems:
        ctx.fail(rule, f, f.node, "Dynamic set model: %s (%d disagreeing case(s))" % (problems[0], len(problems)), key=f.qualname + "::dynamic-set-model",
                 input="class T(Parameterized): n = Number(0, allow_refs=True); t = T(); t.n = s.twice  (a @depends method of s) -> AttributeError, yet t.n follows s")
    else:
        ctx.ok(rule, f, f.node, "Dynamic set model, %d cases: generator state goes to the stored value when it is a callable, never to a reference" % n)
    if stateless and rule.startswith("R02"):
        ctx.fail(rule, f, f.node, "Dynamic set model: %s" % stateless[0], key=f.qualname + "::raises-after-store::stateless-callable", input="class P(Parameterized): d = Number(1); p = P(); p.d = len -> AttributeError, p.d is len")


def invalidation_before_consumers(ctx, rule):
    """Watchers that only invalidate a cache (rx `_invalidate_*`) must run before every internally installed watcher that
    may read that cache (the sync of references, depends(watch=True) callers): within one batch the queue keeps arrival
    order among equal precedences, so a consumer queued by an EARLIER event of the batch would run before the invalidation
    queued by a later one and read the stale result.  Decided on the precedence constants of the internal
    `<owner>.param._watch(...)` registrations: max(invalidators) < min(consumers)."""
    def const(e):
        if isinstance(e, ast.Constant) and isinstance(e.value, (int, float)):
            return e.value
        if isinstance(e, ast.UnaryOp) and isinstance(e.op, ast.USub) and isinstance(e.operand, ast.Constant):
            return -e.operand.value
        return None
    inval, cons = [], []
    for g in ctx.repo.funcs.values():
        for c in ast.walk(g.node):
            if not (isinstance(c, ast.Call) and isinstance(c.func, ast.Attribute) and c.func.attr == "_watch" and norm(c.func.value).endswith(".param") and c.args):
                continue
            prec = next((k.value for k in c.keywords if k.arg == "precedence"), c.args[5] if len(c.args) > 5 else None)
            pv = const(prec) if prec is not None else -1          # the default of Parameters._watch
            cb = norm(c.args[0])
            if pv is None:
                if cb.rsplit(".", 1)[-1].startswith("_invalidate"):
                    from engine.loader import AnalysisError
                    raise AnalysisError("%s: the precedence of the invalidation watcher registered in %s is not a constant" % (rule, g.qualname))
                continue          # a precedence chosen by the caller (user-facing registration)
            (inval if cb.rsplit(".", 1)[-1].startswith("_invalidate") else cons).append((pv, g, c, cb))
    ctx.require(len(inval) >= 2 and len(cons) >= 2, "internal watcher registrations not found (%d invalidators, %d consumers)" % (len(inval), len(cons)))
    lo_cons = min(cons, key=lambda x: x[0])
    for pv, g, c, cb in inval:
        if pv < lo_cons[0]:
            ctx.ok(rule, g, c, "%s runs at precedence %s, before every internal consumer (lowest: %s)" % (cb, pv, lo_cons[0]))
        else:
            ctx.fail(rule, g, c, "the cache invalidation `%s` is registered with precedence %s, not lower than the internal consumer `%s` (%s, precedence %s): in a batch that changes two "
                                 "sources, the consumer queued by the first event runs before the invalidation queued by the second and mirrors the stale result" % (
                                     cb, pv, lo_cons[3], lo_cons[1].qualname.rsplit(".", 1)[-1], lo_cons[0]), key="%s::invalidation-not-first::%s" % (g.qualname, cb.rsplit(".", 1)[-1]),
                     input="p = P(x=s.param.a, y=rx(s.param.b) + 100); s.param.update(a=2, b=2) -> p.y stays 101")


def is_equal_model(ctx, rule):
    """Comparator.is_equal interpreted abstractly on pairs of values described by their concrete type and the registered
    kinds they belong to (numbers.Number / str / bytes / NoneType / a datetime type / the predicate-registered kind /
    a list / a dict / none of these).

    Specification: two values that both belong to a registered kind are compared with that kind's equality -- whatever
    their concrete types (1 and 1.0, 2 and Fraction(2): numbers.Number is an abstract base, the concrete types are
    unrelated); otherwise containers are compared element-wise; anything else is unequal."""
    from engine.absint import Interp, Obj, PyFunc, Unsupported
    from engine.loader import AnalysisError
    f = ctx.repo.method(P + "Comparator", "is_equal")
    NUM, STR, BYT, NON, DT = (Obj(n) for n in ("numbers.Number", "str", "bytes", "NoneType", "datetime"))
    PRED = PyFunc("time_like_predicate", lambda o: "pred" in o.attrs["kinds"])
    tag_kind = {id(NUM): "num", id(STR): "str", id(BYT): "bytes", id(NON): "none", id(DT): "dt"}
    eq = PyFunc("operator.eq", lambda a, b: a.attrs["v"] == b.attrs["v"])
    SUB = {("bool", "int")}                     # concrete subclass relations among the types used

    def val(pytype, kinds, v):
        return Obj("%s(%s)" % (pytype, v), pytype=pytype, kinds=set(kinds), v=v)
    pairs = [
        (val("int", ["num"], 1), val("float", ["num"], 1), True, "1 and 1.0"), (val("int", ["num"], 1), val("int", ["num"], 1), True, "1 and 1"),
        (val("int", ["num"], 1), val("float", ["num"], 2), False, "1 and 2.0"), (val("int", ["num"], 2), val("Fraction", ["num"], 2), True, "2 and Fraction(2)"),
        (val("bool", ["num"], 1), val("int", ["num"], 1), True, "True and 1"), (val("int", ["num"], 1), val("str", ["str"], 1), False, "1 and '1'"),
        (val("str", ["str"], "a"), val("str", ["str"], "a"), True, "'a' and 'a'"), (val("NoneType", ["none"], None), val("NoneType", ["none"], None), True, "None and None"),
        (val("NoneType", ["none"], None), val("int", ["num"], 0), False, "None and 0"), (val("datetime", ["dt"], 5), val("Timestamp", ["dt"], 5), True, "a datetime and an equal Timestamp"),
        (val("Time", ["pred"], 3), val("OtherTime", ["pred"], 3), True, "two time-like objects of different classes with equal value"),
        (val("list", ["list"], "L"), val("list", ["list"], "L"), "iter", "two lists"), (val("dict", ["dict"], "D"), val("dict", ["dict"], "D"), "map", "two dicts"),
        (val("Thing", [], 1), val("Thing", [], 1), False, "two objects of an unregistered type"), (val("int", ["num"], 1), val("list", ["list"], "L"), "iter", "1 and a list"),
    ]
    problems, n = [], 0
    for o1, o2, want, desc in pairs:
        def hook(fn, args, kwargs):
            if fn == "isinstance" and len(args) == 2:
                subj, spec = args
                if spec == "FunctionType" or (isinstance(spec, Obj) and spec.name == "FunctionType"):
                    return subj is PRED
                if isinstance(spec, PyFunc):
                    raise _R("TypeError")            # isinstance(x, <function>) raises TypeError
                if isinstance(spec, (tuple, list)):
                    names = {"<type list>": "list", "<type set>": "set", "<type tuple>": "tuple", "<type dict>": "dict"}
                    return isinstance(subj, Obj) and any(names.get(t) in subj.attrs.get("kinds", ()) for t in spec)
                if spec == "<type dict>":
                    return isinstance(subj, Obj) and "dict" in subj.attrs.get("kinds", ())
                if isinstance(spec, Obj) and id(spec) in tag_kind:
                    return isinstance(subj, Obj) and tag_kind[id(spec)] in subj.attrs.get("kinds", ())
                return NotImplemented
            if fn == "type" and len(args) == 1 and isinstance(args[0], Obj):
                return "<pytype %s>" % args[0].attrs["pytype"]
            if fn == "issubclass" and len(args) == 2 and all(isinstance(a, str) and a.startswith("<pytype ") for a in args):
                a, b = args[0][8:-1], args[1][8:-1]
                return a == b or (a, b) in SUB
            if fn == "gen" and not args:
                return [DT]
            if fn == "cls.compare_iterator":
                return "iter"
            if fn == "cls.compare_mapping":
                return "map"
            return NotImplemented
        from engine.absint import _Raise as _R
        C = Obj("Comparator", equalities={NUM: eq, STR: eq, BYT: eq, NON: eq, PRED: eq}, gen_equalities={PyFunc("gen", lambda: [DT]): eq})
        it = Interp(ctx.hier, call_hook=hook, globals={"FunctionType": "FunctionType"})
        try:
            outs = it.run_all(f, {f.params[0]: C, f.params[1]: o1, f.params[2]: o2})
        except Unsupported as e:
            raise AnalysisError("comparator model: absint cannot interpret Comparator.is_equal: %s -- %s cannot decide" % (e, rule))
        if len(outs) != 1 or outs[0].imprecise or outs[0].kind != "return":
            raise AnalysisError("comparator model: Comparator.is_equal is not interpretable precisely on %s (%s)" % (desc, outs[0].notes[:2] if outs else "no outcome"))
        n += 1
        if outs[0].value != want or type(outs[0].value) is not type(want):
            problems.append("is_equal(%s) answers %r, specification %s" % (desc, outs[0].value, {True: "equal", False: "not equal", "iter": "the element-wise comparison of sequences",
                                                                                                   "map": "the comparison of mappings"}[want]))
    ctx.abstract_cases += n
    if problems:
        ctx.fail(rule, f, f.node, "comparator model: %s (%d disagreeing pair(s)): equal values count as a change (changes-only watchers run) or a change goes unnoticed" % (problems[0], len(problems)),
                 key=f.qualname + "::is-equal-model")
    else:
        ctx.ok(rule, f, f.node, "comparator model: %d pairs (concrete type x registered kind): the registered kind's equality decides whatever the concrete types; containers element-wise; else unequal" % n)


def queue_setters_model(ctx, rule):
    """The property setters Parameters._events / _state_watchers interpreted abstractly: installing a new queue must not
    change the queue object that was read before (trigger() sets the pending queue aside BY REFERENCE and installs an
    empty one; the flush and discard_events keep references across the installation as well), and what is read
    afterwards has exactly the contents installed."""
    from engine.absint import Interp, Obj, Unsupported
    from engine.loader import AnalysisError
    PARAMS = P + "Parameters"
    n = 0
    for prop, key in (("_events", "events"), ("_state_watchers", "watchers")):
        st = ctx.hier.property_setter(PARAMS, prop)
        gt = ctx.hier.resolve(PARAMS, prop)
        if st is None or gt is None:
            raise AnalysisError("%s: property Parameters.%s (getter and setter) not found" % (rule, prop))
        for new_kind in ("empty", "nonempty"):
            e1, e2 = Obj("queued_before_1"), Obj("queued_before_2")
            old = [e1, e2]
            state = {"events": [], "watchers": [], "BATCH_WATCH": False, "TRIGGER": False}
            state[key] = old
            owner = Obj("owner", _param__private=Obj("private", parameters_state=state))
            ns = Obj("ns", self_or_cls=owner, self=owner, cls=Obj("Cls"))
            new = [] if new_kind == "empty" else [Obj("newly_queued")]
            it = Interp(ctx.hier, dyn=PARAMS, inline=lambda m: False)
            try:
                outs = it.run_all(st, {st.params[0]: ns, st.params[1]: new})
                outs2 = it.run_all(gt, {gt.params[0]: ns})
            except Unsupported as e:
                raise AnalysisError("%s: absint cannot interpret the %s property: %s" % (rule, prop, e))
            if len(outs) != 1 or outs[0].imprecise or outs[0].kind != "return" or len(outs2) != 1 or outs2[0].imprecise or outs2[0].kind != "return":
                raise AnalysisError("%s: the %s property is not interpretable precisely" % (rule, prop))
            n += 1
            now = outs2[0].value
            if len(old) != 2 or old[0] is not e1 or old[1] is not e2:
                ctx.fail(rule, st, st.node, "installing a new queue through Parameters.%s changes the queue object that was there before (it now holds %d item(s)): trigger() sets the pending "
                                            "queue aside by reference and installs an empty one, so everything queued before the trigger is lost and those watchers never run" % (prop, len(old)),
                         key="%s::queue-replaced-in-place" % st.qualname, input="with batch_call_watchers(p): p.a = 1; p.param.trigger('c') -> the watcher of a never runs")
                break
            if not isinstance(now, list) or len(now) != len(new) or any(a is not b for a, b in zip(now, new)):
                ctx.fail(rule, st, st.node, "after installing %r through Parameters.%s the queue read back is %r" % (new, prop, now), key="%s::queue-not-installed" % st.qualname)
                break
        else:
            ctx.ok(rule, st, st.node, "Parameters.%s: installing a queue rebinds the stored list; the previous list object is untouched" % prop)
    ctx.abstract_cases += n


def full_groupby_model(ctx, rule):
    """param._utils.full_groupby interpreted abstractly on an interleaved list (p.x, q.y, p.z, r.w, q.v) grouped by owner --
    the grouping behind the invalidation watchers of reactive expressions and bound functions.  Specification: one group
    per distinct key holding ALL the items with that key, in order (grouping consecutive runs only loses the earlier run
    of an owner whose parameters are separated by another owner's: no watcher for it, the expression goes stale)."""
    from engine.absint import Interp, Obj, PyFunc, Unsupported
    from engine.loader import AnalysisError
    f = ctx.repo.func("param._utils.full_groupby")
    owners = {k: Obj("owner_" + k) for k in "pqr"}
    items = [Obj("%s.%s" % (o, nme), owner=owners[o], name=nme) for o, nme in (("p", "x"), ("q", "y"), ("p", "z"), ("r", "w"), ("q", "v"))]
    key = PyFunc("key", lambda x: ("id", id(x.attrs["owner"])))
    it = Interp(ctx.hier, inline_module_functions=False)
    try:
        outs = it.run_all(f, {"l": list(items), "key": key})
    except Unsupported as e:
        raise AnalysisError("%s: absint cannot interpret full_groupby: %s" % (rule, e))
    if len(outs) != 1 or outs[0].imprecise or outs[0].kind != "return":
        raise AnalysisError("%s: full_groupby is not interpretable precisely (%s)" % (rule, outs[0].notes[:2] if outs else "no outcome"))
    ctx.abstract_cases += 1
    res = outs[0].value
    pairs = list(res.items()) if isinstance(res, dict) else (list(res) if isinstance(res, (list, tuple)) else None)
    if pairs is None or not all(isinstance(p, tuple) and len(p) == 2 and isinstance(p[1], list) for p in pairs):
        raise AnalysisError("%s: full_groupby returns something the model cannot read (%r)" % (rule, res))
    got = {k: [x.name for x in v] for k, v in pairs}
    want = {("id", id(owners["p"])): ["p.x", "p.z"], ("id", id(owners["q"])): ["q.y", "q.v"], ("id", id(owners["r"])): ["r.w"]}
    if got != want or len(pairs) != 3:
        missing = [n for k, names in want.items() for n in names if n not in got.get(k, [])]
        ctx.fail(rule, f, f.node, "full_groupby on the interleaved list [p.x, q.y, p.z, r.w, q.v] keyed by owner yields the groups %s: %s -- no invalidation watcher is installed for a "
                                  "dropped parameter, so an expression that read it stays stale when it changes" % (sorted(got.values()), ("missing " + ", ".join(missing)) if missing else "a key occurs twice"),
                 key=f.qualname + "::groupby-model", input="rx(bind(f, p.param.x, q.param.y, p.param.z)); read; p.x = 2; read -> stale")
    else:
        ctx.ok(rule, f, f.node, "full_groupby groups a non-sorted list completely: one group per key with all its items, in order")


def mutable_container_model(ctx, rule):
    """param._utils._is_mutable_container -- the predicate both un-sharing sites use (per-instance Parameter copies and
    inherited slot values) -- interpreted abstractly on a list, a dict, a set, an OrderedDict / defaultdict (dict
    subclasses), a list subclass, a deque (a MutableSequence that is no builtin), a tuple, a string, None and a number.
    Specification: True exactly for the mutable containers, subclasses and non-builtin ones included (a slot value that
    is not recognised stays SHARED between the class Parameter, per-instance copies and subclasses)."""
    from engine.absint import Interp, Obj, Unsupported
    from engine.loader import AnalysisError
    f = ctx.repo.func("param._utils._is_mutable_container")
    kinds = [("list", "list", True), ("dict", "dict", True), ("set", "set", True), ("OrderedDict", "dict", True), ("defaultdict", "dict", True), ("UserList", "list", True),
             ("deque", None, True), ("tuple", "tuple", False), ("str", "str", False), ("NoneType", None, False), ("int", "int", False)]
    mutable_abc = {"list", "dict", "set", "OrderedDict", "defaultdict", "UserList", "deque"}
    bad = []
    for tname, builtin_base, want in kinds:
        v = Obj("a_" + tname, __tname__=tname)

        def hook(fn, args, kwargs):
            if fn == "isinstance" and len(args) == 2 and args[0] is v:
                spec = args[1] if isinstance(args[1], (tuple, list, set, frozenset)) else (args[1],)
                names = set()
                for t in spec:
                    if isinstance(t, str) and t.startswith("<type "):
                        names.add(t[6:-1])
                    elif isinstance(t, Obj):
                        names.add(t.name)
                # ABCs: MutableSequence / MutableSet / MutableMapping recognise every mutable container
                if names & {"abc.MutableSequence", "abc.MutableSet", "abc.MutableMapping", "MutableSequence", "MutableSet", "MutableMapping"}:
                    return tname in mutable_abc
                return tname in names or (builtin_base in names)
            if fn == "type" and len(args) == 1 and args[0] is v:
                return "<type %s>" % tname
            if fn == "frozenset" and len(args) == 1 and isinstance(args[0], (tuple, list, set)):
                return set(args[0])
            return NotImplemented
        it = Interp(ctx.hier, call_hook=hook, inline_module_functions=True,
                    globals={"abc": Obj("abc", MutableSequence=Obj("abc.MutableSequence"), MutableSet=Obj("abc.MutableSet"), MutableMapping=Obj("abc.MutableMapping"))})
        try:
            outs = it.run_all(f, {f.params[0]: v})
        except Unsupported as e:
            raise AnalysisError("%s: absint cannot interpret _is_mutable_container: %s" % (rule, e))
        if len(outs) != 1 or outs[0].imprecise or outs[0].kind != "return" or outs[0].value not in (True, False):
            raise AnalysisError("%s: _is_mutable_container is not interpretable precisely on a %s (%s)" % (rule, tname, outs[0].notes[:2] if outs else "no outcome"))
        ctx.abstract_cases += 1
        if outs[0].value is not want:
            bad.append((tname, outs[0].value))
    if bad:
        ctx.fail(rule, f, f.node, "_is_mutable_container answers %s for a %s (%d disagreeing kind(s)): a slot value of that kind is not copied when a per-instance Parameter is created or a "
                                  "slot is inherited, so editing it through one instance or subclass changes it for the class and everyone else" % (bad[0][1], bad[0][0], len(bad)),
                 key=f.qualname + "::mutable-container-model", input="Selector(objects=OrderedDict(...)); inst.param.s.objects['k'] = v -> visible on the class")
    else:
        ctx.ok(rule, f, f.node, "_is_mutable_container: True exactly for mutable containers, subclasses and non-builtins included (%d kinds)" % len(kinds))


def watcher_new_model(ctx, rule):
    """Watcher.__new__ interpreted abstractly: fields given by keyword or by position, precedence an integer, a fraction
    (0.5), a negative internal one (-1) or absent.  Specification: every field given is handed on unchanged -- the
    precedence in particular is stored AS GIVEN (dispatch sorts by it; truncating 0.25 / 0.5 / 0.75 to 0 turns a declared
    order into registration order) -- and a missing precedence becomes 0."""
    from engine.absint import Interp, Obj, Unsupported
    from engine.loader import AnalysisError
    f = ctx.repo.method(P + "Watcher", "__new__")
    fields = ["inst", "cls", "fn", "mode", "onlychanged", "parameter_names", "what", "queued", "precedence"]
    problems, n = [], 0
    for how in ("keywords", "positional"):
        for prec in (3, 0.5, -1, 0, "absent"):
            given = {"inst": Obj("inst"), "cls": Obj("cls"), "fn": Obj("fn"), "mode": "args", "onlychanged": True, "parameter_names": ("a",), "what": "value", "queued": False}
            if prec != "absent":
                given["precedence"] = prec
            built = []

            def hook(fn, args, kwargs):
                if fn == "super().__new__":
                    built.append(dict(kwargs))
                    return Obj("watcher")
                if fn == "int" and len(args) == 1 and isinstance(args[0], (int, float)):
                    return int(args[0])
                if fn == "float" and len(args) == 1 and isinstance(args[0], (int, float)):
                    return float(args[0])
                return NotImplemented
            cls_ = Obj("Watcher", _fields=tuple(fields))
            it = Interp(ctx.hier, dyn=P + "Watcher", inline=lambda m: False, call_hook=hook)
            pos = tuple(given[k] for k in fields if k in given) if how == "positional" else ()
            kw = {} if how == "positional" else dict(given)
            try:
                outs = it.run_all(f, {f.params[0]: cls_, "args": pos, "kwargs": kw})
            except Unsupported as e:
                raise AnalysisError("%s: absint cannot interpret Watcher.__new__: %s" % (rule, e))
            if len(outs) != 1 or outs[0].imprecise or outs[0].kind != "return" or len(built) != 1:
                raise AnalysisError("%s: Watcher.__new__ is not interpretable precisely (%s)" % (rule, outs[0].notes[:2] if outs else "no outcome"))
            n += 1
            got = built[0]
            want = dict(given)
            want.setdefault("precedence", 0)
            for k, v in want.items():
                g = got.get(k, "<missing>")
                same = (g is v) if isinstance(v, Obj) else (g == v and type(g) is type(v))
                if not same:
                    problems.append("Watcher(%s, precedence=%s) stores %s=%r, specification %r%s" % (how, prec, k, g, v,
                                    ": watchers whose precedences differ only by a fraction run in registration order, not in precedence order" if k == "precedence" else ""))
    ctx.abstract_cases += n
    if problems:
        ctx.fail(rule, f, f.node, "Watcher model: %s (%d disagreeing case(s))" % (problems[0], len(problems)), key=f.qualname + "::watcher-new-model")
    else:
        ctx.ok(rule, f, f.node, "Watcher model, %d cases: every field, the precedence included, is stored as given; a missing precedence is 0" % n)


def rx_attribute_resolution_is_per_object(ctx, rule):
    """rx.__getattribute__ decides from the CURRENT object which attribute names an expression accepts (`dir(current)` includes
    instance attributes; two values of one type may differ).  Nothing it consults -- directly or through a module-level
    helper it calls -- may be module-level mutable state (a memo keyed by type is shared by all expressions and answers
    for the first object of that type ever seen)."""
    g = ctx.repo.func("param.reactive.rx.__getattribute__")
    mod = g.module
    mutable_globals = set()
    for st in mod.tree.body:
        tg = st.targets if isinstance(st, ast.Assign) else ([st.target] if isinstance(st, ast.AnnAssign) and st.value is not None else [])
        val = getattr(st, "value", None)
        if tg and isinstance(val, (ast.Dict, ast.List, ast.Set, ast.DictComp, ast.ListComp, ast.SetComp)) or (
                tg and isinstance(val, ast.Call) and norm(val.func).rsplit(".", 1)[-1] in ("dict", "list", "set", "defaultdict", "OrderedDict", "WeakKeyDictionary", "WeakValueDictionary", "lru_cache")):
            mutable_globals |= {t.id for t in tg if isinstance(t, ast.Name)}
    todo, seen, bad = [g], {g.qualname}, None
    uses_dir = False
    while todo and bad is None:
        h = todo.pop()
        for n in ast.walk(h.node):
            if isinstance(n, ast.Name) and isinstance(n.ctx, ast.Load) and n.id in mutable_globals:
                bad = (h, n)
                break
            if isinstance(n, ast.Call) and isinstance(n.func, ast.Name):
                if n.func.id == "dir":
                    uses_dir = True
                t = ctx.repo.funcs.get("%s.%s" % (mod.name, n.func.id))
                if t is not None and t.cls is None and t.qualname not in seen:
                    if t.has_decorator("lru_cache") or t.has_decorator("functools.lru_cache") or t.has_decorator("cache") or t.has_decorator("functools.cache"):
                        bad = (h, n)
                        break
                    seen.add(t.qualname)
                    todo.append(t)
    if bad is not None:
        h, n = bad
        ctx.fail(rule, h, n, "the attribute names an expression accepts are taken from module-level state (`%s`, reached from rx.__getattribute__%s): a memo shared by all expressions answers "
                             "for the first object of a type ever seen -- `expr.attr` raises AttributeError for a later object that has the attribute, or accepts a name it lacks" % (
                                 norm(n)[:50], "" if h is g else " through " + h.name), key=g.qualname + "::attribute-names-from-shared-state")
    elif not uses_dir:
        from engine.loader import AnalysisError
        raise AnalysisError("%s: rx.__getattribute__ no longer lists the attributes of the current object with dir(): the anchor of this rule vanished" % rule)
    else:
        ctx.ok(rule, g, g.node, "rx.__getattribute__ lists the attributes of the current object on every access (dir); no module-level mutable state is consulted (%d module-level containers in reactive.py)" % len(mutable_globals))


def no_shared_mutable_class_state(ctx, rule):
    """Per-object state is per object: no class body in param / numbergen binds a mutable container (list / dict / set) to an
    attribute that a method of the class mutates in place through self (self.<name>.append / pop / ...), unless the class's
    own __init__ rebinds it for every new object.  (Time._pushed_state declared at class level would make all clocks
    share one context stack: leaving one clock's context restores another clock's time.)"""
    MUT = ("append", "pop", "extend", "update", "add", "clear", "insert", "remove", "setdefault", "popitem", "discard")
    n = 0
    for cq, cobj in sorted(ctx.repo.classes.items()):
        node = getattr(cobj, "node", None)
        if node is None:
            continue
        n += 1
        mut = {}
        for st in node.body:
            if isinstance(st, ast.Assign) and (isinstance(st.value, (ast.List, ast.Dict, ast.Set)) or (
                    isinstance(st.value, ast.Call) and norm(st.value.func) in ("list", "dict", "set", "defaultdict", "OrderedDict", "collections.defaultdict", "collections.OrderedDict"))):
                for tg in st.targets:
                    if isinstance(tg, ast.Name) and not (tg.id.startswith("__") and tg.id.endswith("__")):
                        mut[tg.id] = st
        if not mut:
            continue
        rebinds = set()
        for g in cobj.methods.get("__init__", []):
            me = g.params[0] if g.params else "self"
            for st in ast.walk(g.node):
                if isinstance(st, ast.Assign):
                    rebinds |= {t.attr for t in st.targets if isinstance(t, ast.Attribute) and isinstance(t.value, ast.Name) and t.value.id == me}
        for fs in cobj.methods.values():
            for g in fs:
                me = g.params[0] if g.params else None
                for c in ast.walk(g.node):
                    hit = None
                    if isinstance(c, ast.Call) and isinstance(c.func, ast.Attribute) and c.func.attr in MUT and isinstance(c.func.value, ast.Attribute) \
                            and isinstance(c.func.value.value, ast.Name) and c.func.value.value.id == me and c.func.value.attr in mut:
                        hit = c.func.value.attr
                    if isinstance(c, (ast.Assign, ast.AugAssign, ast.Delete)):
                        tgs = c.targets if isinstance(c, (ast.Assign, ast.Delete)) else [c.target]
                        for t in tgs:
                            if isinstance(t, ast.Subscript) and isinstance(t.value, ast.Attribute) and isinstance(t.value.value, ast.Name) and t.value.value.id == me and t.value.attr in mut:
                                hit = t.value.attr
                    if hit and hit not in rebinds:
                        ctx.fail(rule, g, c, "%s.%s mutates `self.%s` in place (`%s`), but `%s` is a mutable container bound in the class body and %s.__init__ does not rebind it: every "
                                             "object of the class shares that one container -- state pushed by one object is popped by another" % (
                                                 cq.rsplit(".", 1)[-1], g.name, hit, norm(c)[:60], hit, cq.rsplit(".", 1)[-1]), key="%s::shared-mutable-class-state::%s" % (cq, hit))
                        return
    ctx.require(n >= 40, "fewer than 40 classes examined (%d)" % n)
    pf = ctx.repo.func("param.parameters.Time.__init__")
    ctx.ok(rule, pf, None, "no class binds a mutable container at class level that its methods mutate through self (%d classes)" % n)


def fresh_private_state(ctx, rule):
    """_ClassPrivate.__init__ and _InstancePrivate.__init__ interpreted TWICE in one interpreter (module-level objects are
    evaluated once and shared, as at run time) with their default arguments: no mutable container stored on one private
    namespace -- the dispatch state dict, its event / watcher queues, the value store, the watcher table ... -- is the
    object stored on the other one, at any depth.  (A shallow copy of a module-level template shares the queue lists:
    events queued for one class are delivered by the flush of another.)"""
    from engine.absint import Interp, Obj, Unsupported
    from engine.loader import AnalysisError
    n, bad = 0, []
    for q in ("_ClassPrivate", "_InstancePrivate"):
        f = ctx.repo.func(P + q + ".__init__")
        it = Interp(ctx.hier, inline_module_functions=True)
        selves = []
        for k in (1, 2):
            me = Obj("private_namespace_%d" % k)
            env = {f.params[0]: me}
            try:
                outs = it.run_all(f, env)
            except Unsupported as e:
                raise AnalysisError("%s: absint cannot interpret %s.__init__: %s" % (rule, q, e))
            if len(outs) != 1 or outs[0].imprecise or outs[0].kind != "return":
                raise AnalysisError("%s: %s.__init__ is not interpretable precisely (%s)" % (rule, q, outs[0].notes[:2] if outs else "no outcome"))
            selves.append(me)
            n += 1

        def containers(v, path, out, depth=0):
            if isinstance(v, (list, dict, set)) and depth < 4:
                out.append((path, v))
                items = v.items() if isinstance(v, dict) else enumerate(v) if isinstance(v, list) else []
                for k, x in items:
                    containers(x, "%s[%r]" % (path, k), out, depth + 1)
        c1, c2 = [], []
        for k, v in selves[0].attrs.items():
            containers(v, k, c1)
        for k, v in selves[1].attrs.items():
            containers(v, k, c2)
        if not any(p.startswith("parameters_state") for p, _ in c1):
            raise AnalysisError("%s: %s.__init__ no longer stores a dispatch state the model can see" % (rule, q))
        for p1, v1 in c1:
            for p2, v2 in c2:
                if v1 is v2:
                    bad.append((q, p1, p2))
    ctx.abstract_cases += n
    f = ctx.repo.func(P + "_ClassPrivate.__init__")
    if bad:
        q, p1, p2 = bad[0]
        g = ctx.repo.func(P + q + ".__init__")
        ctx.fail(rule, g, g.node, "two %s namespaces built with the default arguments share the container `%s` (one object): %s" % (
            q, p1, "events and watchers queued for one class are delivered -- again, and with stale events -- by the first flush of another class" if "parameters_state" in p1
            else "what one object stores there shows up on the other"), key="%s::shared-default-state::%s" % (g.qualname, p1.split("[")[0]),
            input="a queued class-level watcher on Source.x assigns Source.y; later Other.z = 5 -> the watcher of Source.y runs a second time with the stale event")
    else:
        ctx.ok(rule, f, f.node, "_ClassPrivate / _InstancePrivate built twice with the defaults: no container (dispatch state, queues, stores, tables) is shared between two namespaces")


def trigger_event_model(ctx, rule):
    """Parameter._trigger_event (the dispatch of `p.<slot> = value` to the watchers of that slot) interpreted for an
    instance-level Parameter (owner = the instance) and a class-level one (owner = the class), with the OWNER's batch
    open / closed and two watchers of the slot.

    Specification: every watcher is handed -- once, in order -- to the `_call_watcher` of the OWNER's namespace (an open
    batch on the instance is invisible to the class's queue, and vice versa) with one event (what = the slot, name,
    old, new); the flush `_batch_call_watchers()` runs on that same namespace iff its batch is not open."""
    from engine.absint import Interp, Obj, Unsupported
    from engine.loader import AnalysisError
    f = ctx.repo.method(P + "Parameter", "_trigger_event")
    problems, n = [], 0
    for level, batch in [(l, b) for l in ("instance", "class") for b in (False, True)]:
        the_cls = Obj("Cls")
        ns_cls = Obj("namespace_of_the_class", _BATCH_WATCH=(batch if level == "class" else False), __tag__="class")
        the_cls.attrs["param"] = ns_cls
        inst = Obj("instance")
        ns_inst = Obj("namespace_of_the_instance", _BATCH_WATCH=(batch if level == "instance" else False), __tag__="instance")
        inst.attrs["param"] = ns_inst
        owner = inst if level == "instance" else the_cls
        own_ns = ns_inst if level == "instance" else ns_cls
        w1, w2 = Obj("watcher_1"), Obj("watcher_2")
        me = Obj("parameter", name="p", owner=owner, watchers={"bounds": [w1, w2]})
        old, new = Obj("old_bounds"), Obj("new_bounds")
        calls, flushes, made = [], [], []

        def hook(fn, args, kwargs):
            recv = getattr(hook.it, "current_receiver", None)
            if fn.endswith("._call_watcher") and len(args) == 2:
                calls.append((recv, args[0], args[1]))
                return None
            if fn.endswith("._batch_call_watchers") and not args:
                flushes.append(recv)
                return None
            if fn == "Event":
                e = Obj("event", **kwargs)
                made.append(e)
                return e
            if fn == "type" and args:
                return the_cls if args[0] is inst else Obj("type") if args[0] is the_cls else NotImplemented
            if fn == "isinstance" and len(args) == 2 and args[0] in (inst, the_cls):
                if args[1] == "<type type>":
                    return args[0] is the_cls
                raise Unsupported("isinstance(owner, %r)" % (args[1],))
            return NotImplemented
        hook.needs_receiver = True
        it = Interp(ctx.hier, dyn=P + "Parameter", inline=lambda m: False, call_hook=hook)
        hook.it = it
        try:
            outs = it.run_all(f, {f.params[0]: me, f.params[1]: "bounds", f.params[2]: old, f.params[3]: new})
        except Unsupported as e:
            raise AnalysisError("slot dispatch model: absint cannot interpret Parameter._trigger_event: %s" % e)
        if len(outs) != 1 or outs[0].imprecise or outs[0].kind != "return":
            raise AnalysisError("slot dispatch model: Parameter._trigger_event is not interpretable precisely (%s)" % (outs[0].notes[:2] if outs else "no outcome"))
        n += 1
        desc = "p.bounds = v on %s Parameter, the batch of its owner %s" % ("an instance-level" if level == "instance" else "a class-level", "open" if batch else "not open")
        if [c[1] for c in calls] != [w1, w2]:
            problems.append("%s: watchers handed over: %s, specification [watcher_1, watcher_2] (each once, in order)" % (desc, [getattr(c[1], "name", c[1]) for c in calls]))
            continue
        wrong_ns = [c for c in calls if c[0] is not own_ns]
        if wrong_ns:
            problems.append("%s: the watchers are dispatched through %s, specification: the namespace of the OWNER (%s) -- an open batch_call_watchers(obj) on the instance is invisible to the "
                            "class's queue: 'p:bounds' dependants run immediately inside the batch, once per slot change" % (desc, getattr(wrong_ns[0][0], "name", wrong_ns[0][0]), own_ns.name))
            continue
        for _, _, e in calls:
            if not isinstance(e, Obj) or e.attrs.get("what") != "bounds" or e.attrs.get("name") != "p" or e.attrs.get("old") is not old or e.attrs.get("new") is not new:
                problems.append("%s: the event carries %s, specification (what='bounds', name='p', old = what the slot held, new = the assigned value)" % (
                    desc, {k: getattr(v, "name", v) for k, v in e.attrs.items()} if isinstance(e, Obj) else e))
                break
        want_flush = [] if batch else [own_ns]
        if flushes != want_flush:
            problems.append("%s: flushes on %s, specification %s" % (desc, [getattr(x, "name", x) for x in flushes], [x.name for x in want_flush]))
    ctx.abstract_cases += n
    if problems:
        ctx.fail(rule, f, f.node, "slot dispatch model: %s (%d disagreeing case(s))" % (problems[0], len(problems)), key=f.qualname + "::slot-dispatch-model",
                 input="with batch_call_watchers(obj): obj.param.p.bounds = (0, 1); obj.param.p.bounds = (0, 2)   # @depends('p:bounds', watch=True)")
    else:
        ctx.ok(rule, f, f.node, "slot dispatch model, %d cases (instance / class Parameter x owner's batch open / closed): every watcher of the slot goes through the owner's namespace with one event; "
                                "the flush runs there iff no batch is open" % n)
