"""C17 -- copies and pickles are faithful and independent (DESIGN §3/C17)."""
from __future__ import annotations

import ast

from engine.effects import walk_stmts
from engine.facts import calls_in, reaching_defs
from engine.loader import norm

P = "param.parameterized."


def setstate_watcher_table(ctx, rule):
    """Parameterized.__setstate__ interpreted on a saved watcher table (shared by R17.i and R06.s)."""
    from engine.absint import Interp, Obj, Unsupported
    from engine.loader import AnalysisError
    ss = ctx.repo.func(P + "Parameterized.__setstate__")
    # ---------------------------------------------------------------- R17.i
    inst_old = Obj("original_instance")
    fn_m, fn_p = Obj("method_caller", _watcher_name="cb"), Obj("foreign_function")
    w_ab = Obj("watcher_of_a_and_b", inst=inst_old, fn=fn_m, __iter__=[inst_old, Obj("cls"), fn_m, "args", False, False, ["a", "b"], "value", 0])
    w_a = Obj("watcher_of_a", inst=inst_old, fn=fn_p, __iter__=[inst_old, Obj("cls"), fn_p, "args", False, False, ["a"], "value", 0])
    table = {"a": {"value": [w_ab, w_a]}, "b": {"value": [w_ab]}}
    saved = Obj("saved_private", watchers=table, parameters_state={}, initialized=True)
    the_copy = Obj("copy")
    made = []

    def hook2(fn, args, kwargs):
        if fn == "Watcher":
            o = Obj("new_watcher_%d" % len(made), args=list(args))
            made.append(o)
            return o
        if fn == "_InstancePrivate":
            return Obj("fresh_private", watchers={}, initialized=False, parameters_state={})
        if fn == "type":
            return Obj("Cls", _param__private=Obj("class_private", explicit_no_refs=[]))
        if fn == "hasattr" and len(args) == 2:
            return isinstance(args[0], Obj) and args[1] in args[0].attrs
        if fn == "_m_caller":
            return Obj("method_caller_for_copy", owner=args[0] if args else None)
        if fn == "get_method_owner":
            return None
        if fn in ("inspect.ismethod", "ismethod"):
            return False               # neither the method-caller wrapper nor the foreign function is a bound method
        if fn == "id" and args and isinstance(args[0], Obj):
            return args[0].name
        if fn == "setattr" and len(args) == 3 and isinstance(args[0], Obj):
            args[0].attrs[args[1]] = args[2]
            return None
        return NotImplemented
    it = Interp(ctx.hier, call_hook=hook2)
    try:
        outs = it.run_all(ss, {"self": the_copy, "state": {"_param__private": saved, "plain_attribute": Obj("attr")}})
    except Unsupported as e:
        raise AnalysisError("absint cannot interpret Parameterized.__setstate__: %s -- the watcher-table model cannot decide" % e)
    ctx.abstract_cases += 1
    if len(outs) != 1 or outs[0].imprecise or outs[0].kind != "return":
        raise AnalysisError("absint imprecise on Parameterized.__setstate__: %s -- the watcher-table model cannot decide" % (outs[0].notes[:2] if outs else "no outcome"))
    la, lb = table["a"]["value"], table["b"]["value"]
    problems = []
    if not (isinstance(la, list) and isinstance(lb, list) and len(la) == 2 and len(lb) == 1 and all(x in made for x in la + lb)):
        problems.append("the rebuilt table is %r: not one re-created watcher per saved entry, in the saved order" % (table,))
    else:
        if la[0] is not lb[0]:
            problems.append("the watcher listed under both `a` and `b` becomes two objects on the copy (%s, %s): batched dispatch tells queued watchers apart by identity, so "
                            "copy.param.update(a=.., b=..) calls its callback once per parameter instead of once" % (la[0].name, lb[0].name))
        if la[0] is la[1]:
            problems.append("two different saved watchers become one object")
        for nw, old in ((la[0], w_ab), (la[1], w_a)):
            a = nw.attrs.get("args") or []
            if len(a) != 9:
                problems.append("a watcher is re-created from %d fields instead of the 9 saved ones" % len(a))
            elif a[0] is not the_copy:
                problems.append("a re-created watcher is still bound to %r instead of the copy" % (a[0],))
            elif old is w_ab and not (isinstance(a[2], Obj) and a[2].attrs.get("owner") is the_copy):
                problems.append("the method-caller callback of a re-created watcher is not rebuilt for the copy (%r)" % (a[2],))
            elif old is w_a and a[2] is not fn_p:
                problems.append("a foreign callback is replaced on the copy (%r)" % (a[2],))
            elif a[3:] != old.attrs["__iter__"][3:]:
                problems.append("the remaining fields of a re-created watcher differ from the saved ones")
    if problems:
        ctx.fail(rule, ss, ss.node, "__setstate__ on a saved watcher table {a: [w_ab, w_a], b: [w_ab]}: %s" % problems[0], key=ss.qualname + "::watcher-table-model",
                 input="@depends('a', 'b', watch=True) def cb; c = copy.deepcopy(p); c.param.update(a=1, b=1) -> cb runs twice")
    else:
        ctx.ok(rule, ss, ss.node, "saved table {a: [w_ab, w_a], b: [w_ab]} -> {a: [n0, n1], b: [n0]}: identity, order, binding to the copy and callbacks as specified")


def occupied_slots_by_presence(ctx, rule):
    """get_occupied_slots -- what Parameterized.__getstate__ saves of a subclass's own __slots__ -- interpreted on an
    instance with a slot holding None, a slot holding a value and a slot never assigned.  Specification: a slot is saved
    iff it is assigned (presence), whatever it holds; a slot left out because it holds None is unset on the copy."""
    from engine.absint import Interp, Obj, Unsupported
    from engine.loader import AnalysisError
    f = ctx.repo.func("param.parameterized.get_occupied_slots")
    inst = Obj("instance", holds_none=None, holds_value=Obj("a_value"), holds_zero=0)
    cls = Obj("Cls")

    def hook(fn, args, kwargs):
        if fn == "get_all_slots":
            return ["holds_none", "holds_value", "holds_zero", "never_assigned"]
        if fn == "type" and args and args[0] is inst:
            return cls
        if fn == "hasattr" and len(args) == 2 and args[0] is inst:
            return args[1] in inst.attrs
        if fn == "getattr" and len(args) >= 2 and args[0] is inst and isinstance(args[1], str):
            if args[1] in inst.attrs:
                return inst.attrs[args[1]]
            if len(args) == 3:
                return args[2]
        return NotImplemented
    it = Interp(ctx.hier, call_hook=hook)
    try:
        outs = it.run_all(f, {f.params[0]: inst})
    except Unsupported as e:
        raise AnalysisError("%s: absint cannot interpret get_occupied_slots: %s" % (rule, e))
    if len(outs) != 1 or outs[0].imprecise or outs[0].kind != "return" or not isinstance(outs[0].value, (list, tuple, set)):
        raise AnalysisError("%s: get_occupied_slots is not interpretable precisely (%s)" % (rule, outs[0].notes[:2] if outs else "no outcome"))
    ctx.abstract_cases += 1
    got, want = sorted(outs[0].value), ["holds_none", "holds_value", "holds_zero"]
    if got == want:
        ctx.ok(rule, f, f.node, "a slot is reported iff it is assigned (None and 0 included, the unassigned one left out)")
    else:
        ctx.fail(rule, f, f.node, "get_occupied_slots reports %s for an instance whose slots holds_none (None), holds_value and holds_zero (0) are assigned and never_assigned is not; specification %s: "
                                  "__getstate__ saves the reported slots only, so the copy lacks an assigned slot (AttributeError on read) or gains one" % (got, want),
                 key=f.qualname + "::presence-not-value", input="class N(param.Parameterized): __slots__ = ['cache']; n = N(); n.cache = None; copy.deepcopy(n).cache")


def run(ctx):
    ctx.rule("R17.v", "get_occupied_slots, interpreted abstractly on an instance with slots holding None / a value / 0 and one never assigned, reports exactly the assigned ones (presence, not value): "
                      "they are what __getstate__ saves of a subclass's own __slots__", floor=1)
    occupied_slots_by_presence(ctx, "R17.v")
    ctx.rule("R17.l", "Parameterized.__getstate__, interpreted abstractly, saves every ordinary attribute and the complete per-instance value store -- entries that are still the class default object included (that entry pins a constant to the instance; a copy without it follows later class-level sets)", floor=1)
    ctx.rule("R17.m", "restoring a Parameter restores and nothing else: no __setstate__ of a Parameter class calls a method that recomputes slots from others (_update_state, compute_default, update, _ensure_value_is_in_objects, _validate): the copy must hold what was saved, e.g. an objects list the default was removed from", floor=2)
    ctx.rule("R17.w", "no shared clock is pinned onto copied state: _Dynamic_time_fn (and the value/time pair) of a generator -- which lives in the instance's values and is duplicated by "
                      "deepcopy / pickle -- is written only by the sanctioned writers (_initialize_generator, set_dynamic_time_fn; _produce_value, _state_pop for the pair)", floor=8)
    ctx.rule("R17.s", "every slotted class can be pickled under every protocol: a class in param / numbergen that declares non-empty __slots__ defines or inherits (from a class of the code "
                      "base) both __getstate__ and __setstate__ -- pickle protocols 0 and 1 refuse a slotted object without __getstate__, and such objects are reachable from the private "
                      "state of a Parameterized", floor=15)
    ctx.rule("R17.a", "__setstate__ rebuilds every method-caller watcher as _m_caller(self, name), i.e. it assumes the object HOLDING the watcher owns the method; "
                      "every installer of such a caller must therefore register _m_caller(X, ...) on X itself", floor=1)
    ctx.rule("R17.e", "__setstate__ re-creates the Watcher tuples of a copy, so (i) it rebinds a bound-method callback by name only when that method's owner IS the watched instance "
                      "(identity, not class membership) and (ii) unregistering a watcher compares by value (list.remove), never by identity", floor=2)
    ctx.rule("R17.h", "rebinding by name needs a name: wherever __setstate__ rebinds a callback with getattr(self, fn.__name__) under the test get_method_owner(fn) is <instance>, "
                      "get_method_owner (interpreted abstractly on bound method / function / partial of either / nested partial) answers non-None only for callables that have "
                      "__name__ (bound methods), or the site tests inspect.ismethod(fn) itself -- otherwise copying an object with a functools.partial callback raises AttributeError", floor=1)
    ctx.rule("R17.i", "__setstate__, interpreted abstractly on a saved watcher table in which one watcher is listed under two parameters next to a second watcher: every saved watcher is "
                      "re-created exactly once (the same new object wherever the old one was listed -- batched dispatch tells watchers apart by identity), in the saved order, bound to the copy, "
                      "with a method-caller callback rebuilt for the copy and a foreign callback kept", floor=1)
    ctx.rule("R17.u", "a Parameterized subclass with a __getstate__ of its own hands on the saved private state unchanged (no store into the value / Parameter / reference / watcher tables, no "
                      "replacement of `_param__private` in the state)", floor=1)
    ctx.rule("R17.r", "reduce hooks build new objects: every __reduce__ / __reduce_ex__ of param / numbergen hands the state to its reconstructor (>= 3 elements) or delegates to super(); a "
                      "by-reference answer `(function, args)` is accepted only under an identity test of self", floor=1)
    ctx.rule("R17.j", "copy-only hooks share nothing: every __deepcopy__ / __copy__ defined in param or numbergen puts into the new object only values that went through copy.deepcopy "
                      "(or constants); on the pinned tree there is none, so deepcopy and pickle both go through __getstate__ / __setstate__ and cannot disagree", floor=1)
    ctx.rule("R17.k", "a copied number generator behaves like the original: numbergen.Hash.__init__ and Hash.__setstate__ (what deepcopy and pickle go through) feed the md5 state the same inputs "
                      "(shared with R19.g)", floor=1)
    ctx.rule("R17.f", "a copy starts outside any batch/trigger scope of the original: the transient dispatcher state (parameters_state) is reset after the saved attributes "
                      "were restored, or is excluded from the saved state", floor=1)
    ctx.rule("R17.g", "get_all_slots (used by Parameterized.__getstate__ for slot-held attributes) returns the slots of the class itself and of every base, "
                      "decided by abstract interpretation on a three-class chain", floor=1)
    ctx.rule("R17.b", "no nested function / lambda reaches a watcher that param itself installs (closures cannot be pickled and are shared, not copied, by deepcopy)", floor=3)
    ctx.rule("R17.c", "state tables agree: every slot of _InstancePrivate/_ClassPrivate is assigned on every path of __init__ (getstate reads each), "
                      "their getstate/setstate iterate __slots__, Parameter.__getstate__ iterates _all_slots_", floor=5)
    ctx.rule("R17.d", "Parameterized.__setstate__ re-creates a fresh private namespace, restores every saved attribute and marks the object initialized only at the end", floor=1)
    ctx.rule("R17.n", "a copy shares no mutable class-level state with its original: no class body in param / numbergen binds a mutable container to an attribute that a method mutates in "
                      "place through self (such an attribute never enters the instance __dict__, so __getstate__ does not save it and copy and original keep using one object) -- shared with R19.s", floor=1)
    from checks.shared import no_shared_mutable_class_state
    no_shared_mutable_class_state(ctx, "R17.n")
    ctx.not_decided += ["value equality and independence of the copy (heap shape at run time)", "user-supplied callables registered through the public watch API"]

    # ---------------------------------------------------------------- R17.a
    sites = 0
    for f in ctx.repo.all_funcs("param"):
        if not any(isinstance(c, ast.Call) and norm(c.func) == "_m_caller" for c in ast.walk(f.node)):
            continue
        if f.qualname == P + "Parameterized.__setstate__":
            continue   # the reader itself (binds to self, which holds the table being rebuilt)
        cfg = ctx.facts.cfg(f)
        for n in cfg.live_nodes():
            for c in calls_in(n):
                if norm(c.func) != "_m_caller" or not c.args:
                    continue
                sites += 1
                owner = norm(c.args[0])
                res = [t.id for t in n.ast.targets if isinstance(t, ast.Name)] if isinstance(n.ast, ast.Assign) else []
                regs = []
                for m in cfg.live_nodes():
                    for c2 in calls_in(m):
                        if isinstance(c2.func, ast.Attribute) and c2.func.attr in ("_watch", "watch") and c2.args and \
                                (norm(c2.args[0]) in res or norm(c2.args[0]).startswith("_m_caller(")):
                            recv = c2.func.value
                            holder = norm(recv.value) if isinstance(recv, ast.Attribute) and recv.attr == "param" else norm(recv)
                            regs.append((m, holder))
                if not regs:
                    ctx.info("R17.a", f, n, "_m_caller result is not registered in this function")
                    continue
                for m, holder in regs:
                    same = holder == owner
                    if not same and isinstance(c.args[0], ast.Name):
                        # def-use: holder is a local whose every reaching definition is the owner variable
                        defs = reaching_defs(cfg, m, holder) if holder.isidentifier() else []
                        same = bool(defs) and all(isinstance(d.ast, ast.Assign) and norm(d.ast.value) == owner for d in defs)
                    if same:
                        ctx.ok("R17.a", f, m, "_m_caller(%s, ...) registered on %s itself" % (owner, holder))
                    else:
                        ctx.fail("R17.a", f, m,
                                 "the caller built as _m_caller(%s, ...) is registered on `%s`, which can be a different object (a sub-object); "
                                 "__setstate__ of that object later rebuilds it as _m_caller(<that object>, name) and fails or calls the wrong object" % (owner, holder),
                                 key="%s::foreign-method-caller" % f.qualname,
                                 input="copy.deepcopy(Par(sub=Sub())) with @depends('sub.x', watch=True) raises AttributeError: 'Sub' object has no attribute 'cb'")
    ctx.require(sites >= 1, "no _m_caller installer found")

    # ---------------------------------------------------------------- R17.b
    WATCH_PATH = ["Parameters._resolve_dynamic_deps", "Parameters._watch_group", "Parameters._update_deps", "Parameters._setup_refs",
                  "_m_caller", "Parameters._sync_refs", "Parameters._resolve_ref", "Parameters._async_ref"]
    for qn in WATCH_PATH:
        f = ctx.repo.func(P + qn)
        nested = {st.name: st for st in ast.walk(f.node) if isinstance(st, (ast.FunctionDef, ast.AsyncFunctionDef)) and st is not f.node}
        lambdas = [l for l in ast.walk(f.node) if isinstance(l, ast.Lambda)]
        escaping = []
        for st in ast.walk(f.node):
            if isinstance(st, ast.Return) and st.value is not None:
                for nm in ast.walk(st.value):
                    if isinstance(nm, ast.Name) and nm.id in nested:
                        escaping.append((nm.id, st, "returned to the watcher set-up"))
                    if isinstance(nm, ast.Lambda):
                        escaping.append(("<lambda>", st, "returned to the watcher set-up"))
            if isinstance(st, ast.Call) and (norm(st.func) in ("_m_caller", "partial") or (isinstance(st.func, ast.Attribute) and st.func.attr in ("_watch", "watch"))):
                for a in list(st.args) + [k.value for k in st.keywords]:
                    for nm in ast.walk(a):
                        if isinstance(nm, ast.Name) and nm.id in nested:
                            escaping.append((nm.id, st, "passed to %s" % norm(st.func)))
                        if isinstance(nm, ast.Lambda):
                            escaping.append(("<lambda>", st, "passed to %s" % norm(st.func)))
        if escaping:
            nm, st, how = escaping[0]
            ctx.fail("R17.b", f, nested.get(nm, st),
                     "the nested function `%s` is %s and ends up inside an internally installed watcher: pickling the object fails "
                     "(\"Can't pickle local object\") and deepcopy shares the closure (it keeps acting on the original)" % (nm, how),
                     key="%s::closure-in-watcher::%s" % (f.qualname, nm),
                     input="pickle.dumps(obj) with @depends('b.c.x', watch=True) on obj's class")
        else:
            ctx.ok("R17.b", f, f.node, "only module-level functions, bound methods and partials of those are installed")
    dep = ctx.repo.func("param.depends.depends")
    if any(isinstance(st, (ast.FunctionDef, ast.AsyncFunctionDef)) and st.name == "cb" for st in ast.walk(dep.node)):
        ctx.info("R17.b", dep, dep.node, "function-form depends(<Parameter objects>, watch=True) registers a closure through the PUBLIC watch API on the owners "
                                         "(like any user callable; outside the internally-installed watchers this rule covers)")

    # ---------------------------------------------------------------- R17.c
    for cq in (P + "_InstancePrivate", P + "_ClassPrivate"):
        slots = ctx.hier.own_slots(cq)
        init = ctx.repo.method(cq, "__init__")
        cfg = ctx.facts.cfg(init)
        missing = []
        for s in slots:
            st = [n for n in cfg.live_nodes() if n.kind == "stmt" and isinstance(n.ast, (ast.Assign, ast.AnnAssign)) and any(
                isinstance(t, ast.Attribute) and t.attr == s and norm(t.value) == "self" for t in (n.ast.targets if isinstance(n.ast, ast.Assign) else [n.ast.target]))]
            # assigned on every path: the exit is unreachable without passing a store
            ids = {n.id for n in st}
            reach = cfg.reachable_from([cfg.entry], stop=lambda n: n.id in ids, labels={"n", "t", "f"})
            if not st or any(r is cfg.exit for r in reach):
                missing.append(s)
        if missing:
            ctx.fail("R17.c", init, init.node, "%s.__init__ does not assign slot(s) %s on every path: __getstate__ (getattr on every slot) raises AttributeError on copy/pickle" % (
                cq.rsplit(".", 1)[-1], missing), key="%s::unassigned-slots::%s" % (cq, ",".join(missing)))
        else:
            ctx.ok("R17.c", init, init.node, "all %d slots assigned on every path" % len(slots))
        gs, ss = ctx.repo.method(cq, "__getstate__"), ctx.repo.method(cq, "__setstate__")
        def iterates_slots(fn, attr):
            for comp in ast.walk(fn.node):
                if isinstance(comp, (ast.DictComp, ast.For)):
                    it = comp.generators[0].iter if isinstance(comp, ast.DictComp) else comp.iter
                    if attr in norm(it):
                        return True
            return False
        ok = iterates_slots(gs, "__slots__") and any(isinstance(c, ast.Call) and norm(c.func) == "getattr" for c in ast.walk(gs.node)) \
            and any(isinstance(c, ast.Call) and norm(c.func) == "setattr" and norm(c.args[0]) == ss.params[0] for c in ast.walk(ss.node))
        (ctx.ok if ok else ctx.fail)("R17.c", gs, gs.node, "getstate reads every slot, setstate restores every item" if ok else
                                     "%s getstate/setstate no longer cover every slot" % cq.rsplit(".", 1)[-1])
    pg = ctx.repo.method(P + "Parameter", "__getstate__")
    ok = any(isinstance(comp, (ast.DictComp, ast.For)) and "_all_slots_" in norm(comp.generators[0].iter if isinstance(comp, ast.DictComp) else comp.iter)
             for comp in ast.walk(pg.node)) and any(isinstance(c, ast.Call) and norm(c.func) == "getattr" for c in ast.walk(pg.node))
    tampered = [st for st in ast.walk(pg.node) if isinstance(st, (ast.Assign, ast.Delete, ast.AugAssign)) and any(
        isinstance(t, ast.Subscript) for t in (st.targets if not isinstance(st, ast.AugAssign) else [st.target]))] + \
        [c for c in ast.walk(pg.node) if isinstance(c, ast.Call) and isinstance(c.func, ast.Attribute) and c.func.attr in ("pop", "update", "clear", "setdefault")]
    if tampered:
        ok = False
    if ok:
        ctx.ok("R17.c", pg, pg.node, "Parameter.__getstate__ returns every slot of _all_slots_, unmodified")
    elif tampered:
        ctx.fail("R17.c", pg, tampered[0], "Parameter.__getstate__ rewrites part of the saved state (`%s`): the copy of a Parameter (deepcopy/pickle of its owner) loses that slot, "
                                           "e.g. the watchers of attribute-level dependencies" % norm(tampered[0])[:60], key=pg.qualname + "::state-tampered",
                 input="@depends('x:bounds', watch=True); c = deepcopy(obj); c.param.x.bounds = (0, 5) no longer runs c's method")
    else:
        ctx.fail("R17.c", pg, pg.node, "Parameter.__getstate__ no longer iterates _all_slots_ (slots of subclasses are lost in copies)")

    # ---------------------------------------------------------------- R17.d
    ss = ctx.repo.method(P + "Parameterized", "__setstate__")
    sc = ctx.facts.cfg(ss)
    inits = [n for n in sc.live_nodes() if n.kind == "stmt" and isinstance(n.ast, ast.Assign) and any(norm(t) == "self._param__private.initialized" for t in n.ast.targets)]
    false_first = [n for n in inits if isinstance(n.ast.value, ast.Constant) and n.ast.value.value is False]
    true_last = [n for n in inits if isinstance(n.ast.value, ast.Constant) and n.ast.value.value is True]
    restores = [n for n in sc.live_nodes() for c in calls_in(n) if norm(c.func) == "setattr" and len(c.args) == 3 and norm(c.args[0]) == "self"]
    fresh = [n for n in sc.live_nodes() if n.kind == "stmt" and isinstance(n.ast, ast.Assign) and any(norm(t) == "self._param__private" for t in n.ast.targets)
             and isinstance(n.ast.value, ast.Call) and norm(n.ast.value.func) == "_InstancePrivate"]
    ok = bool(false_first and true_last and restores and fresh) and all(sc.dominates(fresh[0], r) for r in restores) \
        and all(any(sc.dominates(ff, r) for ff in false_first) for r in restores) \
        and all(any(any(x is tl for x in sc.reachable_from([r])) for tl in true_last) for r in restores) \
        and not any(any(x is r for x in sc.reachable_from([tl])) for r in restores for tl in true_last)
    (ctx.ok if ok else ctx.fail)("R17.d", ss, ss.node, "fresh private namespace -> uninitialized -> restore every attribute -> initialized" if ok else
                                 "Parameterized.__setstate__ no longer restores every saved attribute between `initialized = False` and `initialized = True` on a fresh private namespace")

    # ---------------------------------------------------------------- R17.e
    from engine.cfg import decompose
    reb = [n for n in sc.live_nodes() if n.kind == "stmt" and isinstance(n.ast, ast.Assign) and isinstance(n.ast.value, ast.Call)
           and norm(n.ast.value.func) == "getattr" and len(n.ast.value.args) == 2 and norm(n.ast.value.args[0]) == "self" and "__name__" in norm(n.ast.value.args[1])]
    if not reb:
        ctx.info("R17.e", ss, ss.node, "__setstate__ no longer rebinds bound-method callbacks by name")
    for n in reb:
        ok = False
        for e, t in sc.conditions(n):
            if t is True and isinstance(e, ast.Compare) and isinstance(e.ops[0], ast.Is):
                sides = {norm(e.left), norm(e.comparators[0])}
                if any(x.startswith("get_method_owner(") for x in sides) and any(x.endswith(".inst") for x in sides):
                    ok = True
        if ok:
            ctx.ok("R17.e", ss, n, "rebinding by name is guarded by `get_method_owner(fn) is watcher.inst`")
        else:
            ctx.fail("R17.e", ss, n, "a bound-method callback is re-bound to the copy although its owner is not (by identity) the watched instance: a callback that belongs to "
                                     "another object of the same class is redirected to the copy itself", key=ss.qualname + "::rebinding-not-by-identity",
                     input="leader.param.watch(follower.follow, 'a'); c = copy.deepcopy(leader); c.a = 7 -> runs c.follow, the copied follower is never notified")
    rw = ctx.repo.func(P + "Parameters._register_watcher")
    ident = [c for c in ast.walk(rw.node) if isinstance(c, ast.Compare) and isinstance(c.ops[0], (ast.Is, ast.IsNot))
             and "watcher" in {norm(c.left), norm(c.comparators[0])}]
    if ident:
        ctx.fail("R17.e", rw, ident[0], "_register_watcher removes a watcher by identity (`%s`), but __setstate__ re-creates every Watcher tuple of a copy: a handle stored on the object "
                                        "is equal to, not identical with, the registered watcher, so unwatch on the copy removes nothing" % norm(ident[0]),
                 key=rw.qualname + "::remove-by-identity",
                 input="self._h = self.param.watch(...); c = copy.deepcopy(obj); c.param.unwatch(c._h) -> 'No such watcher', callback still active")
    else:
        ctx.ok("R17.e", rw, rw.node, "watchers are (un)registered through list methods (remove compares by value)")

    # ---------------------------------------------------------------- R17.f
    resets = [n for n in sc.live_nodes() if n.kind == "stmt" and isinstance(n.ast, ast.Assign)
              and any(isinstance(t, ast.Attribute) and t.attr == "parameters_state" for t in n.ast.targets)]
    gs = ctx.repo.method(P + "_InstancePrivate", "__getstate__")
    excluded = "parameters_state" in norm(gs.node) and ("!=" in norm(gs.node) or "not in" in norm(gs.node))
    after = [r for r in resets if restores and all(any(x is r for x in sc.reachable_from([rs])) for rs in restores)
             and not any(any(x is rs for x in sc.reachable_from([r])) for rs in restores)]
    idle = [r for r in after if isinstance(r.ast.value, ast.Dict) and any(
        isinstance(k, ast.Constant) and k.value == "BATCH_WATCH" and isinstance(v, ast.Constant) and v.value is False for k, v in zip(r.ast.value.keys, r.ast.value.values))]
    if idle or excluded:
        ctx.ok("R17.f", ss, (idle or [ss.node])[0], "the copy's dispatcher state is %s" % ("reset to idle after the restore" if idle else "not part of the saved state"))
    else:
        ctx.fail("R17.f", ss, ss.node, "the saved private namespace carries the original's transient dispatcher state (batching flag, queued events) into the copy and nothing resets it: "
                                       "a copy taken while a batch is open keeps BATCH_WATCH=True forever and its watchers never fire again",
                 key=ss.qualname + "::transient-state-copied",
                 input="with batch_call_watchers(p): p.a = 1; c = copy.deepcopy(p)   ->   c.a = 7 never runs c's depends(watch=True) method")

    # ---------------------------------------------------------------- R17.g
    from engine.absint import Interp, Obj, Unsupported
    from engine.loader import AnalysisError
    gas = ctx.repo.func(P + "get_all_slots")
    Base = Obj("Base", __slots__=["b1"], __dict__={"__slots__": ["b1"]})
    Mid = Obj("Mid", __dict__={})                      # declares no slots itself
    Leaf = Obj("Leaf", __slots__=["l1", "l2"], __dict__={"__slots__": ["l1", "l2"]})
    Object = Obj("object", __dict__={})
    mro = [Leaf, Mid, Base, Object]

    def hook(fn, args, kwargs):
        if fn == "classlist":
            return list(reversed(mro))
        if fn in ("inspect.getmro",):
            return tuple(mro)
        if fn.endswith(".mro") or fn.endswith("__mro__"):
            return list(mro)
        if fn == "hasattr" and len(args) == 2 and isinstance(args[0], Obj):
            return args[1] in args[0].attrs
        if fn == "getattr" and len(args) >= 2 and isinstance(args[0], Obj):
            return args[0].attrs.get(args[1], args[2] if len(args) > 2 else None)
        return NotImplemented
    it = Interp(ctx.hier, call_hook=hook)
    try:
        outs = it.run_all(gas, {gas.params[0]: Leaf})
    except Unsupported as e:
        raise AnalysisError("absint cannot interpret get_all_slots: %s -- R17.g cannot decide" % e)
    if any(o.imprecise or o.kind != "return" for o in outs):
        raise AnalysisError("absint imprecise on get_all_slots: %s" % outs[0].notes[:2])
    got = list(outs[0].value) if isinstance(outs[0].value, (list, tuple)) else None
    ctx.abstract_cases += 1
    if got is not None and sorted(got) == ["b1", "l1", "l2"]:
        ctx.ok("R17.g", gas, gas.node, "Leaf(Mid(Base)) -> %s" % got)
    else:
        ctx.fail("R17.g", gas, gas.node, "get_all_slots of a class Leaf(Mid(Base)) with own slots [l1, l2] and inherited [b1] returns %s: slot-held attributes of %s are not saved by "
                                         "__getstate__ and are missing from copies" % (got, "the class itself" if got is not None and "l1" not in got else "a base"),
                 key=gas.qualname + "::incomplete-slots", input="class with its own __slots__; deepcopy/pickle drops the slot-held attribute")

    from checks.c19 import hash_state_agreement
    hash_state_agreement(ctx, "R17.k")

    RECOMPUTE = {"_update_state", "compute_default", "update", "_ensure_value_is_in_objects", "_validate", "_validate_value", "_on_set"}
    n_ss = 0
    for q_ in ctx.hier.parameter_classes():
        cobj = ctx.repo.classes.get(q_)
        g = cobj.method("__setstate__") if cobj is not None else None
        if g is None:
            continue
        n_ss += 1
        calls_ = [c for c in ast.walk(g.node) if isinstance(c, ast.Call) and isinstance(c.func, ast.Attribute) and isinstance(c.func.value, ast.Name)
                  and c.func.value.id == g.params[0] and c.func.attr in RECOMPUTE]
        if calls_:
            ctx.fail("R17.m", g, calls_[0], "%s.__setstate__ calls self.%s() after restoring the slots: the restored Parameter is recomputed instead of being what was saved (e.g. the default is "
                                            "appended to an objects list it had been removed from), so the copy's Parameter differs from the original's" % (cobj.name, calls_[0].func.attr),
                     key="%s::recomputes-after-restore" % g.qualname, input="p.param.x.objects.remove(default); copy.deepcopy(p).param.x.objects != p.param.x.objects")
        else:
            ctx.ok("R17.m", g, g.node, "%s.__setstate__ only restores" % cobj.name)
    ctx.require(n_ss >= 2, "fewer than 2 Parameter __setstate__ methods found (%d)" % n_ss)
    from checks.shared import getstate_complete
    getstate_complete(ctx, "R17.l")
    reduce_hooks_build_new_objects(ctx, "R17.r")
    subclasses_save_the_state_unchanged(ctx, "R17.u")

    # ---------------------------------------------------------------- R17.j
    hooks_ = [g for g in ctx.repo.all_funcs() if g.name in ("__deepcopy__", "__copy__") and g.cls is not None]
    if not hooks_:
        ctx.ok("R17.j", "param.parameterized.Parameter", None, "no class defines __deepcopy__ or __copy__: copies and pickles are both made from __getstate__ / __setstate__")
    for g in hooks_:
        if g.name == "__copy__":
            ctx.info("R17.j", g, g.node, "a shallow-copy hook (copy.copy is not part of the property)")
            continue
        fresh, shared = set(), {g.params[0]}
        changed = True
        order = [st for st in ast.walk(g.node) if isinstance(st, ast.Assign)]
        order.sort(key=lambda st: (st.lineno, st.col_offset))
        for st in order:
            is_deep = isinstance(st.value, ast.Call) and norm(st.value.func) in ("copy.deepcopy", "deepcopy")
            is_new = isinstance(st.value, ast.Call) and norm(st.value.func).endswith("__new__")
            uses_shared = any(isinstance(x, ast.Name) and x.id in shared for x in ast.walk(st.value))
            for t in st.targets:
                if isinstance(t, ast.Name):
                    if is_deep or is_new or isinstance(st.value, ast.Constant):
                        fresh.add(t.id)
                        shared.discard(t.id)
                    elif uses_shared:
                        shared.add(t.id)
                        fresh.discard(t.id)
        leaks = []
        for st in order:
            for t in st.targets:
                if isinstance(t, (ast.Subscript, ast.Attribute)) and isinstance(t.value, ast.Name) and t.value.id in fresh:
                    if any(isinstance(x, ast.Name) and x.id in shared for x in ast.walk(st.value)) and not (isinstance(st.value, ast.Call) and norm(st.value.func) in ("copy.deepcopy", "deepcopy")):
                        leaks.append(st)
        for c in ast.walk(g.node):
            if isinstance(c, ast.Call) and norm(c.func) == "setattr" and len(c.args) == 3 and isinstance(c.args[0], ast.Name) and c.args[0].id in fresh \
                    and any(isinstance(x, ast.Name) and x.id in shared for x in ast.walk(c.args[2])):
                leaks.append(c)
        if leaks:
            ctx.fail("R17.j", g, leaks[0], "%s.__deepcopy__ puts `%s` into the copy without deep-copying it: the copy shares that object with the original (in-place changes leak both ways), "
                                           "and a pickle round trip, which does not use this hook, behaves differently" % (g.cls.name, norm(leaks[0])[:70]), key=g.qualname + "::shares-state",
                     input="obj.param.x.default = [1]; c = copy.deepcopy(obj); c.param.x.default.append(2) -> visible on obj")
        else:
            ctx.ok("R17.j", g, g.node, "every value stored into the copy went through copy.deepcopy")

    # ---------------------------------------------------------------- R17.h
    from engine.absint import Interp, Obj, Unsupported
    from engine.loader import AnalysisError
    gmo = ctx.repo.func("param.parameterized.get_method_owner")
    inst = Obj("instance")
    meth = Obj("bound_method", kind="method", __self__=inst, __name__="cb")
    func = Obj("function", kind="function", __name__="f")
    kinds = {
        "bound method": meth, "plain function": func,
        "partial(bound method)": Obj("partial_m", kind="partial", func=meth),
        "partial(function)": Obj("partial_f", kind="partial", func=func),
        "partial(partial(bound method))": Obj("partial_pm", kind="partial", func=Obj("partial_m2", kind="partial", func=meth)),
    }
    PT = Obj("partial_type")

    def hook(fn, args, kwargs):
        if fn in ("inspect.ismethod", "ismethod") and args:
            return isinstance(args[0], Obj) and args[0].attrs.get("kind") == "method"
        if fn == "isinstance" and len(args) == 2 and args[1] is PT:
            return isinstance(args[0], Obj) and args[0].attrs.get("kind") == "partial"
        if fn == "hasattr" and len(args) == 2 and isinstance(args[0], Obj):
            return args[1] in args[0].attrs
        return NotImplemented
    nameless = []
    for desc, o in kinds.items():
        it = Interp(ctx.hier, call_hook=hook, globals={"partial": PT, "functools": Obj("functools", partial=PT)})
        try:
            outs = it.run_all(gmo, {gmo.params[0]: o})
        except Unsupported as e:
            raise AnalysisError("absint cannot interpret get_method_owner: %s -- R17.h cannot decide" % e)
        ctx.abstract_cases += 1
        if len(outs) != 1 or outs[0].imprecise or outs[0].kind != "return":
            raise AnalysisError("absint imprecise on get_method_owner(%s): %s -- R17.h cannot decide" % (desc, outs[0].notes[:2] if outs else "no outcome"))
        if outs[0].value is not None and "__name__" not in o.attrs:
            nameless.append(desc)
    ss = ctx.repo.method("param.parameterized.Parameterized", "__setstate__")
    scfg = ctx.facts.cfg(ss)
    n_sites = 0
    for n in scfg.live_nodes():
        if n.kind != "stmt" or n.ast is None:
            continue
        for a in ast.walk(n.ast):
            if isinstance(a, ast.Attribute) and a.attr == "__name__" and isinstance(a.value, ast.Name):
                conds = [(norm(e), t) for e, t in scfg.conditions(n)]
                via_owner = [c for c, t in conds if t is True and c.startswith("get_method_owner(%s)" % a.value.id)]
                if not via_owner:
                    continue
                n_sites += 1
                own_test = any(t is True and c.replace(" ", "") in ("inspect.ismethod(%s)" % a.value.id, "ismethod(%s)" % a.value.id) for c, t in conds)
                if nameless and not own_test:
                    ctx.fail("R17.h", ss, n, "`%s` is evaluated whenever %s, but get_method_owner answers an owner for %s, which has no __name__: deepcopy and every pickle protocol "
                                             "raise AttributeError for an object watched with such a callback" % (norm(a), via_owner[0], " / ".join(nameless)),
                             key=ss.qualname + "::name-of-nameless-callback", input="p.param.watch(functools.partial(p.method, 1), 'x'); copy.deepcopy(p) -> AttributeError")
                else:
                    ctx.ok("R17.h", ss, n, "`%s` under `%s`: get_method_owner answers an owner only for callables with __name__%s" % (norm(a), via_owner[0], " (site also tests ismethod)" if own_test else ""))
    ctx.require(n_sites >= 1, "__setstate__ no longer rebinds bound-method callbacks by name under a get_method_owner test: anchor of R17.h vanished")

    setstate_watcher_table(ctx, "R17.i")
    from checks.shared import dynamic_cache_writers
    dynamic_cache_writers(ctx, "R17.w")
    # R17.s
    n_s = 0
    for cq, cobj in sorted(ctx.repo.classes.items()):
        node = cobj.class_assign("__slots__")
        if node is None or (isinstance(node, (ast.List, ast.Tuple)) and not node.elts):
            continue
        n_s += 1
        missing = [m for m in ("__getstate__", "__setstate__") if ctx.hier.resolve(cq, m) is None]
        anyf = next((x for fs in cobj.methods.values() for x in fs), None)
        if anyf is None:
            continue
        if missing:
            ctx.fail("R17.s", anyf, cobj.node if hasattr(cobj, "node") else anyf.node, "class %s declares __slots__ (%s) but neither defines nor inherits %s: pickle protocols 0 and 1 raise TypeError for "
                                                                                   "its instances, so an object that holds one cannot be pickled under every protocol" % (cq.rsplit(".", 1)[-1], norm(node)[:50], " / ".join(missing)),
                     key="%s::slots-without-getstate" % cq)
        else:
            ctx.ok("R17.s", anyf, anyf.node, "%s: slotted, with __getstate__ / __setstate__" % cq.rsplit(".", 1)[-1])
    ctx.require(n_s >= 15, "fewer than 15 slotted classes found (%d)" % n_s)


def reduce_hooks_build_new_objects(ctx, rule):
    """Every __reduce__ / __reduce_ex__ defined in param or numbergen: what it returns either delegates to super(), or names
    a reconstructor together with the STATE to restore (three or more elements), i.e. the copy is a new object filled from
    the original's state.  A two-element answer `(function, args)` reconstructs "by reference" -- the copy IS whatever the
    function returns, e.g. a shared global -- and is accepted only under an identity test of self (`self is <the shared
    object>`): chosen by `==`, any equal-looking private object is replaced by the shared one in its copy."""
    hooks_ = [g for g in ctx.repo.all_funcs() if g.name in ("__reduce__", "__reduce_ex__") and g.cls is not None]
    ctx.require(hooks_, "no __reduce__ / __reduce_ex__ found (ParameterizedFunction.__reduce__ is expected)")
    for g in hooks_:
        cfg = ctx.facts.cfg(g)
        selfn = g.params[0]
        bad = None
        for n in cfg.live_nodes():
            if not (n.kind == "stmt" and isinstance(n.ast, ast.Return) and isinstance(n.ast.value, ast.Tuple)):
                continue
            if len(n.ast.value.elts) >= 3:
                continue
            conds = cfg.conditions(n)
            by_identity = any(tr is True and isinstance(e, ast.Compare) and isinstance(e.ops[0], ast.Is) and selfn in (norm(e.left), norm(e.comparators[0])) for e, tr in conds)
            if not by_identity:
                bad = n
        if bad is not None:
            ctx.fail(rule, g, bad, "%s.%s answers `%s` -- a reconstruction by reference (no state handed over) that is not selected by an identity test of self: the copy / unpickled object of a "
                                   "private object that merely compares equal becomes the shared object (it shows the shared object's state, and changing the copy changes the shared object)" % (
                                       g.cls.name, g.name, norm(bad.ast.value)[:60]), key="%s::by-reference-without-identity" % g.qualname,
                     input="t = param.Time(); t(5); c = copy.deepcopy(holder_of(t)) -> the copy's clock is Dynamic.time_fn (time 0), advancing it moves the global clock")
        else:
            ctx.ok(rule, g, g.node, "%s.%s hands the state to a reconstructor (or delegates to super())" % (g.cls.name, g.name))


_GETSTATE_EXAMPLE = '''
class Gen(Parameterized):
    def __getstate__(self):
        state = super().__getstate__()
        private = copy.copy(state['_param__private'])
        private.values = dict(private.values, random_generator=type(self.random_generator)())
        state['_param__private'] = private
        return state
'''


def _state_rewrites(fnode):
    out = []
    for st in ast.walk(fnode):
        targets = st.targets if isinstance(st, ast.Assign) else [st.target] if isinstance(st, (ast.AugAssign, ast.AnnAssign)) else []
        for t in targets:
            if isinstance(t, ast.Attribute) and t.attr in ("values", "params", "refs", "watchers"):
                out.append(st)
            if isinstance(t, ast.Subscript) and isinstance(t.slice, ast.Constant) and t.slice.value == "_param__private":
                out.append(st)
    return out


def subclasses_save_the_state_unchanged(ctx, rule):
    """A Parameterized subclass (param / numbergen) that defines its own __getstate__ hands on what Parameterized.__getstate__
    saved for the parameter values, per-instance Parameters, references and watchers: it does not replace the private
    namespace or its tables in the state -- a value swapped for a fresh object on the way out (a random generator without
    its state) makes the copy differ from the original.  (Zero instances on the pinned tree; the matcher is exercised on an
    embedded example on every run.)"""
    ex = ast.parse(_GETSTATE_EXAMPLE).body[0].body[0]
    if not _state_rewrites(ex):
        raise AnalysisError("%s: the matcher no longer recognises the embedded example of a rewritten state" % rule)
    P_ = "param.parameterized.Parameterized"
    n, bad = 0, []
    for g in ctx.repo.all_funcs():
        if g.name != "__getstate__" or g.cls is None or g.cls.qualname == P_:
            continue
        # numbergen writes its bases as `param.Parameterized`: the package-qualified name is recognised by its text
        chain = [ctx.repo.classes[q] for q in ctx.hier.mro(g.cls.qualname) if q in ctx.repo.classes]
        if not (ctx.hier.is_subclass(g.cls.qualname, P_) or any(norm(b).rsplit(".", 1)[-1] in ("Parameterized", "ParameterizedFunction") for c in chain for b in c.node.bases)):
            continue
        n += 1
        for st in _state_rewrites(g.node):
            bad.append((g, st))
    if bad:
        g, st = bad[0]
        ctx.fail(rule, g, st, "%s.__getstate__ rewrites the saved private state (`%s`): the copy / unpickled object does not hold the original's parameter values -- a value replaced by a fresh "
                              "object (a random generator without its internal state) makes original and copy diverge as soon as that state matters" % (g.cls.name, norm(st)[:70]),
                 key="%s::rewrites-the-saved-state" % g.qualname, input="g = UniformRandom(time_dependent=True); c = copy.deepcopy(g); both set time_dependent=False -> different streams")
    else:
        ctx.ok(rule, ctx.repo.func(P_ + ".__getstate__"), None, "no Parameterized subclass rewrites the saved private state in a __getstate__ of its own (%d override(s) examined; matcher checked on an embedded example)" % n)
