"""C10 -- the latest assignment wins under every completion order (DESIGN §3/C10)."""
from __future__ import annotations

import ast

from engine.cfg import cond_holds, decompose, walk_no_nested
from engine.effects import store_field, walk_stmts
from engine.facts import calls_in, stores_in
from engine.loader import norm

SUSPEND = (ast.Await, ast.AsyncFor, ast.AsyncWith, ast.Yield, ast.YieldFrom)
ASYNC_REF = "param.parameterized.Parameters._async_ref"


def is_syncing_with(w):
    return any(isinstance(i.context_expr, ast.Call) and norm(i.context_expr.func).split(".")[-1] == "_syncing" for i in w.items)


def async_refs_expr(ctx, e, aliases):
    return ctx.facts.field_of(e, aliases) == "private.async_refs"


def rx_latest_wins(ctx, rule_g, rule_c):
    """Latest-wins discipline of asynchronous evaluations in reactive.py (shared by R10.g / R10.c and R08.g2 / R08.c2)."""
    # ------------------------------------------------------------- R10.g
    for g in ctx.repo.all_funcs("param.reactive"):
        if g.is_async or g.cls is None or g.cls.name != "rx" or g.name in ("__init__", "__new__"):
            continue
        gc = ctx.facts.cfg(g)
        ws = [n for n in gc.live_nodes() for t in stores_in(n) if isinstance(t, ast.Attribute) and t.attr == "_current_" and norm(t.value) == "self"
              and not (isinstance(n.ast, ast.Assign) and norm(n.ast.value) in ("Undefined", "_current", "None"))]
        for w in ws:
            resets = [n for n in gc.live_nodes() for t in stores_in(n) if isinstance(t, ast.Attribute) and t.attr == "_current_task" and norm(t.value) == "self"]
            if any(gc.dominates(r, w) or gc.postdominates(r, w) for r in resets):
                ctx.ok(rule_g, g, w, "synchronous result supersedes pending evaluations (token reset on the same path)")
            else:
                ctx.fail(rule_g, g, w, "`%s` stores a synchronously computed result but leaves self._current_task pointing at a pending asynchronous evaluation: "
                                        "when that evaluation completes its guard still holds and the stale result overwrites the newer one" % w.text(),
                         key="%s::sync-store-keeps-token" % g.qualname,
                         input="rx pipe whose function returns a coroutine for input 1 and a plain value for input 2; update 1->2, then the coroutine completes -> stale result wins")

    # ------------------------------------------------------------- R10.c
    for g in ctx.repo.all_funcs("param.reactive"):
        if not g.is_async:
            continue
        gc = ctx.facts.cfg(g)
        writes = [n for n in gc.live_nodes() for t in stores_in(n) if isinstance(t, ast.Attribute) and t.attr in ("_current_", "_current_task") and norm(t.value) == "self"]
        if not any(isinstance(t, ast.Attribute) and t.attr == "_current_" for n in writes for t in stores_in(n)):
            continue
        regs = [n for n in gc.live_nodes() if n.kind == "stmt" and isinstance(n.ast, ast.Assign)
                and any(isinstance(t, ast.Attribute) and t.attr == "_current_task" for t in n.ast.targets)
                and isinstance(n.ast.value, ast.Call) and norm(n.ast.value.func).endswith("current_task")]
        tnames = {t.id for n in regs for t in n.ast.targets if isinstance(t, ast.Name)}
        gsusp = [n for n in gc.live_nodes() if n.suspend]
        if not regs or not all(any(gc.dominates(r, s) for r in regs) for s in gsusp):
            ctx.fail(rule_c, g, g.node, "the evaluation task is not registered in self._current_task before the first suspension point")
            continue
        for w in writes:
            after_susp = any(any(r is w for r in gc.reachable_from([s])) for s in gsusp)
            if not after_susp:
                ctx.ok(rule_c, g, w, "write precedes every suspension point")
                continue
            conds = gc.conditions(w)
            ok = any(tr is True and isinstance(e, ast.Compare) and isinstance(e.ops[0], ast.Is)
                     and {norm(e.left), norm(e.comparators[0])} >= {"self._current_task"} and ({norm(e.left), norm(e.comparators[0])} & tnames)
                     for e, tr in conds)
            if ok:
                ctx.ok(rule_c, g, w, "write after a suspension is guarded by `self._current_task is task`")
            else:
                ctx.fail(rule_c, g, w, "`%s` happens after a suspension point without the latest-wins guard `self._current_task is task`: "
                                        "a superseded evaluation overwrites the newer result (or wipes the newer evaluation's ownership token)" % w.text())


def results_applied_by_the_task(ctx, rule):
    """Parameters._async_ref applies each result of an asynchronous reference itself: every `.update(...)` of the namespace is a
    statement of the coroutine.  An application moved into a nested function handed to the event loop (call_soon, a
    callback, another task) is no longer stopped by cancelling the reference's task: an item produced before a newer
    assignment lands after it."""
    f = ctx.repo.func("param.parameterized.Parameters._async_ref")
    selfn = f.params[0]
    direct, nested = [], []

    def walk(node, depth):
        for ch in ast.iter_child_nodes(node):
            d = depth + (1 if isinstance(ch, (ast.FunctionDef, ast.AsyncFunctionDef, ast.Lambda)) else 0)
            if isinstance(ch, ast.Call) and isinstance(ch.func, ast.Attribute) and ch.func.attr in ("update", "_update") and norm(ch.func.value) == selfn:
                (nested if d else direct).append(ch)
            walk(ch, d)
    walk(f.node, 0)
    ctx.require(direct or nested, "Parameters._async_ref no longer applies results through update")
    if nested:
        ctx.fail(rule, f, nested[0], "`%s` inside a nested function of _async_ref: the result is applied outside the task that a newer assignment cancels (a callback handed to the loop runs "
                                     "although the task was cancelled in the meantime) -- an item of the superseded reference lands after the newer value" % norm(nested[0])[:60],
                 key=f.qualname + "::detached-application", input="async generator reference; a plain assignment in the same loop iteration in which the generator produced an item")
    else:
        ctx.ok(rule, f, direct[0], "every application of a result in _async_ref is a statement of the coroutine itself (%d site(s))" % len(direct))


def run(ctx):
    ctx.rule("R10.x", "context-manager model: _batch_call_watchers, batch_call_watchers, discard_events, _syncing and edit_constant interpreted abstractly with the body of the `with` supplied at the `yield` (62 cases: entry state x body ends normally / raises x nesting x queues replaced in the body x Parameter copies made in the body): flag, queues, syncing set and constant flags are, after the block, what they were before; the flush runs iff outermost, after the restore, also when the body raised", floor=1)
    ctx.rule("R10.r", "update-context exit: _ParametersRestorer.__exit__ interpreted abstractly (3 cases) assigns back every recorded previous value -- also one identical to the current value -- and every remembered reference in one update, and forgets the record, also when that update raises", floor=1)
    ctx.rule("R10.o", "asynchronous results are collected in input order, not in completion order: no function of param collects awaited results through asyncio.as_completed / asyncio.wait (rx.map over a coroutine returns its results in the order of the input whatever order the awaitables finish in)", floor=1)
    ctx.rule("R10.t", "trigger model: Parameters.trigger interpreted abstractly, also on an instance whose only reference is a dependency-free asynchronous one (refs / async_refs entries, no "
                      "source watchers): the re-announcing write-back runs inside a _syncing scope naming the triggered parameters, so it is not taken for an override that cancels the pending evaluation", floor=1)
    ctx.rule("R10.q", "executor order: param._utils.async_executor interpreted with a running loop for three back-to-back calls, then the callbacks it handed to the loop: every call becomes a "
                      "task exactly once and the tasks are created in call order (supersession assumes that what was scheduled later starts later)", floor=1)
    ctx.rule("R10.v", "rx value-setter model: `x.rx.value = v` assigns to the root's wrapper in every case -- also when v resolves to the very object the root holds: for a root driven by a "
                      "coroutine / async generator that assignment is what ends the reference and cancels the pending evaluation (shared with R09.v)", floor=1)
    ctx.rule("R10.u", "update model (shared with R02.u): Parameters._update hands EVERY given key to the setter, also a key given the very object the parameter holds -- the assignment is "
                      "what ends the link and cancels the pending asynchronous reference", floor=1)
    ctx.rule("R10.p", "relink model: Parameter._relink interpreted with the parameter currently linked to an object whose `==` is always truthy (a reactive expression) / to a plain reference, and "
                      "the new reference None / another reference / the same one: Parameters._update_ref(name, ref) is called exactly once in every case (it is what cancels what is pending)", floor=1)
    ctx.rule("R10.s", "sync model, asynchronous link: Parameters._sync_refs interpreted with a parameter that follows a coroutine function bound to S.a, an event for S.a arriving at an ordinary "
                      "moment / while the link's own previous result is being delivered / while another parameter is synced: exactly one new evaluation is scheduled, for the inputs as they are now", floor=1)
    ctx.rule("R10.a", "the body of every `with _syncing(...)` contains no suspension point (await / async for / async with / yield)", floor=3)
    ctx.rule("R10.b", "every .cancel() on an async_refs entry deregisters it (async_refs.pop(k).cancel()) or is followed, before the next suspension point, by async_refs[k] = <current task>", floor=2)
    ctx.rule("R10.d", "in _async_ref, on every path from the entry to a suspension point the entry async_refs[pname] is the current task "
                      "(assigned on that path, or the path condition says running_task is current_task)", floor=1)
    ctx.rule("R10.e", "supersession cancels: in _async_ref the registration of the current task on the path where another task owns the entry is dominated "
                      "by a cancel of that task which is not subject to any further condition", floor=1)
    ctx.rule("R10.f", "scheduling implies ownership: a task scheduled for a parameter is cancellable from the moment it is scheduled -- the scheduling site registers a handle "
                      "in async_refs, or _async_ref checks on entry (before registering itself) that the link that spawned it is still live", floor=1)
    ctx.rule("R10.g", "in reactive.py a synchronously computed result stored into self._current_ supersedes any pending asynchronous evaluation (the ownership token is reset)", floor=1)
    ctx.rule("R10.h", "an asynchronous reference is always evaluated: in _resolve_ref the scheduling of _async_ref depends on nothing but the reference being asynchronous", floor=1)
    ctx.rule("R10.i", "every reference handed to the constructor is recorded in refs (otherwise a later plain assignment neither ends the link nor cancels the pending task)", floor=1)
    ctx.rule("R10.c", "in reactive.py every write of self._current_ after a suspension point is guarded by `self._current_task is task`, and the task is registered before the first suspension", floor=2)
    ctx.rule("R10.m", "setter model: Parameter.__set__ interpreted abstractly on every combination (576) of route x constant/readonly x validation outcome x identity x reference mode x watchers x batching: "
                      "a plain value overriding an existing link ends it (relink(None) is what cancels the pending task), except for the sync's own write", floor=1)
    ctx.rule("R10.l", "link model: Parameters._update_ref with _setup_refs interpreted abstractly (parameter x/y/new x None / reference on a new source / on an already watched source / asynchronous reference x pending tasks, 48 cases): every old source watcher unwatched once on its own object, the pending task of that parameter cancelled and deregistered (others untouched), refs replaced/removed, exactly one recorded watcher per source of the new table watching exactly its dependency names", floor=1)
    ctx.rule("R10.k", "constructor model: Parameters._setup_params (with _instantiate_param) interpreted abstractly on 288 combinations of keywords x reference modes (plain value / reference with a value / reference without a value yet / asynchronous reference) x an unknown keyword: own copy of every instantiate=True default and pinned constants before any keyword is applied (and still there when a keyword assigns nothing), exactly the specified assignments, every reference and only references recorded", floor=1)
    ctx.rule("R10.n", "rx cache model (shared with R09.i): under every short history of reads, input/argument updates and events of a node's own Trigger (a superseded asynchronous evaluation "
                      "reporting in), a read gives the result for the CURRENT inputs: an own-trigger event neither invalidates nor validates the node", floor=1)
    ctx.rule("R10.y", "async model: Parameters._async_ref interpreted abstractly with the suspension supplied at the `await` (initialized x no / this / an older task registered x the awaitable "
                      "completes / raises Skip / is cancelled by a plain assignment / by a newer reference, 24 cases): the task owns the entry before it suspends, an older task is cancelled, a result is "
                      "applied only when nothing superseded it, the newer task's registration is left alone, the own registration is removed on every way out", floor=1)
    ctx.rule("R10.j", "the scope that marks the sync's own writes replaces the syncing set by a fresh one and restores the saved one: it never mutates in place the set object it saved "
                      "(otherwise the marker outlives the scope and every later plain assignment looks like a sync write that must not cancel)", floor=1)
    ctx.not_decided += ["the asyncio scheduler's cancellation semantics (trusted: Task.cancel() raises at the await, so no later write happens)",
                        "the final value under every schedule (follows from R10.a-d; each violated obligation yields a concrete bad schedule)"]

    # ------------------------------------------------------------- R10.a
    for f in ctx.repo.all_funcs("param"):
        for st in walk_stmts(f.node):
            if isinstance(st, (ast.With, ast.AsyncWith)) and is_syncing_with(st):
                susp = [s for b in st.body for s in walk_no_nested(b) if isinstance(s, SUSPEND)]
                if susp:
                    ctx.fail("R10.a", f, st,
                             "`%s` evaluates `%s` inside the syncing scope: while the coroutine is suspended the name stays marked as syncing, "
                             "so a plain value assigned meanwhile neither drops the link nor cancels the task, and the stale result overwrites it" % (
                                 norm(st.items[0].context_expr), norm(susp[0])[:60]),
                             key="%s::suspension-in-syncing::%s" % (f.qualname, norm(susp[0])[:60]),
                             input="assign a coroutine reference, let it suspend, assign 'plain', complete the future -> parameter ends as the stale async result")
                else:
                    ctx.ok("R10.a", f, st, "no suspension point inside the scope")

    # ------------------------------------------------------------- R10.b
    for f in ctx.repo.all_funcs("param.parameterized"):
        if not any(isinstance(c, ast.Call) and isinstance(c.func, ast.Attribute) and c.func.attr == "cancel" for c in ast.walk(f.node)):
            continue
        aliases = ctx.facts.local_aliases(f)
        cfg = ctx.facts.cfg(f)
        for n in cfg.live_nodes():
            for c in calls_in(n):
                if not (isinstance(c.func, ast.Attribute) and c.func.attr == "cancel"):
                    continue
                recv = c.func.value
                if isinstance(recv, ast.Call) and isinstance(recv.func, ast.Attribute) and recv.func.attr == "pop" and async_refs_expr(ctx, recv.func.value, aliases):
                    ctx.ok("R10.b", f, n, "cancel of a popped (deregistered) entry")
                    continue
                if isinstance(recv, ast.Subscript) and async_refs_expr(ctx, recv.value, aliases) or \
                        (isinstance(recv, ast.Call) and isinstance(recv.func, ast.Attribute) and recv.func.attr == "get" and async_refs_expr(ctx, recv.func.value, aliases)) or \
                        (isinstance(recv, ast.Name) and any(isinstance(d, ast.Assign) and any(isinstance(t, ast.Name) and t.id == recv.id for t in d.targets)
                                                            and any(async_refs_expr(ctx, x, aliases) for x in ast.walk(d.value) if isinstance(x, (ast.Attribute, ast.Name)))
                                                            for d in ast.walk(f.node))):
                    def is_reg(m):
                        return any(isinstance(t, ast.Subscript) and store_field(ctx.facts, t, aliases) == "private.async_refs"
                                   and not isinstance(m.ast, ast.Delete) for t in stores_in(m))
                    reach = cfg.reachable_from([n], stop=is_reg, labels={"n", "t", "f"})
                    bad = [m for m in reach if not is_reg(m) and (m.suspend or m is cfg.exit)]
                    if not bad:
                        ctx.ok("R10.b", f, n, "cancel is followed by re-registration before any suspension")
                    else:
                        p = cfg.path(n, bad[0]) or [n, bad[0]]
                        ctx.fail("R10.b", f, n,
                                 "`%s` cancels the previous owner but leaves ITS entry in async_refs and reaches `%s` without registering the current task: "
                                 "the new task can never be cancelled by a later assignment" % (n.text(), bad[0].text()[:60]),
                                 witness=cfg.witness(p),
                                 input="bind(fetch, s.param.k); change k three times; complete newest-first -> a superseded result is applied last")

    # ------------------------------------------------------------- R10.d
    f = ctx.repo.func(ASYNC_REF)
    cfg = ctx.facts.cfg(f)
    aliases = ctx.facts.local_aliases(f)
    cur = [n for n in cfg.live_nodes() if n.kind == "stmt" and isinstance(n.ast, ast.Assign) and isinstance(n.ast.value, ast.Call)
           and norm(n.ast.value.func).endswith("current_task")]
    ctx.require(cur, "_async_ref no longer obtains asyncio.current_task(): anchor of R10.d vanished")
    cur_names = {t.id for n in cur for t in n.ast.targets if isinstance(t, ast.Name)}
    run_names = {t.id for n in cfg.live_nodes() if n.kind == "stmt" and isinstance(n.ast, ast.Assign)
                 and any(async_refs_expr(ctx, s, aliases) for s in ast.walk(n.ast.value) if isinstance(s, (ast.Attribute, ast.Name)))
                 for t in n.ast.targets if isinstance(t, ast.Name)}

    def establishes(m):
        for t in stores_in(m):
            if isinstance(t, ast.Subscript) and store_field(ctx.facts, t, aliases) == "private.async_refs" and isinstance(m.ast, ast.Assign) \
                    and isinstance(m.ast.value, ast.Name) and m.ast.value.id in cur_names:
                return True
        if m.kind == "br":
            for e, tr in decompose(m.ast, m.polarity):
                if tr is True and isinstance(e, ast.Compare) and isinstance(e.ops[0], ast.Is):
                    names = {norm(e.left), norm(e.comparators[0])}
                    if names & cur_names and names & run_names:
                        return True
        return False
    susp = [n for n in cfg.live_nodes() if n.suspend]
    ctx.require(susp, "_async_ref has no suspension point")
    reach = cfg.reachable_from([cfg.entry], stop=establishes, labels={"n", "t", "f"})
    bad = [s for s in susp if any(r is s for r in reach) and not establishes(s)]
    if not bad:
        ctx.ok("R10.d", f, susp[0], "every path to a suspension point (%d) registers the current task or proves it is already the owner" % len(susp))
    else:
        p = cfg.path(cfg.entry, bad[0], avoid=establishes) or [cfg.entry, bad[0]]
        ctx.fail("R10.d", f, bad[0],
                 "a path reaches the suspension point `%s` without async_refs[pname] being the current task" % bad[0].text()[:70],
                 witness=cfg.witness(p), key="%s::unowned-suspension" % f.qualname)

    # ------------------------------------------------------------- R10.e
    regs = [n for n in cfg.live_nodes() if establishes(n) and n.kind == "stmt"]
    sup_regs = [n for n in regs if any(tr is False and isinstance(e, ast.Compare) and isinstance(e.ops[0], ast.Is) and norm(e.comparators[0]) == "None"
                                       and norm(e.left) in run_names for e, tr in cfg.conditions(n))]
    if not sup_regs:
        ctx.fail("R10.e", f, f.node, "_async_ref has no path that takes over the entry from a task that is still registered", key=f.qualname + "::no-takeover")
    for rg in sup_regs:
        rc_ = {(norm(e), t) for e, t in cfg.conditions(rg)}
        cancels = [n for n in cfg.live_nodes() if cfg.dominates(n, rg) and any(isinstance(c.func, ast.Attribute) and c.func.attr == "cancel" for c in calls_in(n))]
        uncond = [c for c in cancels if {(norm(e), t) for e, t in cfg.conditions(c)} <= rc_]
        if uncond:
            ctx.ok("R10.e", f, rg, "taking over the entry is preceded by an unconditional cancel of the previous owner")
        elif cancels:
            extra = {(norm(e), t) for e, t in cfg.conditions(cancels[0])} - rc_
            ctx.fail("R10.e", f, cancels[0], "the previous owner is cancelled only when %s: a superseded task that is still pending keeps running and applies its stale result later" % (
                " and ".join("%s is %s" % x for x in sorted(extra))), key=f.qualname + "::conditional-cancel",
                input="two async assignments in one loop tick; the older awaitable completes last -> the parameter ends with the older result")
        else:
            ctx.fail("R10.e", f, rg, "the current task registers itself over a still-registered task without cancelling it", key=f.qualname + "::takeover-without-cancel")

    # ------------------------------------------------------------- R10.f
    sched = []
    for g in ctx.repo.all_funcs("param.parameterized"):
        for c in ast.walk(g.node):
            if isinstance(c, ast.Call) and norm(c.func) == "async_executor" and c.args and "_async_ref" in norm(c.args[0]):
                sched.append((g, c))
    ctx.require(sched, "no scheduling site of _async_ref found")
    first_reg = [n for n in cfg.live_nodes() if n.kind == "stmt" and establishes(n)]
    live_checks = []
    for n in cfg.live_nodes():
        if n.kind == "br" and first_reg and all(cfg.dominates(n, r) or True for r in first_reg):
            reads = [a for a in ast.walk(n.ast) if isinstance(a, (ast.Attribute, ast.Name)) and ctx.facts.field_of(a, aliases) == "private.refs"]
            if reads and any(any(x is r for x in cfg.reachable_from([n])) for r in first_reg):
                live_checks.append(n)
    site_regs = 0
    for g, c in sched:
        ga = ctx.facts.local_aliases(g)
        if any(isinstance(t, ast.Subscript) and store_field(ctx.facts, t, ga) == "private.async_refs" for st in ast.walk(g.node)
               if isinstance(st, ast.Assign) for t in st.targets) and g.qualname != ASYNC_REF:
            site_regs += 1
    outside = [x for x in sched if x[0].qualname != ASYNC_REF]
    if live_checks or (outside and site_regs == len(outside)):
        ctx.ok("R10.f", f, (live_checks or first_reg)[0], "a scheduled task is cancellable before it starts (%s)" % ("entry liveness check" if live_checks else "registered at the scheduling site"))
    else:
        g, c = outside[0] if outside else sched[0]
        ctx.fail("R10.f", f, f.node,
                 "tasks are scheduled (%d site(s), e.g. %s) without a handle in async_refs, and _async_ref registers itself only when it starts running without checking "
                 "that its link is still live: a plain value assigned before the task's first step cannot cancel it, and its result is applied afterwards" % (len(sched), g.qualname),
                 key=ASYNC_REF + "::unowned-until-started",
                 input="p.x = coro_fn; p.x = 'plain' (same loop tick); let the loop run -> p.x ends as the coroutine's result")

    # ------------------------------------------------------------- R10.h
    rr = ctx.repo.func("param.parameterized.Parameters._resolve_ref")
    rcfg = ctx.facts.cfg(rr)
    sch = [n for n in rcfg.live_nodes() for c in calls_in(n) if norm(c.func) == "async_executor"]
    ctx.require(sch, "_resolve_ref no longer schedules asynchronous references")
    for n in sch:
        extra = [(norm(e), t) for e, t in rcfg.conditions(n) if norm(e) not in ("is_async", "deps or is_async or is_gen", "not (deps or is_async or is_gen)")
                 and not (norm(e) in ("deps", "is_gen") )]
        if extra:
            ctx.fail("R10.h", rr, n, "the evaluation of an asynchronous reference is started only when %s, while the relink that follows still cancels the running one: "
                                     "after all awaitables completed the parameter holds no result of the latest assignment" % " and ".join("%s is %s" % x for x in extra),
                     key=rr.qualname + "::conditional-scheduling", input="assign the same coroutine function again while its evaluation is pending")
        else:
            ctx.ok("R10.h", rr, n, "scheduled whenever the reference is asynchronous")

    from checks.shared import ctor_records_every_ref
    ctor_records_every_ref(ctx, "R10.i")

    rx_latest_wins(ctx, "R10.g", "R10.c")
    ctx.rule("R10.w", "results are applied by the task that can be cancelled: in Parameters._async_ref every `.update(...)` of the namespace is a statement of the coroutine itself, none sits in a "
                      "nested function (a callback handed to the event loop escapes the cancellation of a superseded reference)", floor=1)
    results_applied_by_the_task(ctx, "R10.w")
    ctx.rule("R10.z", "cancellation stops a superseded reference: no async function of param catches CancelledError / BaseException / everything and carries on (the handler ends with raise, return "
                      "or break)", floor=1)
    cancellation_is_not_swallowed(ctx, "R10.z")
    ctx.rule("R10.b2", "each evaluation of a bound coroutine function awaits the coroutine it created: the async wrapper(s) of reactive.bind start no task of their own (ensure_future / create_task "
                       "/ shield / gather) that evaluations could share", floor=1)
    bound_coroutine_awaits_its_own_evaluation(ctx, "R10.b2")
    ctx.rule("R10.d2", "dependency model (shared with R09.m): an expression that joins two coroutine-driven branches depends on the internal trigger of BOTH (the one in its chain and the one of the "
                       "branch passed as an argument): whichever completes last marks it dirty", floor=1)
    from checks.rx_model import dependency_model
    dependency_model(ctx, "R10.d2")

    # ------------------------------------------------------------- R10.j
    from checks.shared import syncing_set_replaced
    syncing_set_replaced(ctx, "R10.j")

    # model-level rule, run last
    from checks.shared import restorer_model
    restorer_model(ctx, "R10.r")
    n_async = 0
    bad_o = None
    for g in ctx.repo.all_funcs("param"):
        if g.parent is not None:
            continue          # nested functions are walked with their parent (two nested defs may share one name)
        n_async += sum(1 for x in ast.walk(g.node) if isinstance(x, ast.AsyncFunctionDef))
        for c in ast.walk(g.node):
            if isinstance(c, ast.Call) and norm(c.func) in ("asyncio.as_completed", "as_completed", "asyncio.wait"):
                bad_o = bad_o or (g, c)
    if bad_o:
        ctx.fail("R10.o", bad_o[0], bad_o[1], "`%s` yields the awaitables in the order they finish: the collected results are ordered by completion, not by input" % norm(bad_o[1])[:60],
                 key="%s::completion-order" % bad_o[0].qualname, input="rx([1, 2, 3]).rx.map(slow_then_fast_coroutine) -> results permuted")
    else:
        ctx.ok("R10.o", "param.reactive.reactive_ops.map", None, "%d coroutine functions in param: none collects results in completion order" % n_async)
    from checks import async_model
    async_model.report(ctx, "R10.y")
    from checks import rx_model
    rx_model.report(ctx, "R10.n")
    from checks.shared import sync_refs_async
    sync_refs_async(ctx, "R10.s")
    from checks import trigger_model
    trigger_model.report(ctx, "C10", "R10.t")
    rx_model.value_setter_model(ctx, "R10.v")
    from checks import link_model
    link_model.relink_model(ctx, "R10.p")
    from checks import async_model
    async_model.executor_order_model(ctx, "R10.q")
    from checks import setter_model
    setter_model.report(ctx, "C10", "R10.m")
    from checks import cm_model
    cm_model.report(ctx, "C10", "R10.x")
    from checks import ctor_model
    ctor_model.report(ctx, "C10", "R10.k")
    from checks import link_model
    link_model.report(ctx, "C10", "R10.l")
    from checks import update_model
    update_model.report(ctx, "C10", "R10.u")


_CANCEL_EXAMPLE = '''
async def consume(gen):
    try:
        value = await step
    except asyncio.CancelledError:
        value = await step
        gen.close()
    yield value
'''


def _swallowing_handlers(fnode):
    """except-handlers of an async function that catch task cancellation (CancelledError, BaseException, a bare except) and do
    not end by leaving (raise / return / break): execution falls through to the code after the try."""
    out = []
    for h in ast.walk(fnode):
        if not isinstance(h, ast.ExceptHandler):
            continue
        names = [] if h.type is None else [norm(x) for x in (h.type.elts if isinstance(h.type, ast.Tuple) else [h.type])]
        catches = h.type is None or any(n.rsplit(".", 1)[-1] in ("CancelledError", "BaseException") for n in names)
        if catches and not (h.body and isinstance(h.body[-1], (ast.Raise, ast.Return, ast.Break))):
            out.append(h)
    return out


def cancellation_is_not_swallowed(ctx, rule):
    """`task.cancel()` is the only thing that stops a superseded asynchronous reference.  No coroutine / async generator of
    param may catch the cancellation and carry on: a handler for CancelledError (or BaseException / bare except) in an async
    function ends with raise, return or break.  (Zero instances on the pinned tree; the matcher is exercised on an embedded
    example on every run.)"""
    ex = ast.parse(_CANCEL_EXAMPLE).body[0]
    if len(_swallowing_handlers(ex)) != 1:
        raise AnalysisError("%s: the matcher no longer recognises the embedded example of a swallowed cancellation" % rule)
    n, bad = 0, []
    for f in ctx.repo.all_funcs("param"):
        if not f.is_async:
            continue
        n += 1
        for h in _swallowing_handlers(f.node):
            bad.append((f, h))
    ctx.require(n >= 5, "fewer than 5 async functions found in param (%d)" % n)
    if bad:
        f, h = bad[0]
        ctx.fail(rule, f, h, "%s catches the cancellation of its task (`except %s`) and carries on: a superseded reference that was cancelled while a step was in flight delivers one more item "
                             "after the newer assignment" % (f.qualname.rsplit(".", 1)[-1], norm(h.type) if h.type is not None else ""), key="%s::swallows-cancellation" % f.qualname,
                 input="a sync-generator reference superseded while next() runs in the worker thread: history ['first', 'plain', 'stale']")
    else:
        ctx.ok(rule, ctx.repo.func("param._utils._to_async_gen"), None, "none of the %d async functions of param catches task cancellation without leaving (matcher checked on an embedded example)" % n)


def bound_coroutine_awaits_its_own_evaluation(ctx, rule):
    """reactive.bind, coroutine branch: each evaluation of a bound coroutine function awaits the coroutine it has just created.
    An evaluation that awaits a task SHARED with another evaluation (a table of in-flight tasks, asyncio.ensure_future /
    create_task inside the wrapper) is cancelled together with it: cancelling the superseded evaluation kills the newest
    one, whose result is then never applied."""
    f = ctx.repo.func("param.reactive.bind")
    nested = [n for n in ast.walk(f.node) if isinstance(n, ast.AsyncFunctionDef)]
    ctx.require(nested, "bind no longer defines an async wrapper for coroutine functions")
    bad = []
    for n in nested:
        for c in ast.walk(n):
            if isinstance(c, ast.Call) and norm(c.func).rsplit(".", 1)[-1] in ("ensure_future", "create_task", "shield", "gather", "wait"):
                bad.append((n, c))
    if bad:
        n, c = bad[0]
        ctx.fail(rule, f, c, "the coroutine wrapper of bind (`%s`) hands its evaluation to a task of its own (`%s`): evaluations that share such a task are cancelled together -- when the superseded "
                             "evaluation of a reference is cancelled, the newest one with the same arguments dies with it and the latest assignment's result is never applied" % (n.name, norm(c)[:60]),
                 key=f.qualname + "::shared-evaluation-task", input="t.v = bind(async_fn, s.param.x); t.v = <the same reference again> while the first evaluation is suspended -> t.v keeps its old value")
    else:
        ctx.ok(rule, f, nested[0], "the coroutine wrapper(s) of bind await the coroutine they create themselves (%d wrapper(s))" % len(nested))
