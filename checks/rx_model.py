"""rx cache model (C09): the lazy re-evaluation of a three-node expression
interpreted abstractly under every short history of input updates and reads.

Objects: a root node (wrapping the input through its bound function), a middle
node (operation op1 on the root) and a leaf (operation op2 on the middle
node), built with the field values rx.__init__ gives them.  The code that is
interpreted is the real rx._resolve, the rx._obj property, rx._invalidate_current
and rx._invalidate_obj; the operations themselves are abstract (op(x) is a
fresh abstract object per input, op1(<bad input>) raises).

An input update sets the input and calls, for every node, the two invalidation
callbacks with an event coming from the input's owner -- that every node has
them registered on every input is what R09.e decides.

Specification (the property): after any history, reading the leaf returns
op2(op1(<current input>, <current argument>)), or raises when the current input is the bad one --
and returns the right value again as soon as the input is valid.
"""
from __future__ import annotations

import itertools

from engine.absint import TOP, Interp, Obj, PyFunc, Unsupported, _Raise
from engine.loader import AnalysisError

RX = "param.reactive.rx"


class World:
    def __init__(self, ctx):
        self.ctx = ctx
        self.A, self.B, self.BAD = Obj("input_A"), Obj("input_B"), Obj("bad_input")
        self.cur = self.A
        # a second input that reaches the expression as an ARGUMENT of operation 1 (another parameter / rx):
        # its updates are announced through _invalidate_current only
        self.P, self.Q, self.BADARG = Obj("arg_P"), Obj("arg_Q"), Obj("bad_arg")
        self.arg = self.P
        self.arg_owner = Obj("argument_owner")
        self.memo = {}
        self.wrapper = Obj("input_owner")
        fn = Obj("root_function")
        shared = [self.A]
        # the operations are the dicts rx builds: a function, its arguments (here: a container that holds a
        # reference to the second input -- resolve_value looks inside it, a non-recursive resolve_ref does not)
        self.argref = Obj("container_holding_a_reference_to_the_argument")
        self.op1 = {"fn": PyFunc("op1", self.apply_op1), "args": (self.argref,), "kwargs": {}, "reverse": False}
        self.op2 = {"fn": PyFunc("op2", self.apply_op2), "args": (), "kwargs": {}, "reverse": False}

        def node(name, prev, op):
            return Obj(name, __cls__=RX, _prev=prev, _operation=op, _method=None, _fn=fn, _shared_obj=shared, _trigger=None, _current_task=None,
                       _dirty=True, _dirty_obj=False, _error_state=None, _current_=None)
        self.root = node("root", None, None)
        self.mid = node("mid", self.root, self.op1)
        # the middle node owns a Trigger (as nodes with a coroutine operation do): its own events must be ignored
        self.mid_trigger = Obj("trigger_of_mid")
        self.mid.attrs["_trigger"] = self.mid_trigger
        self.leaf = node("leaf", self.mid, self.op2)
        for nd in (self.root, self.mid, self.leaf):
            nd.attrs["_root"] = self.root
        self.evals = 0

    def result(self, opname, x, arg=None):
        k = (opname, id(x), id(arg))
        if k not in self.memo:
            self.memo[k] = Obj("%s(%s%s)" % (opname, x.name, ", " + arg.name if arg is not None else ""))
        return self.memo[k]

    def apply_op1(self, obj, argval):
        self.evals += 1
        if obj is TOP or argval is TOP:
            raise Unsupported("op1 applied to an unknown value")
        if not isinstance(obj, Obj):
            obj = self.memo.setdefault(("junk", repr(obj)), Obj("<%r>" % (obj,)))     # e.g. a node that was never evaluated hands on None
        if not isinstance(argval, Obj):
            argval = self.memo.setdefault(("junk", repr(argval)), Obj("<%r>" % (argval,)))
        if obj is self.BAD or argval is self.BADARG:
            raise _Raise("ValueError")
        return self.result("op1", obj, argval)

    def apply_op2(self, obj):
        self.evals += 1
        if obj is TOP:
            raise Unsupported("op2 applied to an unknown value")
        if not isinstance(obj, Obj):
            obj = self.memo.setdefault(("junk", repr(obj)), Obj("<%r>" % (obj,)))
        return self.result("op2", obj)

    def hook(self, fn, args, kwargs):
        if fn == "eval_function_with_deps":
            return self.cur
        if fn == "resolve_value" and args:
            if args[0] is self.argref:
                return self.arg                      # looks inside the container
            return args[0]
        if fn == "resolve_ref" and args:
            if args[0] is self.argref:
                return [Obj("dependency_on_the_argument")] if kwargs.get("recursive") or (len(args) > 1 and args[1] is True) else []
            return []
        if fn == "isinstance" and len(args) == 2:
            return isinstance(args[0], str)
        if fn in ("inspect.isasyncgen", "inspect.iscoroutine", "inspect.isgenerator"):
            return False
        if fn == "hasattr" and len(args) == 2:
            return isinstance(args[0], Obj) and args[1] in args[0].attrs
        if fn == "all" or fn == "any":
            return NotImplemented
        return NotImplemented

    def call(self, node, method, args):
        f = self.ctx.hier.resolve(RX, method)
        if f is None:
            raise AnalysisError("rx model: rx.%s not found" % method)
        it = Interp(self.ctx.hier, dyn=RX, inline=lambda m: True, call_hook=self.hook,
                    globals={"Skip": "<Skip>", "Undefined": Obj("Undefined")}, strict_self_calls=True, max_steps=4000, inline_module_functions=True)
        env = {f.params[0]: node}
        a = f.node.args
        if a.vararg:
            env[a.vararg.arg] = tuple(args)
        outs = it.run_all(f, env)
        if len(outs) != 1 or outs[0].imprecise:
            raise AnalysisError("rx model: rx.%s is not interpretable precisely (%s)" % (method, outs[0].notes[:2] if outs else "no outcome"))
        return outs[0]

    def update(self, v):
        self.cur = v
        ev = Obj("event", obj=self.wrapper, name="object")
        for nd in (self.root, self.mid, self.leaf):
            self.call(nd, "_invalidate_obj", [ev])
            self.call(nd, "_invalidate_current", [ev])

    def update_arg(self, v):
        self.arg = v
        ev = Obj("event", obj=self.arg_owner, name="value")
        for nd in (self.mid, self.leaf):          # the nodes whose dependency list contains the argument
            self.call(nd, "_invalidate_current", [ev])

    def own_trigger_event(self):
        """The Trigger of the middle node fires (e.g. a superseded asynchronous evaluation reporting in):
        the node itself ignores it, the nodes downstream are invalidated."""
        ev = Obj("event", obj=self.mid_trigger, name="value")
        for nd in (self.mid, self.leaf):
            self.call(nd, "_invalidate_current", [ev])

    def read(self, node):
        return self.call(node, "_resolve", [])


def model(ctx, depth):
    ops = ["read leaf", "read mid", "set A", "set B", "set bad", "set arg P", "set arg Q", "set arg bad", "own trigger of mid fires"]
    n, bad = 0, []
    for L in range(0, depth + 1):
        for hist in itertools.product(ops, repeat=L):
            # histories that only read are covered by their prefixes; require the final read
            w = World(ctx)
            trace = []
            try:
                for op in list(hist) + ["read leaf"]:
                    if op.startswith("own trigger"):
                        w.own_trigger_event()
                        trace.append(op)
                        continue
                    if op.startswith("set arg"):
                        w.update_arg({"P": w.P, "Q": w.Q, "bad": w.BADARG}[op.split()[2]])
                        trace.append(op)
                        continue
                    if op.startswith("set"):
                        w.update({"A": w.A, "B": w.B, "bad": w.BAD}[op.split()[1]])
                        trace.append(op)
                        continue
                    node = w.leaf if op == "read leaf" else w.mid
                    o = w.read(node)
                    if w.cur is w.BAD or w.arg is w.BADARG:
                        ok = o.kind == "raise"
                        want = "raises"
                    else:
                        r1 = w.result("op1", w.cur, w.arg)
                        want_v = w.result("op2", r1) if node is w.leaf else r1
                        ok = o.kind == "return" and o.value is want_v
                        want = want_v.name
                    got = ("raises %s" % getattr(o, "what", "")) if o.kind == "raise" else repr(o.value)
                    trace.append("%s -> %s" % (op, got))
                    if not ok:
                        bad.append((list(trace), want))
                        break
            except Unsupported as e:
                raise AnalysisError("rx model: absint cannot interpret the rx cache functions: %s" % e)
            n += 1
            if len(bad) >= 5:
                return n, bad
    return n, bad


def report(ctx, rule):
    depth = 3 if ctx.tier == "quick" else 4
    n, bad = model(ctx, depth)
    f = ctx.repo.method(RX, "_resolve")
    ctx.abstract_cases += n
    if not bad:
        ctx.ok(rule, f, f.node, "rx cache model: %d histories (up to %d steps of read leaf / read middle / set input A, B, bad, then a read): every read gives op2(op1(current input)) or raises for the bad input and recovers" % (n, depth))
    else:
        tr, want = bad[0]
        ctx.fail(rule, f, f.node, "rx cache model: after the history [%s] the read should give %s: the expression does not evaluate to the plain result on the current input" % (
            "; ".join(tr), want), key=f.qualname + "::rx-cache-model", input=" ; ".join(tr))


def dependency_model(ctx, rule):
    """rx._compute_params interpreted abstractly: the parameters an expression node is invalidated by are those of the
    nodes before it plus those of its operation's function, positional arguments AND keyword arguments."""
    f = ctx.hier.resolve(RX, "_compute_params")
    plain_owner = Obj("an_ordinary_parameterized_object", internal=False)
    dr, da, dk, dfn = (Obj("param_of_the_root", owner=plain_owner), Obj("param_in_a_positional_argument", owner=plain_owner), Obj("param_in_a_keyword_argument", owner=plain_owner),
                       Obj("param_of_the_function", owner=plain_owner))
    A1, K1, F = Obj("positional_argument"), Obj("keyword_argument"), Obj("operation_function")
    root = Obj("root_node", __cls__=RX, _params=[dr], _prev=None)
    node = Obj("node", __cls__=RX, _fn_params=[], _trigger=None, _prev=root, _operation={"fn": F, "args": (A1,), "kwargs": {"scale": K1}, "reverse": False})

    def hook(fn, args, kwargs):
        if fn == "resolve_ref" and args:
            return {id(A1): [da], id(K1): [dk], id(F): [dfn]}.get(id(args[0]), [])
        if fn == "isinstance" and len(args) == 2 and args[1] == "Trigger":
            return isinstance(args[0], Obj) and args[0].attrs.get("__kind__") == "Trigger"
        return NotImplemented
    it = Interp(ctx.hier, dyn=RX, inline=lambda m: True, call_hook=hook, strict_self_calls=True, globals={"Trigger": "Trigger"})
    try:
        outs = it.run_all(f, {f.params[0]: node})
    except Unsupported as e:
        raise AnalysisError("absint cannot interpret rx._compute_params: %s -- %s cannot decide" % (e, rule))
    ctx.abstract_cases += 1
    if len(outs) != 1 or outs[0].imprecise or outs[0].kind != "return" or not isinstance(outs[0].value, list):
        raise AnalysisError("absint imprecise on rx._compute_params -- %s cannot decide" % rule)
    got = outs[0].value
    missing = [w.name for w in (dr, da, dk, dfn) if not any(x is w for x in got)]
    # second scenario: the chain AND the positional argument are each driven by a coroutine stage, i.e. by the `value`
    # parameter of an internal Trigger each (`total = a.rx.pipe(f) + b.rx.pipe(g)`): both triggers are dependencies
    if not missing:
        trig_chain = Obj("internal_trigger_of_the_chain", internal=True, __kind__="Trigger")
        trig_arg = Obj("internal_trigger_of_the_argument_branch", internal=True, __kind__="Trigger")
        tr = Obj("trigger_param_of_the_chain", owner=trig_chain, name="value")
        ta = Obj("trigger_param_of_the_argument_branch", owner=trig_arg, name="value")
        root2 = Obj("root_node", __cls__=RX, _params=[tr], _prev=None)
        node2 = Obj("node", __cls__=RX, _fn_params=[], _trigger=None, _prev=root2, _operation={"fn": F, "args": (A1,), "kwargs": {}, "reverse": False})

        def hook2(fn, args, kwargs):
            if fn == "resolve_ref" and args:
                return {id(A1): [ta]}.get(id(args[0]), [])
            if fn == "isinstance" and len(args) == 2:
                return isinstance(args[0], Obj) and args[0].attrs.get("__kind__") == "Trigger"
            return NotImplemented
        it2 = Interp(ctx.hier, dyn=RX, inline=lambda m: True, call_hook=hook2, strict_self_calls=True, globals={"Trigger": "Trigger"})
        try:
            outs2 = it2.run_all(f, {f.params[0]: node2})
        except Unsupported as e:
            raise AnalysisError("absint cannot interpret rx._compute_params: %s -- %s cannot decide" % (e, rule))
        ctx.abstract_cases += 1
        if len(outs2) != 1 or outs2[0].imprecise or outs2[0].kind != "return" or not isinstance(outs2[0].value, list):
            raise AnalysisError("absint imprecise on rx._compute_params (two coroutine branches) -- %s cannot decide" % rule)
        missing = [w.name + " (the completion of the coroutine of the ARGUMENT branch then never marks the joined expression dirty: it keeps a stale value or Undefined for ever)"
                   for w in (tr, ta) if not any(x is w for x in outs2[0].value)]
    if missing:
        ctx.fail(rule, f, f.node, "rx._compute_params of a node with operation f(prev, <positional>, scale=<keyword>) does not list %s: no invalidation watcher is installed for it, "
                                  "so after a first read an update of that input leaves the expression at its cached value and .rx.watch callbacks never fire" % ", ".join(missing),
                 key=f.qualname + "::dependency-model", input="x.rx.pipe(f, scale=p.param.scale); read; p.scale = 3; read -> stale")
    else:
        ctx.ok(rule, f, f.node, "the dependency list holds the parameters of the previous nodes, of the function, of the positional and of the keyword arguments")


def value_setter_model(ctx, rule):
    """reactive_ops.value (setter) interpreted abstractly on a root expression: what ends up in the wrapper is the
    RESOLVED value -- for a container that is a rebuilt, private container (resolve_value rebuilds lists, tuples and
    dicts), never the caller's own object: a caller that extends its list and assigns it again must be noticed
    (the change test compares the stored object with the new one)."""
    f = ctx.hier.property_setter("param.reactive.reactive_ops", "value")
    if f is None:
        raise AnalysisError("rx value-setter model: the setter of reactive_ops.value was not found")
    problems, n = [], 0
    from checks.setter_model import RecDict
    for has_refs in (False, True, "same-object"):
        given = Obj("callers_container")
        rebuilt = Obj("rebuilt_private_container")
        wrapper = Obj("wrapper", object=Obj("previous_object"))
        if has_refs == "same-object":
            # the value assigned resolves to the very object the root holds (pinning the current value of an asynchronous root):
            # the assignment is still what ends the reference and cancels the pending evaluation
            wrapper.attrs["object"] = rebuilt
        wrapper.attrs = RecDict(wrapper.attrs)
        root = Obj("root_rx", _wrapper=wrapper)
        root.attrs["_root"] = root
        me = Obj("ops", _reactive=root)

        def hook(fn, args, kwargs):
            if fn == "isinstance" and len(args) == 2:
                return args[1] in ("rx", "<rx>") or (isinstance(args[1], str) and args[1].endswith("rx"))
            if fn == "resolve_value":
                return rebuilt if args and args[0] is given else Obj("resolved_something_else")
            if fn == "resolve_ref":
                return [Obj("dependency")] if has_refs is True else []
            return NotImplemented
        it = Interp(ctx.hier, call_hook=hook, globals={"Parameter": "Parameter", "rx": "rx"})
        try:
            outs = it.run_all(f, {f.params[0]: me, f.params[1]: given})
        except Unsupported as e:
            raise AnalysisError("rx value-setter model: absint cannot interpret the setter: %s" % e)
        if len(outs) != 1 or outs[0].imprecise:
            raise AnalysisError("rx value-setter model: the setter is not interpretable precisely (%s)" % (outs[0].notes[:2] if outs else "no outcome"))
        n += 1
        desc = "x.rx.value = <a container %s>" % ("holding a reference" if has_refs is True else "of plain values" if not has_refs else "that resolves to the object the root already holds")
        if outs[0].kind == "return" and "object" not in wrapper.attrs.written:
            problems.append("%s assigns nothing to the root: for a root driven by a coroutine / async generator the assignment is what ends the reference and cancels the pending "
                            "evaluation, whose later results then overwrite the value that was just set" % desc)
            continue
        if outs[0].kind != "return":
            problems.append("%s raises %s" % (desc, outs[0].value))
        elif wrapper.attrs["object"] is given:
            problems.append("%s stores the caller's own object: when the caller extends it and assigns it again, the change test sees the identical object and nothing is invalidated" % desc)
        elif wrapper.attrs["object"] is not rebuilt:
            problems.append("%s stores %r, specification: the resolved value of what was assigned" % (desc, wrapper.attrs["object"]))
    ctx.abstract_cases += n
    if problems:
        ctx.fail(rule, f, f.node, "rx value-setter model: %s (%d disagreeing case(s))" % (problems[0], len(problems)), key=f.qualname + "::value-setter-model")
    else:
        ctx.ok(rule, f, f.node, "rx value-setter model: the root's wrapper receives the resolved (rebuilt) value, with and without references inside")


def evaluation_order_model(ctx, rule):
    """Plain Python evaluates `pipeline <op> argument` left to right.  With BOTH sides failing -- the input of the pipeline
    makes the root raise ZeroDivisionError, the argument's own evaluation raises IndexError -- reading the node must raise
    what the plain expression raises: the pipeline's exception.  The real rx._resolve / _eval_operation are interpreted on
    the three-node world of the cache model."""
    w = World(ctx)
    BADROOT, BADARGX = Obj("input_that_makes_the_pipeline_raise"), Obj("argument_whose_evaluation_raises")
    base_hook = w.hook

    def hook(fn, args, kwargs):
        if fn == "eval_function_with_deps" and w.cur is BADROOT:
            raise _Raise("ZeroDivisionError")
        if fn == "resolve_value" and args and args[0] is w.argref and w.arg is BADARGX:
            raise _Raise("IndexError")
        return base_hook(fn, args, kwargs)
    w.hook = hook
    problems = []
    try:
        w.update(BADROOT)
        w.update_arg(BADARGX)
        o = w.read(w.mid)
        got = o.value if o.kind == "raise" else "a value"
        if o.kind != "raise" or str(got) != "ZeroDivisionError":
            problems.append("with the pipeline's input AND an argument of the operation both invalid, reading the node raises %s; the plain expression `pipeline <op> argument` evaluates its left "
                            "side first and raises the pipeline's exception (ZeroDivisionError here)" % got)
        # only the argument invalid: its exception
        w2 = World(ctx)
        base2 = w2.hook

        def hook2(fn, args, kwargs):
            if fn == "resolve_value" and args and args[0] is w2.argref and w2.arg is BADARGX:
                raise _Raise("IndexError")
            return base2(fn, args, kwargs)
        w2.hook = hook2
        w2.update_arg(BADARGX)
        o2 = w2.read(w2.mid)
        if o2.kind != "raise" or str(o2.value) != "IndexError":
            problems.append("with only the argument invalid reading the node gives %s, specification IndexError" % (o2.value if o2.kind == "raise" else "a value"))
    except Unsupported as e:
        raise AnalysisError("rx model (evaluation order): absint cannot interpret rx._resolve: %s" % e)
    ctx.abstract_cases += 2
    f = ctx.repo.func(RX + "._resolve")
    if problems:
        ctx.fail(rule, f, f.node, "rx evaluation-order model: %s" % problems[0], key=f.qualname + "::evaluation-order",
                 input="(total / count) + items[index] with count=0 and index=99 raises IndexError instead of ZeroDivisionError")
    else:
        ctx.ok(rule, f, f.node, "rx evaluation-order model: the pipeline is evaluated before the arguments of the operation (the pipeline's exception wins, as in the plain expression)")
