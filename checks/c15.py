"""C15 -- JSON serialization round-trips: writer/reader agreement of each codec
pair (DESIGN §3/C15)."""
from __future__ import annotations

import ast
import re
from collections import Counter

from engine.effects import walk_stmts
from engine.hierarchy import PARAMETER
from engine.loader import AnalysisError, norm

WIDTH = {"Y": 4, "m": 2, "d": 2, "H": 2, "M": 2, "S": 2, "f": 6, "j": 3, "y": 2}
TIME_DIRECTIVES = set("HMSfIp")
SER = "param.serializer.JSONSerialization"
LISTED = ["Integer", "Number", "String", "Boolean", "Tuple", "NumericTuple", "XYCoordinates", "Range", "Date", "CalendarDate",
          "DateRange", "CalendarDateRange", "List", "Dict", "Selector", "ListSelector", "Color"]


def fmt_width(fmt):
    w, i = 0, 0
    while i < len(fmt):
        if fmt[i] == "%" and i + 1 < len(fmt):
            d = fmt[i + 1]
            if d == "%":
                w += 1
            elif d in WIDTH:
                w += WIDTH[d]
            else:
                return None
            i += 2
        else:
            w += 1
            i += 1
    return w


_RESOLVE = {"ctx": None, "cls": None}


def _format_text(arg):
    """The text of a format argument: a literal, a class-level constant (`cls.X` / `self.X`, looked up along the MRO) or a
    module-level constant.  Anything else cannot be compared: AnalysisError, never a silent pass."""
    if isinstance(arg, ast.Constant) and isinstance(arg.value, str):
        return arg.value
    ctx, q = _RESOLVE["ctx"], _RESOLVE["cls"]
    if ctx is not None and q is not None:
        if isinstance(arg, ast.Attribute) and isinstance(arg.value, ast.Name) and arg.value.id in ("cls", "self"):
            for k in ctx.hier.mro(q):
                c = ctx.repo.classes.get(k)
                v = c.class_assign(arg.attr) if c is not None else None
                if v is not None:
                    if isinstance(v, ast.Constant) and isinstance(v.value, str):
                        return v.value
                    break
        if isinstance(arg, ast.Name):
            mod = ctx.repo.classes[q].module
            vals = [st.value for st in mod.tree.body if isinstance(st, ast.Assign) for t in st.targets if isinstance(t, ast.Name) and t.id == arg.id]
            if len(vals) == 1 and isinstance(vals[0], ast.Constant) and isinstance(vals[0].value, str):
                return vals[0].value
    raise AnalysisError("date format `%s` of a strftime/strptime call is not a constant the analysis can resolve" % norm(arg))


def fmts(fnode, meth):
    """Formats written (meth='strftime') or parsed (meth='strptime') below ``fnode``.  ``<...>.date.fromisoformat(x)``
    parses exactly %Y-%m-%d and counts as such; so does ``.isoformat()`` in a class whose values are plain dates
    (CalendarDate...).  The datetime forms of both accept / produce a family of layouts and are not counted."""
    out = []
    q = _RESOLVE["cls"] or ""
    for c in ast.walk(fnode):
        if not (isinstance(c, ast.Call) and isinstance(c.func, ast.Attribute)):
            continue
        if c.func.attr == meth and c.args:
            out.append(_format_text(c.args[-1]))
        elif meth == "strptime" and c.func.attr == "fromisoformat" and norm(c.func.value).split(".")[-1] == "date":
            out.append("%Y-%m-%d")
        elif meth == "strftime" and c.func.attr == "isoformat" and not c.args and not c.keywords and "CalendarDate" in q.rsplit(".", 1)[-1]:
            out.append("%Y-%m-%d")
    return out


def returns(fnode):
    return [st for st in ast.walk(fnode) if isinstance(st, ast.Return)]


def kind_of_return(fnode, r):
    return _kind_of_value(fnode, r.value)


def _kind_of_value(fnode, v):
    if v is None or (isinstance(v, ast.Constant) and v.value is None):
        return "none"
    if isinstance(v, ast.IfExp):
        # `None if value is None else list(value)`: the kind of the branch that is not None
        kinds = {_kind_of_value(fnode, v.body), _kind_of_value(fnode, v.orelse)} - {"none"}
        return kinds.pop() if len(kinds) == 1 else ("none" if not kinds else "other")
    if isinstance(v, ast.Call) and norm(v.func) in ("list", "tuple"):
        return norm(v.func)
    if isinstance(v, ast.ListComp):
        return "list"
    if isinstance(v, ast.Name):
        defs = [st.value for st in ast.walk(fnode) if isinstance(st, ast.Assign) and any(isinstance(t, ast.Name) and t.id == v.id for t in st.targets)]
        if defs and all(isinstance(d, ast.List) for d in defs):
            return "list"
        if defs and all(isinstance(d, ast.Call) and norm(d.func) in ("list", "tuple") for d in defs):
            return norm(defs[0].func)
        if not defs:
            return "identity"
    return "other"


def none_guard(fnode, arg, allow_null_string):
    """First statement: `if <arg> is None [or <arg> == 'null']: return None`."""
    for st in fnode.body:
        if isinstance(st, ast.Expr) and isinstance(st.value, ast.Constant):
            continue
        if isinstance(st, ast.If) and st.body and isinstance(st.body[0], ast.Return) and \
                (st.body[0].value is None or (isinstance(st.body[0].value, ast.Constant) and st.body[0].value.value is None)):
            tests = st.test.values if isinstance(st.test, ast.BoolOp) and isinstance(st.test.op, ast.Or) else [st.test]
            return any(norm(t) == "%s is None" % arg for t in tests)
        if isinstance(st, ast.Return) and isinstance(st.value, ast.IfExp):
            # `return None if <arg> is None else ...` / `return ... if <arg> is not None else None`
            e = st.value
            is_none = lambda x: isinstance(x, ast.Constant) and x.value is None
            return (norm(e.test) == "%s is None" % arg and is_none(e.body)) or (norm(e.test) == "%s is not None" % arg and is_none(e.orelse))
        return False
    return False


def _none_decides(fnode, call):
    """Is the result of this lookup tested for None / truth, or returned -- i.e. can 'absent' and 'explicit None' be conflated downstream?
    (Passing it to a predicate such as callable() / hasattr() decides nothing about None.)"""
    parents = {}
    for p_ in ast.walk(fnode):
        for ch in ast.iter_child_nodes(p_):
            parents[id(ch)] = p_

    def decisive(node):
        par = parents.get(id(node))
        if par is None:
            return False
        if isinstance(par, ast.Compare):
            others = [par.left] + list(par.comparators)
            return any(isinstance(o, ast.Constant) and o.value is None for o in others if o is not node)
        if isinstance(par, (ast.BoolOp, ast.Return, ast.Yield)):
            return True
        if isinstance(par, ast.UnaryOp) and isinstance(par.op, ast.Not):
            return True
        if isinstance(par, (ast.If, ast.While, ast.IfExp, ast.Assert)) and par.test is node:
            return True
        return False
    if decisive(call):
        return True
    par = parents.get(id(call))
    if isinstance(par, ast.Assign) and len(par.targets) == 1 and isinstance(par.targets[0], ast.Name):
        v = par.targets[0].id
        return any(isinstance(n_, ast.Name) and n_.id == v and isinstance(n_.ctx, ast.Load) and decisive(n_) for n_ in ast.walk(fnode))
    if isinstance(par, ast.Call) and call in par.args:
        return False          # handed to a function as an argument
    return True               # any other use: assume the worst


def value_store_none_is_a_value(ctx, rule, consequence, example):
    """No reader of the per-instance value store conflates an explicit None with 'not set' (shared by R15.g / R20.n)."""
    n_reads = 0
    for f in ctx.repo.all_funcs("param"):
        src_ = ast.unparse(f.node)
        if "_param__private.values" not in src_ and ".values.get" not in src_ and "'values'" not in src_:
            continue
        aliases = ctx.facts.local_aliases(f)
        # getattr(<x>._param__private, 'values', <fallback>) is the value store too
        via_getattr = {t.id for st in ast.walk(f.node) if isinstance(st, ast.Assign) and isinstance(st.value, ast.Call) and norm(st.value.func) == "getattr"
                       and len(st.value.args) >= 2 and norm(st.value.args[0]).endswith("_param__private") and isinstance(st.value.args[1], ast.Constant) and st.value.args[1].value == "values"
                       for t in st.targets if isinstance(t, ast.Name)}
        for c in ast.walk(f.node):
            if isinstance(c, ast.Call) and isinstance(c.func, ast.Attribute) and c.func.attr == "get" and (
                    ctx.facts.field_of(c.func.value, aliases) == "private.values" or (isinstance(c.func.value, ast.Name) and c.func.value.id in via_getattr)):
                n_reads += 1
                if len(c.args) + len(c.keywords) >= 2:
                    ctx.ok(rule, f, c, "value-store lookup with an explicit fallback (None stays a value)")
                elif not _none_decides(f.node, c):
                    ctx.ok(rule, f, c, "value-store lookup whose result is only passed on: nothing is decided on its being None")
                else:
                    ctx.fail(rule, f, c, "`%s` returns None both for 'not set on the instance' and for an explicit None: the fallback to the class default replaces a None the user assigned "
                                            "(%s)" % (norm(c), consequence), key="%s::none-as-absent" % f.qualname,
                             input=example)
    ctx.require(n_reads >= 1, "no .get() read of the per-instance value store found")


def transport_is_plain_json(ctx, rule):
    """JSONSerialization.dumps / loads hand the value to json.dumps / json.loads as it is (no rewriting of numbers, no
    extra options): what is validated against the schema, and what comes back, is the value the codecs produced."""
    for nm, mod in (("dumps", "json.dumps"), ("loads", "json.loads")):
        g = ctx.repo.method(SER, nm)
        rets = returns(g.node)
        ok = len(rets) == 1 and isinstance(rets[0].value, ast.Call) and norm(rets[0].value.func) == mod and len(rets[0].value.args) == 1 \
            and not rets[0].value.keywords and norm(rets[0].value.args[0]) == g.params[-1]
        (ctx.ok if ok else ctx.fail)(rule, g, g.node, "%s is plain %s(x)" % (nm, mod) if ok else "%s is no longer plain %s(x): the text is not the value the codecs produced (numbers rewritten, "
                                     "non-standard JSON) / is decoded differently" % (nm, mod))


def codec_none_guards(ctx, rule, only=None):
    """Every serialize / deserialize override maps None -- and only None -- to None before touching the value (a truthiness
    test sends (), 0, '' and [] to null as well).  Shared by R15.d / R16.n."""
    n = 0
    for q in ctx.hier.parameter_classes():
        c = ctx.repo.classes[q]
        s, d = c.method("serialize"), c.method("deserialize")
        if s is None or d is None or q == PARAMETER:
            continue
        name = q.rsplit(".", 1)[-1]
        if only is not None and name not in only:
            continue
        for fn, which in ((s, "serialize"), (d, "deserialize")):
            n += 1
            if none_guard(fn.node, fn.params[-1], which == "deserialize"):
                ctx.ok(rule, fn, fn.node, "%s.%s returns None for None first" % (name, which))
            else:
                ctx.fail(rule, fn, fn.node, "%s.%s does not map None (and only None) to None before using the value: an empty / zero value is serialized as null, or a None cannot round-trip" % (name, which),
                         key="%s::none-guard" % fn.qualname)
    return n


def run(ctx):
    ctx.rule("R15.a", "a Parameter class that overrides serialize overrides deserialize in the same class, and vice versa", floor=6)
    ctx.rule("R15.b", "the multiset of strftime formats in serialize equals the multiset of strptime formats in deserialize", floor=4)
    ctx.rule("R15.c", "serialize returns a list built from the value iff deserialize returns a tuple built from the decoded list", floor=3)
    ctx.rule("R15.d", "both directions map None to None before touching the value", floor=10)
    ctx.rule("R15.e", "where deserialize picks a format by len(v) == K, K is the fixed width of the format used on that arm and differs from the other format's width; "
                      "serialize picks the date-only format exactly for type(v) is date", floor=1)
    ctx.rule("R15.f", "object level: serialize_parameters / deserialize_parameters loop over the same names with the same subset filter, call p.serialize / param[name].deserialize, and use plain json.dumps / json.loads", floor=5)
    ctx.rule("R15.n", "entry-point model: Parameters.serialize_parameters interpreted with subset None / one name / two names: the subset reaches the serializer unchanged (None means every "
                      "parameter -- no default subset is computed here) and the serializer's result is returned unchanged", floor=1)
    ctx.rule("R15.g", "the value handed to the codec is the value attribute access gives: no reader of the per-instance value store conflates an explicit None with 'not set' "
                      "(one-argument .get(name) followed by an `is None` fallback)", floor=1)
    ctx.rule("R15.i", "serialization is a function of the current value only: every return of serialize_parameter_value is the encoding, made in that call, of the value read in that call "
                      "(cls.dumps(<parameter>.serialize(<value>))); writers of serializer state that outlives a call (class attributes, module globals) are listed for triage", floor=1)
    ctx.rule("R15.j", "codec model (a): for the Tuple family serialize -> JSON transport -> deserialize, interpreted abstractly on (), (a, b), (a, [b, c]), (a, []), (a, [b, [c]]) and None, gives back "
                      "a value of the same shape with the same elements (a list inside a tuple stays a list)", floor=1)
    ctx.rule("R15.k", "codec model (b): the per-parameter route deserialize_parameter_value returns <parameter>.deserialize(loads(text)) for every decoded value, falsy ones included "
                      "([], 0, '', false, {}, null)", floor=1)
    ctx.rule("R15.h", "the base codec is the identity: Parameter.serialize / Parameter.deserialize return their argument unchanged on every path (String, Selector, List, Dict, Boolean, Color rely on it; "
                      "any string, including 'null', is a legal String value)", floor=2)
    ctx.not_decided += ["value-level equality of the round trip (years < 1000, non-finite floats, int-vs-float) -- needs execution",
                        "decorator agreement is deliberately NOT armed: DateRange.deserialize lacks @classmethod yet round-trips because it is always called on the Parameter instance"]

    overr = {}
    for q in ctx.hier.parameter_classes():
        c = ctx.repo.classes[q]
        s, d = c.method("serialize"), c.method("deserialize")
        if s is None and d is None:
            continue
        name = q.rsplit(".", 1)[-1]
        if (s is None) != (d is None):
            have = s or d
            ctx.fail("R15.a", have, have.node, "%s overrides %s but not its inverse: the inherited inverse does not undo it" % (name, have.name),
                     key="%s::unpaired-codec" % q)
            continue
        ctx.ok("R15.a", s, s.node, "%s overrides both serialize and deserialize" % name)
        if q == PARAMETER:
            continue
        overr[name] = (s, d)
        sarg = s.params[-1]
        darg = d.params[-1]
        # R15.d
        for fn, arg, which in ((s, sarg, "serialize"), (d, darg, "deserialize")):
            if none_guard(fn.node, arg, which == "deserialize"):
                ctx.ok("R15.d", fn, fn.node, "%s.%s returns None for None first" % (name, which))
            else:
                ctx.fail("R15.d", fn, fn.node, "%s.%s does not map None to None before using the value (an allow_None parameter holding None cannot round-trip)" % (name, which),
                         key="%s::none-guard" % fn.qualname)
        if name in ("Array", "DataFrame"):
            continue   # outside the property's list of types (numpy/pandas codecs)
        # R15.b
        _RESOLVE["ctx"], _RESOLVE["cls"] = ctx, q
        sf, df = fmts(s.node, "strftime"), fmts(d.node, "strptime")
        if sf or df:
            if Counter(sf) == Counter(df):
                ctx.ok("R15.b", s, s.node, "%s: formats %s on both sides" % (name, sorted(set(sf))))
            else:
                ctx.fail("R15.b", d, d.node, "%s: serialize writes with %s but deserialize parses with %s" % (name, sorted(sf), sorted(df)),
                         key="%s::format-mismatch" % q)
        # R15.c
        sk = {kind_of_return(s.node, r) for r in returns(s.node)} - {"none"}
        dk = {kind_of_return(d.node, r) for r in returns(d.node)} - {"none"}
        if "list" in sk or "tuple" in dk or ctx.hier.is_subclass(q, "param.parameters.Tuple"):
            if sk == {"list"} and dk == {"tuple"}:
                ctx.ok("R15.c", s, s.node, "%s: list out, tuple back" % name)
            else:
                ctx.fail("R15.c", d, d.node, "%s: serialize returns %s, deserialize returns %s (a tuple must come back as a tuple)" % (name, sorted(sk), sorted(dk)),
                         key="%s::container-inverse" % q)
        # R15.e
        for st in ast.walk(d.node):
            if isinstance(st, ast.If) and isinstance(st.test, ast.Compare) and isinstance(st.test.left, ast.Call) and norm(st.test.left.func) == "len" \
                    and isinstance(st.test.ops[0], ast.Eq) and isinstance(st.test.comparators[0], ast.Constant):
                k = st.test.comparators[0].value
                tf = [f for b in st.body for f in fmts(b, "strptime")]
                ef = [f for b in st.orelse for f in fmts(b, "strptime")]
                if len(tf) == 1 and len(ef) == 1 and fmt_width(tf[0]) == k and fmt_width(ef[0]) not in (None, k):
                    ctx.ok("R15.e", d, st, "%s: len == %d selects %r (width %d); the other format %r has width %s" % (name, k, tf[0], k, ef[0], fmt_width(ef[0])))
                else:
                    ctx.fail("R15.e", d, st, "%s: the width test len(v) == %r does not discriminate the formats %s (widths %s) / %s (widths %s)" % (
                        name, k, tf, [fmt_width(f) for f in tf], ef, [fmt_width(f) for f in ef]), key="%s::width-discriminator" % q)
                # serialize side: the date-only format is chosen exactly for plain dates
                for st2 in ast.walk(s.node):
                    if isinstance(st2, ast.If) and any(fmts(b, "strftime") for b in st2.body) and any(fmts(b, "strftime") for b in st2.orelse):
                        tf2 = [f for b in st2.body for f in fmts(b, "strftime")]
                        ef2 = [f for b in st2.orelse for f in fmts(b, "strftime")]
                        date_only_true = not (set(re.findall(r"%(.)", tf2[0])) & TIME_DIRECTIVES)
                        t = norm(st2.test)
                        exact_date = t in ("type(v) is dt.date", "type(v) == dt.date", "not isinstance(v, dt.datetime)")
                        exact_dt = t in ("isinstance(v, dt.datetime)", "type(v) is not dt.date", "type(v) != dt.date")
                        if (date_only_true and exact_date) or ((not date_only_true) and exact_dt):
                            ctx.ok("R15.e", s, st2, "%s: `%s` selects the %s format" % (name, t, "date-only" if date_only_true else "datetime"))
                        else:
                            ctx.fail("R15.e", s, st2, "%s: the test `%s` selects the %s format; a datetime (a subclass of date) must never be written date-only" % (
                                name, t, "date-only" if date_only_true else "datetime"), key="%s::serialize-discriminator" % q)

    # ---------------------------------------------------------------- R15.f
    sp = ctx.repo.method(SER, "serialize_parameters")
    dp = ctx.repo.method(SER, "deserialize_parameters")

    def subset_filters(fn):
        return [norm(st.test) for st in ast.walk(fn.node) if isinstance(st, ast.If) and "subset" in norm(st.test)
                and st.body and isinstance(st.body[0], ast.Continue)]
    a, b = subset_filters(sp), subset_filters(dp)
    if a and a == b:
        ctx.ok("R15.f", sp, sp.node, "same subset filter `%s` on both sides" % a[0])
    else:
        ctx.fail("R15.f", dp, dp.node, "serialize_parameters filters with %s, deserialize_parameters with %s" % (a, b), key=SER + "::subset-filter")
    sers = [st for st in walk_stmts(sp.node) if isinstance(st, ast.Assign) and isinstance(st.targets[0], ast.Subscript)
            and isinstance(st.value, ast.Call) and isinstance(st.value.func, ast.Attribute) and st.value.func.attr == "serialize"]
    loop_s = [st for st in walk_stmts(sp.node) if isinstance(st, ast.For)]
    if sers and loop_s and norm(sers[0].targets[0].slice) == norm(loop_s[0].target.elts[0]) and norm(sers[0].value.func.value) == norm(loop_s[0].target.elts[1]):
        ctx.ok("R15.f", sp, sers[0], "components[name] = p.serialize(value) for every (name, p)")
    else:
        ctx.fail("R15.f", sp, sp.node, "serialize_parameters does not store p.serialize(value) under the parameter's own name", key=SER + "::serialize-loop")
    des = [c for c in ast.walk(dp.node) if isinstance(c, ast.Call) and isinstance(c.func, ast.Attribute) and c.func.attr == "deserialize"]
    loop_d = [st for st in walk_stmts(dp.node) if isinstance(st, ast.For)]
    ok = False
    if des and loop_d and isinstance(loop_d[0].target, ast.Tuple):
        nm, val = [norm(e) for e in loop_d[0].target.elts]
        recv = des[0].func.value
        if isinstance(recv, ast.Subscript) and norm(recv.slice) == nm and norm(recv.value).endswith(".param") and [norm(x) for x in des[0].args] == [val]:
            stores = [st for st in walk_stmts(dp.node) if isinstance(st, ast.Assign) and isinstance(st.targets[0], ast.Subscript) and norm(st.targets[0].slice) == nm]
            ok = bool(stores)
    (ctx.ok if ok else ctx.fail)("R15.f", dp, des[0] if des else dp.node, "components[name] = pobj.param[name].deserialize(value) for every decoded (name, value)" if ok else
                                 "deserialize_parameters does not decode each value with the deserializer of the parameter of the same name")
    transport_is_plain_json(ctx, "R15.f")
    rets = returns(sp.node)
    ok = rets and isinstance(rets[-1].value, ast.Call) and norm(rets[-1].value.func) == "cls.dumps"
    lds = [c for c in ast.walk(dp.node) if isinstance(c, ast.Call) and norm(c.func) == "cls.loads"]
    (ctx.ok if ok and lds else ctx.fail)("R15.f", sp, sp.node, "serialize_parameters ends in cls.dumps, deserialize_parameters starts from cls.loads" if ok and lds else
                                         "the object-level codec no longer pairs cls.dumps with cls.loads")
    ctx.extra["codec_pairs"] = sorted(overr)

    # the loops are the only route: every store into the result is a codec result
    for fn, meth in ((sp, "serialize"), (dp, "deserialize")):
        lp = [st for st in walk_stmts(fn.node) if isinstance(st, ast.For)]
        stores = [st for l in lp for st in ast.walk(l) if isinstance(st, ast.Assign) and isinstance(st.targets[0], ast.Subscript)]
        conts = [st for l in lp for st in ast.walk(l) if isinstance(st, ast.Continue)]
        bypass = []
        for st in stores:
            v = st.value
            if isinstance(v, ast.Name):
                defs = [d.value for l in lp for d in ast.walk(l) if isinstance(d, ast.Assign) and any(isinstance(t, ast.Name) and t.id == v.id for t in d.targets)]
                good = bool(defs) and all(isinstance(d, ast.Call) and isinstance(d.func, ast.Attribute) and d.func.attr == meth for d in defs)
            else:
                good = isinstance(v, ast.Call) and isinstance(v.func, ast.Attribute) and v.func.attr == meth
            if not good:
                bypass.append(st)
        if bypass or len(conts) > 1:
            b = bypass[0] if bypass else conts[-1]
            ctx.fail("R15.f", fn, b, "%s_parameters has a route that bypasses the parameter's own %s (`%s`): values are decoded differently from %s_value / from what the type's codec does" % (
                meth, meth, norm(b)[:70], meth), key="%s::codec-bypass" % fn.qualname,
                input="String parameter holding the text 'null' comes back as None through deserialize_parameters")
        else:
            ctx.ok("R15.f", fn, lp[0] if lp else fn.node, "every entry of the result is produced by the parameter's %s; the subset filter is the only skip" % meth)

    # ---------------------------------------------------------------- R15.g
    value_store_none_is_a_value(ctx, "R15.g", "serialize_parameters then emits the default instead of null", "Integer(default=7, allow_None=True); obj.x = None; serialize_parameters() -> 7")

    # ---------------------------------------------------------------- R15.h
    for meth in ("serialize", "deserialize"):
        g = ctx.repo.method(PARAMETER, meth)
        arg = g.params[-1]
        rets = [st for st in ast.walk(g.node) if isinstance(st, ast.Return)]
        if rets and all(isinstance(r.value, ast.Name) and r.value.id == arg for r in rets) and \
                not any(isinstance(st, ast.Assign) and any(isinstance(t, ast.Name) and t.id == arg for t in st.targets) for st in ast.walk(g.node)):
            ctx.ok("R15.h", g, g.node, "Parameter.%s returns its argument on every path" % meth)
        else:
            bad = next((r for r in rets if not (isinstance(r.value, ast.Name) and r.value.id == arg)), g.node)
            ctx.fail("R15.h", g, bad, "the base Parameter.%s is no longer the identity (`%s`): types that inherit it (String, Selector, List, Dict, Boolean, Color) get values rewritten" % (
                meth, norm(bad)[:60]), key="%s::not-identity" % g.qualname, input="String parameter holding the text 'null' deserializes to None")

    # ---------------------------------------------------------------- R15.i
    spv = ctx.repo.method(SER, "serialize_parameter_value")
    vnames = {t.id for st in ast.walk(spv.node) if isinstance(st, ast.Assign) and "get_value_generator" in norm(st.value) for t in st.targets if isinstance(t, ast.Name)}
    ctx.require(vnames, "serialize_parameter_value no longer reads the value with get_value_generator")

    def fresh_encoding(e, depth=0):
        if isinstance(e, ast.Name) and depth < 3:
            defs = [st.value for st in ast.walk(spv.node) if isinstance(st, ast.Assign) and any(isinstance(t, ast.Name) and t.id == e.id for t in st.targets)]
            return bool(defs) and all(fresh_encoding(d, depth + 1) for d in defs)
        if isinstance(e, ast.Call) and norm(e.func) in ("cls.dumps", "json.dumps") and e.args:
            inner = e.args[0]
            if isinstance(inner, ast.Name) and depth < 3:
                defs = [st.value for st in ast.walk(spv.node) if isinstance(st, ast.Assign) and any(isinstance(t, ast.Name) and t.id == inner.id for t in st.targets)]
                inner = defs[0] if len(defs) == 1 else inner
            return isinstance(inner, ast.Call) and isinstance(inner.func, ast.Attribute) and inner.func.attr == "serialize" and len(inner.args) == 1 \
                and isinstance(inner.args[0], ast.Name) and inner.args[0].id in vnames
        return False
    rets = [st for st in ast.walk(spv.node) if isinstance(st, ast.Return)]
    ctx.require(rets, "serialize_parameter_value has no return")
    stale = [r for r in rets if not fresh_encoding(r.value)]
    if stale:
        ctx.fail("R15.i", spv, stale[0], "`%s` returns something other than the encoding, made in this call, of the value read in this call: a value mutated in place since an earlier call "
                                         "(list.append, dict item assignment) is serialized as it was then" % norm(stale[0])[:80], key=spv.qualname + "::not-fresh-encoding",
                 input="p.param.serialize_value('lst'); p.lst.append(3); p.param.serialize_value('lst') -> old text")
    else:
        ctx.ok("R15.i", spv, rets[0], "%d return(s), each cls.dumps(<parameter>.serialize(<value read in this call>))" % len(rets))
    smod = ctx.repo.modules["param.serializer"] if hasattr(ctx.repo, "modules") and "param.serializer" in ctx.repo.modules else None
    n_fn, writers = 0, []
    for g in ctx.repo.all_funcs("param.serializer"):
        n_fn += 1
        for a in ast.walk(g.node):
            if isinstance(a, ast.Global):
                writers.append((g, a, "global " + ", ".join(a.names)))
            tgt = None
            if isinstance(a, (ast.Assign, ast.AugAssign)):
                for t in (a.targets if isinstance(a, ast.Assign) else [a.target]):
                    base = t.value if isinstance(t, ast.Subscript) else t
                    if isinstance(base, ast.Attribute) and isinstance(base.value, ast.Name) and base.value.id in ("cls", "JSONSerialization", "Serialization"):
                        tgt = t
            if isinstance(a, ast.Call) and isinstance(a.func, ast.Attribute) and a.func.attr in ("setdefault", "update", "append", "add", "pop", "clear", "__setitem__", "extend", "insert"):
                base = a.func.value
                if isinstance(base, ast.Attribute) and isinstance(base.value, ast.Name) and base.value.id in ("cls", "JSONSerialization", "Serialization"):
                    tgt = a
            if tgt is not None:
                writers.append((g, a, norm(tgt)[:70]))
    if writers:
        # not a violation by itself (a memo keyed by immutable content would be harmless): reported for triage only
        g, a, what = writers[0]
        ctx.info("R15.i", g, a, "`%s` writes serializer state that outlives the call (harmless only if no result depends on it)" % what)
    else:
        ctx.ok("R15.i", SER, None, "%d functions of param/serializer.py: none writes a class attribute or a module global" % n_fn)

    # model-level rules, run last
    from checks import codec_model
    codec_model.report(ctx, "R15.j", "R15.k")
    codec_model.namespace_entry_points(ctx, "R15.n")
    ctx.rule("R15.m", "entry-point model, decoding: Parameters.deserialize_parameters interpreted twice in a row with the same text on one class: the serializer is consulted both times and no "
                      "mutable value of the second result is an object of the first (no remembered payload hands out shared containers)", floor=1)
    codec_model.deserialize_entry_point(ctx, "R15.m")
