"""where model (C09): reactive_ops.where interpreted abstractly.

`cond.rx.where(x, y)` with reactive branches x and y builds a Trigger, two
callbacks bound (watch=True) to the dependencies of x and of y, and a ternary
function bound to the condition and the Trigger.  The model runs `where`, takes
the callbacks it registers and calls each of them under six current values of
the condition (True, False, a truthy non-bool, 0, '' and None).

Specification: the callback watching x fires the Trigger iff the condition is
truthy, the one watching y iff it is falsy (Python's `x if cond else y`), each
is bound to exactly the dependencies of its branch with watch=True; the ternary
returns the resolved x iff its condition argument is truthy and is bound to the
condition and the Trigger's value.
"""
from __future__ import annotations

from engine.absint import DefClosure, Interp, Obj, Unsupported
from engine.loader import AnalysisError

OPS = "param.reactive.reactive_ops"


def model(ctx):
    f = ctx.hier.resolve(OPS, "where")
    if f is None:
        raise AnalysisError("where model: reactive_ops.where not found")
    X, Y = Obj("branch_x"), Obj("branch_y")
    dx, dy = Obj("dependency_of_x"), Obj("dependency_of_y")
    vx, vy = Obj("value_of_x"), Obj("value_of_y")
    reactive = Obj("condition_expression", _params=[Obj("param_of_condition")])
    selfo = Obj("rx_namespace", _reactive=reactive, value=True)
    trig_value = Obj("trigger_value_parameter")
    trig = Obj("trigger", param=Obj("trigger_param", value=trig_value))
    fired, binds = [], []

    def hook(fn, args, kwargs):
        if fn == "resolve_ref" and args:
            return [dx] if args[0] is X else [dy] if args[0] is Y else []
        if fn == "resolve_value" and args:
            return vx if args[0] is X else vy if args[0] is Y else args[0]
        if fn == "isinstance":
            return True
        if fn == "Trigger":
            return trig
        if fn.endswith(".param.trigger"):
            fired.append(args[0] if args else None)
            return None
        if fn == "bind":
            binds.append((args[0] if args else None, list(args[1:]), dict(kwargs)))
            return Obj("bound_function_%d" % len(binds))
        return NotImplemented
    it = Interp(ctx.hier, dyn=OPS, inline=lambda m: True, call_hook=hook, globals={"rx": "<rx>"}, strict_self_calls=True)
    try:
        outs = it.run_all(f, {f.params[0]: selfo, f.params[1]: X, f.params[2]: Y})
    except Unsupported as e:
        raise AnalysisError("where model: absint cannot interpret reactive_ops.where: %s" % e)
    if len(outs) != 1 or outs[0].imprecise or outs[0].kind != "return":
        raise AnalysisError("where model: reactive_ops.where is not interpretable precisely")
    problems = []
    cbx = [b for b in binds if b[1] == [dx] and b[2].get("watch") is True]
    cby = [b for b in binds if b[1] == [dy] and b[2].get("watch") is True]
    tern = [b for b in binds if not b[2].get("watch")]
    if len(cbx) != 1 or len(cby) != 1:
        problems.append("where() binds %d callback(s) to the dependencies of x and %d to those of y with watch=True (specification: one each)" % (len(cbx), len(cby)))
    if len(tern) != 1 or len(tern[0][1]) != 2 or tern[0][1][0] is not reactive or tern[0][1][1] is not trig_value:
        problems.append("the ternary function is not bound to (the condition, the Trigger's value)")
    conds = [("True", True), ("False", False), ("a truthy non-bool value (a length, a non-empty string)", Obj("truthy_value")), ("0", 0), ("''", ""), ("None", None)]
    n = 1
    for label, (cbs, want_truthy) in (("x", (cbx, True)), ("y", (cby, False))):
        for b in cbs[:1]:
            cb = b[0]
            if not isinstance(cb, DefClosure):
                raise AnalysisError("where model: the callback bound to the dependencies of %s is not a nested function the model can call (%r)" % (label, cb))
            for cname, cval in conds:
                selfo.attrs["value"] = cval
                del fired[:]
                try:
                    it.call_def_closure(cb, [Obj("event")], {})
                except Unsupported as e:
                    raise AnalysisError("where model: cannot interpret the %s callback: %s" % (label, e))
                n += 1
                truthy = bool(cval) if not isinstance(cval, Obj) else True
                want = truthy == want_truthy
                if bool(fired) != want:
                    problems.append("with the condition currently %s, an update of branch %s %s the Trigger (specification: %s): %s" % (
                        cname, label, "fires" if fired else "does not fire", "fire" if want else "do not fire",
                        "the expression keeps the value of the old %s" % label if want else "a needless re-evaluation"))
    for b in tern[:1]:
        if isinstance(b[0], DefClosure):
            for cname, cval in conds:
                try:
                    r = it.call_def_closure(b[0], [cval, Obj("tick")], {})
                except Unsupported as e:
                    raise AnalysisError("where model: cannot interpret the ternary: %s" % e)
                n += 1
                truthy = bool(cval) if not isinstance(cval, Obj) else True
                if r is not (vx if truthy else vy):
                    problems.append("the ternary gives %r for the condition %s" % (r, cname))
    return n, problems


def report(ctx, rule):
    n, problems = model(ctx)
    f = ctx.hier.resolve(OPS, "where")
    ctx.abstract_cases += n
    if not problems:
        ctx.ok(rule, f, f.node, "where model, %d abstract cases: branch callbacks fire the Trigger iff the condition's truth value selects their branch (bool and non-bool conditions); the ternary follows truthiness" % n)
    else:
        ctx.fail(rule, f, f.node, "where model: %s (%d disagreeing case(s))" % (problems[0], len(problems)), key=f.qualname + "::where-model",
                 input="items.rx.len().rx.where(x, y); read; update x alone; read -> stale")
